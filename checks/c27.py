"""C27 — fixed-entry dictionaries never hold undeclared keys and pickle faithfully.

Monitor shape: history + model.  Random operation histories are applied to
every fixeddict type of the library and, in lock-step, to a plain-dict model
restricted to declared keys.  After every operation the live object is
inspected (keys, type, content).
"""
import copy
import importlib
import pickle
import pkgutil

from vlib import jsonx

PROPERTY = "C27"
LEVEL = "exploration"
TECHNIQUE = "runtime monitoring: random operation histories on the real fixeddict classes vs a plain-dict model, invariant checked after every operation"
RULE = (
    "case = (fixeddict type, history seed); a history is 4-30 operations drawn from construct(kwargs|mapping|pairs|instance of another fixeddict type), "
    "[]=, setdefault, update(mapping|pairs|kwargs|mixed), |= (mapping|pairs), copy, pickle protocols 0-5, deepcopy, "
    "del/pop/clear, each with declared and/or undeclared keys; distinct = distinct (type, operation-kind sequence, "
    "which operands carried undeclared keys); histories with no undeclared-key operand and no copy/pickle are trivial"
)
ASSUMPTIONS = [
    "fixeddict types are found by walking vc2_conformance.* modules for dict subclasses with an entry_objs attribute",
    "an operation given a mix of declared and undeclared keys may apply the declared ones before raising (the property only states the key invariant and the error type)",
]
CASE_TIMEOUT_S = 120

_TYPES = None


def fixeddict_types():
    global _TYPES
    if _TYPES is None:
        import vc2_conformance

        found = {}
        for m in pkgutil.walk_packages(vc2_conformance.__path__, "vc2_conformance."):
            if ".scripts." in m.name and m.name.endswith("__main__"):
                continue
            try:
                mod = importlib.import_module(m.name)
            except Exception:
                continue
            for k, v in vars(mod).items():
                if isinstance(v, type) and issubclass(v, dict) and hasattr(v, "entry_objs"):
                    found[v.__module__ + "." + v.__name__] = v
        _TYPES = dict(sorted(found.items()))
    return _TYPES


_SUBS = {}


def _subclass_of(T):
    """an importable (hence picklable) subclass of fixeddict type T, defined in this module"""
    if T not in _SUBS:
        name = "Sub%d_%s" % (len(_SUBS), T.__name__)
        S = type(name, (T,), {"__module__": __name__, "__qualname__": name, "helper": lambda self: len(self)})
        globals()[name] = S
        _SUBS[T] = S
    return _SUBS[T]


def plan(tier, seed):
    n_types = len(fixeddict_types())
    per_type = 400 if tier == "quick" else 40000
    shards = []
    nsh = 16 if tier == "quick" else 64
    for s in range(nsh):
        shards.append({"shard": s, "nshards": nsh, "per_type": per_type // nsh + 1})
    return shards


def cases(spec, ctx):
    names = list(fixeddict_types())
    for name in names:
        for i in range(spec["per_type"]):
            yield {"type": name, "hseed": "%s/%s/%d/%d" % (ctx.seed, name, spec["shard"], i)}


UNDECL = ["undeclared", "_undeclared", "", "Parse_code", "x" * 40, 0, None, ("a", 1)]


def _value(rng, depth=0):
    r = rng.random()
    if r < 0.5:
        return rng.choice([0, 1, -1, 255, 2 ** 32 - 1, 2 ** 70, rng.randrange(-1000, 1000)])
    if r < 0.65:
        return rng.choice(["", "abc", "é", b"\x00\xff"])
    if r < 0.75:
        return None
    if r < 0.9 and depth < 2:
        return [_value(rng, depth + 1) for _ in range(rng.randrange(3))]
    if depth < 2:
        return {"k": _value(rng, depth + 1)}
    return 7


def _operand(rng, declared, want_undeclared):
    """Returns (pairs, has_undeclared)."""
    n = rng.choice([0, 1, 1, 2, 3])
    pairs = []
    for _ in range(n):
        if declared:
            pairs.append((rng.choice(declared), _value(rng)))
    has_u = False
    if want_undeclared:
        k = rng.choice(UNDECL)
        if declared and rng.random() < 0.3:
            # near misses of a declared name: its bytes spelling, another case, a trailing space, a prefix
            d0 = rng.choice(declared)
            if isinstance(d0, str) and d0:
                k = rng.choice([d0.encode(), d0.upper() if d0.upper() != d0 else d0 + "_", d0 + " ", d0[:-1] or "_", (d0,)])
                if k in declared:
                    k = "undeclared"
        pairs.insert(rng.randrange(len(pairs) + 1), (k, _value(rng)))
        has_u = True
    return pairs, has_u


def run_case(case, ctx):
    import random

    from vc2_conformance.fixeddict import FixedDictKeyError

    T = fixeddict_types()[case["type"]]
    declared = list(T.entry_objs)
    dset = set(declared)
    rng = random.Random(case["hseed"])
    if rng.random() < 0.15:
        # an application-defined subclass of the fixed-entry type (same entries, an extra method)
        T = _subclass_of(T)
        ctx.count("subclass_cases")
    d = T()
    model = {}
    kinds = []
    nontrivial = False

    def check_state(where, allow=None):
        keys = set(dict.keys(d))
        if not keys <= dset:
            ctx.violation(
                "fixeddict:undeclared-key-present:" + where.split(":")[0],
                "%s holds undeclared key(s) %r after %s" % (case["type"], sorted(map(repr, keys - dset)), where),
                detail={"history": kinds},
            )
            # repair so the rest of the history stays meaningful
            for k in keys - dset:
                dict.__delitem__(d, k)
            model.clear()
            model.update(dict(d))
            return False
        if type(d) is not T:
            ctx.violation("fixeddict:type-changed:" + where.split(":")[0], "type became %r after %s" % (type(d), where))
            return False
        if allow is None:
            if dict(d) != model:
                ctx.violation(
                    "fixeddict:content-differs:" + where.split(":")[0],
                    "%s content %r != model %r after %s" % (case["type"], dict(d), model, where),
                    detail={"history": kinds},
                )
                model.clear()
                model.update(dict(d))
                return False
        else:
            # partial application permitted: every key holds either old or new value
            old, offered = allow
            for k in set(old) | set(d):
                v = d.get(k, "<absent>")
                if v != old.get(k, "<absent>") and not any(k == pk and v == pv for pk, pv in offered):
                    ctx.violation(
                        "fixeddict:content-differs:" + where.split(":")[0],
                        "%s key %r holds %r which is neither old nor new after %s" % (case["type"], k, v, where),
                    )
            model.clear()
            model.update(dict(d))
        return True

    nops = rng.randrange(4, 31)
    for _ in range(nops):
        op = rng.choice(
            ["construct_kw", "construct_map", "construct_pairs", "construct_other", "construct_other", "setitem", "setdefault", "update_map", "update_pairs",
             "update_kw", "update_mixed", "ior_map", "ior_pairs", "copy", "pickle", "deepcopy", "del", "pop", "clear",
             "copy_copy", "or_map", "ror_map"]
        )
        want_u = rng.random() < 0.4
        pairs, has_u = _operand(rng, declared, want_u)
        label = op + (":U" if has_u else "")
        if op in ("update_kw", "construct_kw", "update_mixed") and any(not isinstance(k, str) for k, _ in pairs):
            pairs = [(k, v) for k, v in pairs if isinstance(k, str)]
            has_u = any(k not in dset for k, _ in pairs)
            label = op + (":U" if has_u else "")
        kinds.append(label)
        ctx.count("op:" + op)
        new_model = dict(model)
        raised = None
        try:
            if op.startswith("construct"):
                new_model = dict(pairs)
                if op == "construct_other":
                    # the source is an instance of a *different* fixeddict type (or of the same one) holding some keys
                    others = fixeddict_types()
                    oname = rng.choice(sorted(others))
                    O = others[oname]
                    okeys = list(O.entry_objs)
                    src = O()
                    for _k in rng.sample(okeys, min(len(okeys), rng.randrange(0, 4))):
                        dict.__setitem__(src, _k, _value(rng))
                    pairs = list(dict.items(src))
                    has_u = any(k not in dset for k, _ in pairs)
                    kinds[-1] = op + (":U" if has_u else "")
                    new_model = dict(pairs)
                    nd = T(src)
                elif op == "construct_kw":
                    nd = T(**dict(pairs))
                elif op == "construct_map":
                    nd = T(dict(pairs))
                else:
                    nd = T(list(pairs))
                d = nd
            elif op == "setitem":
                if not pairs:
                    continue
                k, v = pairs[-1] if not has_u else [p for p in pairs if p[0] not in dset][0]
                has_u = k not in dset
                new_model[k] = v
                d[k] = v
            elif op == "setdefault":
                if not pairs:
                    continue
                k, v = pairs[-1] if not has_u else [p for p in pairs if p[0] not in dset][0]
                has_u = k not in dset
                new_model.setdefault(k, v)
                r = d.setdefault(k, v)
                if not has_u and r != new_model[k]:
                    ctx.violation("fixeddict:setdefault-return", "setdefault returned %r, model %r" % (r, new_model[k]))
            elif op == "update_map":
                new_model.update(dict(pairs))
                d.update(dict(pairs))
            elif op == "update_pairs":
                new_model.update(list(pairs))
                d.update(list(pairs))
            elif op == "update_kw":
                new_model.update(**dict(pairs))
                d.update(**dict(pairs))
            elif op == "update_mixed":
                h = len(pairs) // 2
                new_model.update(dict(pairs[:h]), **dict(pairs[h:]))
                d.update(dict(pairs[:h]), **dict(pairs[h:]))
            elif op == "ior_map":
                new_model.update(dict(pairs))
                d |= dict(pairs)
            elif op == "ior_pairs":
                new_model.update(list(pairs))
                d |= list(pairs)
            elif op in ("or_map", "ror_map"):
                # union operators build a NEW object and leave d alone; whatever comes back, an object of the
                # fixed-entry type must not hold an undeclared key (a plain dict may)
                before = dict(d)
                try:
                    c = (d | dict(pairs)) if op == "or_map" else (dict(pairs) | d)
                except FixedDictKeyError:
                    c = None
                    if not has_u:
                        ctx.violation("fixeddict:declared-rejected:" + op, "%s with declared keys only raised FixedDictKeyError" % op,
                                      detail={"history": kinds, "pairs": repr(pairs)})
                ctx.count("union_results:" + ("rejected" if c is None else type(c).__name__ if not isinstance(c, T) else "fixeddict"))
                if has_u:
                    nontrivial = True
                    ctx.count("undeclared_operand_ops")
                if c is not None and isinstance(c, T):
                    bad = [k for k in dict.keys(c) if k not in dset]
                    if bad:
                        ctx.violation("fixeddict:undeclared-accepted:" + op, "%s returned a %s holding undeclared key %r" % (op, case["type"], bad[0]),
                                      detail={"history": kinds, "pairs": repr(pairs)})
                if c is not None and not has_u:
                    want = dict(before)
                    want.update(dict(pairs)) if op == "or_map" else None
                    if op == "ror_map":
                        want = dict(pairs)
                        want.update(before)
                    if dict(c) != want:
                        ctx.violation("fixeddict:%s-content" % op, "%s gave %r, expected %r" % (op, dict(c), want))
                if dict(d) != before:
                    ctx.violation("fixeddict:%s-mutated-operand" % op, "%s changed its fixeddict operand" % op)
                continue
            elif op in ("copy", "copy_copy", "deepcopy", "pickle"):
                has_u = False
                if op == "copy":
                    c = d.copy()
                elif op == "copy_copy":
                    c = copy.copy(d)
                elif op == "deepcopy":
                    c = copy.deepcopy(d)
                else:
                    proto = rng.randrange(0, pickle.HIGHEST_PROTOCOL + 1)
                    ctx.count("pickle_proto_%d" % proto)
                    c = pickle.loads(pickle.dumps(d, proto))
                    if rng.random() < 0.3:
                        # stored state that names a key the type does not declare (written by another version of the
                        # type, or by hand): loading it must be refused like any other route
                        bad_key = rng.choice([u for u in UNDECL if isinstance(u, str)])
                        st = dict(d)
                        st[bad_key] = 1
                        blob = pickle.dumps((type(d), (), st), proto)
                        cls_, args_, state_ = pickle.loads(blob)
                        ctx.count("undeclared_state_loads")
                        try:
                            o = cls_(*args_)
                            o.__setstate__(state_)
                            ctx.violation("fixeddict:undeclared-accepted:setstate",
                                          "__setstate__ of %s accepted stored state naming undeclared key %r" % (case["type"], bad_key))
                        except FixedDictKeyError:
                            pass
                        # the same through the pickle machinery itself: a polluted instance (key forced in underneath)
                        p2 = T(d)
                        dict.__setitem__(p2, bad_key, 1)
                        try:
                            q = pickle.loads(pickle.dumps(p2, proto))
                            if isinstance(q, T) and bad_key in dict.keys(q):
                                ctx.violation("fixeddict:undeclared-accepted:unpickle",
                                              "unpickling %s state naming undeclared key %r gave an instance holding it" % (case["type"], bad_key))
                        except FixedDictKeyError:
                            pass
                nontrivial = True
                ctx.count("copies_checked")
                if type(c) is not T:
                    ctx.violation("fixeddict:%s-type" % op, "%s of %s gave type %r" % (op, case["type"], type(c)))
                elif dict(c) != dict(d) or c != d:
                    ctx.violation("fixeddict:%s-content" % op, "%s of %s gave %r, expected %r" % (op, case["type"], dict(c), dict(d)))
                elif c is d:
                    ctx.violation("fixeddict:%s-identity" % op, "%s returned the same object" % op)
                else:
                    # the copy must be independent at the top level and still be guarded
                    try:
                        c["certainly_undeclared_key"] = 1
                        ctx.violation("fixeddict:%s-unguarded" % op, "%s result accepts undeclared keys" % op)
                    except FixedDictKeyError:
                        pass
                    if rng.random() < 0.5:
                        d = c
                continue
            elif op == "del":
                has_u = False
                if model:
                    k = rng.choice(sorted(model, key=repr))
                    del new_model[k]
                    del d[k]
            elif op == "pop":
                has_u = False
                if model:
                    k = rng.choice(sorted(model, key=repr))
                    new_model.pop(k)
                    d.pop(k)
            elif op == "clear":
                has_u = False
                new_model.clear()
                d.clear()
        except FixedDictKeyError as e:
            raised = e
        except Exception as e:  # any other exception type
            raised = e
            if has_u:
                ctx.violation(
                    "fixeddict:wrong-error:" + op,
                    "%s with undeclared key raised %s instead of FixedDictKeyError" % (op, type(e).__name__),
                    detail={"history": kinds, "error": repr(e)},
                )
            else:
                ctx.violation("fixeddict:unexpected-error:" + op, "%s with declared keys raised %r" % (op, e), detail={"history": kinds})
        if has_u:
            nontrivial = True
            ctx.count("undeclared_operand_ops")
            if raised is None:
                ctx.violation(
                    "fixeddict:undeclared-accepted:" + op,
                    "%s on %s given undeclared key did not raise" % (op, case["type"]),
                    detail={"history": kinds, "pairs": repr(pairs)},
                )
            if op.startswith("construct"):
                # failed construction leaves the previous object in place
                check_state(label)
            else:
                check_state(label, allow=(dict(model), [(k, v) for k, v in pairs if k in dset]))
        else:
            if raised is not None and not isinstance(raised, FixedDictKeyError):
                continue
            if isinstance(raised, FixedDictKeyError):
                ctx.violation("fixeddict:declared-rejected:" + op, "%s with declared keys only raised FixedDictKeyError" % op,
                              detail={"history": kinds, "pairs": repr(pairs)})
                continue
            model = new_model
            check_state(label)
        ctx.count("ops")
    ctx.seen(jsonx.key_hash([case["type"], kinds]), nontrivial=nontrivial)
    ctx.note("types", case["type"])
    if ctx.rng.random() < 0.001:
        ctx.sample({"type": case["type"], "history": kinds})


def floor(agg, tier):
    miss = []
    c = agg["counters"]
    if c.get("undeclared_operand_ops", 0) < 1000:
        miss.append("fewer than 1000 operations with undeclared keys observed")
    if c.get("copies_checked", 0) < 500:
        miss.append("fewer than 500 copy/pickle results observed")
    if len(agg["sets"].get("types", ())) < 20:
        miss.append("fewer than 20 fixeddict types exercised")
    for op in ("ior_map", "ior_pairs", "update_kw", "setdefault", "pickle", "construct_other"):
        if c.get("op:" + op, 0) == 0:
            miss.append("operation %s never exercised" % op)
    return miss
