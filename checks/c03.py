"""C03 — encoder output is always a conformant stream in the requested format.

Monitor: the real encoder, autofill/serialiser and validator are run on
generated configurations; the decoder's picture callback is observed and the
coded picture numbers are read independently with R-framing.
"""
from vlib import jsonx, pipeline, vc2util
from vlib.gen import configs

PROPERTY = "C03"
LEVEL = "exploration"
TECHNIQUE = "runtime monitoring: end-to-end encoder+autofill+validator executions on generated configurations, callback/verdict monitor with independent framing reader"
RULE = (
    "case = one codec configuration recipe (profile, lossless/lossy, wavelet pair, depths, slices, fragment size, "
    "subsampling, coding mode, base format, custom size, frame rate/aspect/signal range/colour spec, quantisation matrix) "
    "+ 1-6 pictures of a content class with given or omitted picture numbers; distinct = distinct recipe hash; "
    "configurations the encoder rejects with an UnsatisfiableCodecFeaturesError are evaluations but trivial"
)
ASSUMPTIONS = [
    "configurations are kept in the encoder's documented domain: regular frame sizes, depth <= 16 bits and custom matrix entries <= 8 for lossy modes (DESIGN section 7 item 5), level unconstrained",
    "an exception other than UnsatisfiableCodecFeaturesError escaping make_sequence on an in-domain configuration is reported as a violation (the configuration was not rejected, yet no conformant stream resulted)",
]
CASE_TIMEOUT_S = 120
STEP_BUDGET = 400000000

N_QUICK = 3200
N_THOROUGH = 160000


def plan(tier, seed):
    n = N_QUICK if tier == "quick" else N_THOROUGH
    nsh = 16 if tier == "quick" else 64
    return [{"shard": i, "n": n // nsh} for i in range(nsh)]


BOUNDARY_LENGTHS = sorted({255 * k + d for k in (1, 2, 3, 4) for d in (-1, 0, 1)} | {256 * k + d for k in (1, 2, 3, 4) for d in (-1, 0, 1)})


def cases(spec, ctx):
    for i in range(spec["n"]):
        if i % 40 == 7:
            # a slice component whose coded length sits on a slice_size_scaler boundary (255k / 256k bytes, +-1)
            ctx.count("slice_length_boundary_cases")
            yield {"recipe": configs.codelen_recipe(ctx.rng, ctx.rng.choice(BOUNDARY_LENGTHS))}
        if i % 100 == 31:
            # more than a thousand slices, with a byte budget coprime to the slice count (the low-delay slice size
            # ratio then has a four-digit denominator and every remainder occurs)
            import math

            r = configs.random_recipe(ctx.rng, {"lossless": "no", "fragments": "any", "max_dwt": 1})
            for k in ("cw", "ch", "lo", "to"):
                r.pop(k, None)
            r["sx"], r["sy"] = ctx.rng.choice([(40, 26), (33, 32), (64, 17), (48, 22), (26, 41)])
            r["d"], r["dh"], r["wih"] = 1, 0, r["wi"]
            r["qm"] = None if configs.has_default_matrix(r["wi"], r["wih"], 1, 0) else configs.random_matrix(ctx.rng, 1, 0)
            r["cdf"], r["pcm"], r["ss"] = 0, 0, 0
            r["w"], r["h"] = 2 * r["sx"], 2 * r["sy"]
            n = r["sx"] * r["sy"]
            pb = ctx.rng.randrange(3 * n, 5 * n) if r["profile"] == 0 else ctx.rng.randrange(6 * n, 9 * n)
            while math.gcd(pb, n) != 1:
                pb += 1
            r["pb"] = pb
            if r["fsc"]:
                r["fsc"] = ctx.rng.choice([1, 7, n])
            r["pics"]["n"] = 1
            r["pics"]["class"] = "noise"
            ctx.count("many_slice_cases")
            yield {"recipe": r}
        space = {}
        k = ctx.rng.random()
        if ctx.rng.random() < 0.3:
            space["allow_missing_matrix"] = True
        if k < 0.15:
            space.update({"lossy_bytes": "min", "lossless": "no"})
        elif k < 0.25:
            space.update({"lossy_bytes": "huge", "lossless": "no", "maxw": 8, "maxh": 8})
        elif k < 0.3:
            space["depth0"] = True
        r = configs.random_recipe(ctx.rng, space)
        yield {"recipe": r}
        if ctx.rng.random() < 0.25 and not r.get("expect_rejection"):
            # siblings run right after their original in the same process (state kept under too coarse a key shows here)
            for _ in range(ctx.rng.choice([1, 2])):
                yield {"recipe": configs.sibling(ctx.rng, r)}


def expected_numbers(recipe):
    spec = recipe["pics"]
    start = spec["nums"] if spec["nums"] is not None else 0
    return [(start + i) & 0xFFFFFFFF for i in range(spec["n"])]


def judge(o, recipe, ctx):
    """Apply the C03 oracle to a pipeline observation.  Returns True if judged."""
    if o.stage == "encoder-rejected":
        ctx.count("encoder_rejected:" + o.error_class)
        return False
    if o.stage == "encoder-crash":
        ctx.violation("encoder-crash:%s@%s" % (o.error_class, (o.site or "?").rsplit(":", 1)[0]),
                      "make_sequence raised %s on an in-domain configuration" % o.error, detail=o.tb)
        return True
    if o.stage == "serialise-failed":
        ctx.violation("serialise-failed:%s@%s" % (o.error_class, (o.site or "?").rsplit(":", 1)[0]),
                      "autofill_and_serialise_stream raised %s on encoder output" % o.error, detail=o.tb)
        return True
    v = o.verdict
    if v.kind == "ce":
        ctx.violation("validator-rejects-encoder-output:" + v.exc_class,
                      "validator raised %s at %s on encoder output" % (v.exc_class, v.site),
                      detail=_explain(v.exc))
        return True
    if v.kind != "ok":
        ctx.violation("validator-crash:%s@%s" % (v.exc_class, (v.site or "?").rsplit(":", 1)[0]),
                      "validator crashed on encoder output", detail=v.tb)
        return True
    ctx.count("accepted")
    pics = o.pics
    ctx.count("callbacks", len(v.pictures))
    if len(v.pictures) != len(pics):
        ctx.violation("picture-count", "decoded %d pictures for %d input pictures" % (len(v.pictures), len(pics)))
        return True
    vp = o.cf["video_parameters"]
    pcm = o.cf["picture_coding_mode"]
    want_nums = expected_numbers(recipe)
    for i, (pic, vp2, pcm2) in enumerate(v.pictures):
        if dict(vp2) != dict(vp):
            diff = sorted(k for k in set(vp) | set(vp2) if vp.get(k) != vp2.get(k))
            ctx.violation("video-parameters-differ:" + ",".join(diff), "decoded video parameters differ in %s" % diff,
                          detail={"configured": repr(dict(vp)), "decoded": repr(dict(vp2))})
            return True
        if pcm2 != pcm:
            ctx.violation("picture-coding-mode-differs", "decoded %r configured %r" % (pcm2, pcm))
            return True
        if pic.get("pic_num") != want_nums[i]:
            ctx.violation("picture-number", "picture %d decoded with number %r, expected %r" % (i, pic.get("pic_num"), want_nums[i]))
            return True
    # independent reading of the coded numbers
    try:
        units = vc2util.framing(o.data)
    except ValueError as e:
        ctx.violation("framing-broken", "independent parse_info walk failed: %s" % e)
        return True
    coded = []
    for u in units:
        if u.parse_code in vc2util.PICTURE_CODES:
            coded.append(u.picture_number)
        elif u.parse_code in vc2util.FRAGMENT_CODES and u.frag_slice_count == 0:
            coded.append(u.picture_number)
    if coded != want_nums:
        ctx.violation("coded-picture-number", "coded numbers %r, expected %r" % (coded, want_nums))
        return True
    dd = configs.recipe_dims(recipe, vp)
    for i, (pic, _, _) in enumerate(v.pictures):
        for c, (w, h, depth) in dd.items():
            comp = pic[c]
            if len(comp) != h or any(len(row) != w for row in comp):
                ctx.violation("decoded-dimensions", "component %s of picture %d is not %dx%d" % (c, i, w, h))
                return True
    return True


def _explain(e):
    try:
        return e.explain()
    except Exception as e2:
        return "explain() failed: %r" % (e2,)


def run_case(case, ctx):
    recipe = case["recipe"]
    o = pipeline.run(recipe)
    judged = judge(o, recipe, ctx)
    ctx.seen(jsonx.key_hash(recipe), nontrivial=judged)
    if judged:
        ctx.count("stratum:" + configs.stratum(recipe))
        if recipe.get("sibling_of"):
            ctx.count("siblings_judged")
            ctx.note("sibling_attributes", recipe["sibling_of"])
        ctx.note("wavelet_pairs", "%d/%d" % (recipe["wi"], recipe["wih"]))
        ctx.note("bases", recipe["base"])
        if ctx.rng.random() < 0.002:
            ctx.sample(recipe)


def floor(agg, tier):
    c = agg["counters"]
    miss = []
    if c.get("encoder_rejected:MissingQuantizationMatrixError", 0) < (20 if tier == "quick" else 800):
        miss.append("too few configurations without any quantisation matrix (which the encoder must refuse) were tried")
    need = 1500 if tier == "quick" else 60000
    if c.get("accepted", 0) < need:
        miss.append("fewer than %d accepted encodings observed (%d)" % (need, c.get("accepted", 0)))
    if c.get("callbacks", 0) < need:
        miss.append("too few picture callbacks observed")
    strata = [k for k in c if k.startswith("stratum:")]
    if len(strata) < 40:
        miss.append("only %d configuration strata exercised" % len(strata))
    for must in ("LD/lossy/frag", "HQ/lossless/frag", "HQ/lossy/pic", "LD/lossy/pic"):
        if not any(must in k for k in strata):
            miss.append("stratum %s never exercised" % must)
    if len(agg["sets"].get("wavelet_pairs", ())) < 30:
        miss.append("fewer than 30 wavelet pairs")
    return miss
