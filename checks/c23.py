"""C23 — raw picture files round-trip and picture comparisons are exact.

Monitor shape: history + model.  Pictures are written with the real
vc2_conformance.file_format, the files on disk are parsed by the independent
R-raw model (vlib/ref/rawfile.py), read back with the real reader, and files
fabricated by R-raw are read with the real reader.  Pairs of files with a known
difference (none / 1-3 single-bit sample flips / padding bits only / one
metadata field / coding mode / picture number) are given to the real
compare_pictures() and to the command line main() (file and directory
arguments); return codes and report text are judged against the true
difference computed by the model.
"""
import contextlib
import io
import os
import random
import re
import shutil
import tempfile
import warnings

# one BLAS/OpenMP thread per worker: 16 workers run side by side and the arrays are tiny
# (must be set before numpy is first imported, which happens after this module is loaded)
for _v in ("OPENBLAS_NUM_THREADS", "OMP_NUM_THREADS", "MKL_NUM_THREADS"):
    os.environ.setdefault(_v, "1")

from vlib import jsonx
from vlib.gen import formats as genf
from vlib.ref import rawfile

PROPERTY = "C23"
LEVEL = "exploration"
TECHNIQUE = (
    "runtime monitoring: real file_format write/read and vc2-picture-compare (function and CLI main) on generated "
    "pictures and picture pairs; files on disk parsed/fabricated by an independent little-endian planar model, "
    "return codes and reported pixel counts judged against the true differences"
)
RULE = (
    "three case kinds. roundtrip: (format with 1-16 pixel planes incl. irregular sizes, any subsampling/scan/coding "
    "mode, luma and chroma depths 1-64, samples all-0/all-max/extremes/random, picture number from {0,1,2^31-1,2^31,"
    "2^32-2,2^32-1,random}) written by file_format.write, parsed by R-raw, read by file_format.read; and the same "
    "picture written by R-raw and read by file_format.read. compare: a pair A,B with exactly one kind of difference "
    "(identical | 1-3 samples flipped in one bit incl. the top bit | padding bits above the depth only | padding + "
    "samples | one video parameter | picture coding mode | picture number | two kinds at once) given to "
    "compare_pictures in both orders and to main([a, b]). dirs: two directories of 2-4 numbered pairs given to "
    "main([dir_a, dir_b]). distinct = distinct (kind, format, picture content, difference); identical-pair compare "
    "cases on an all-zero picture are trivial"
)
ASSUMPTIONS = [
    "in-range picture = every sample in 0..2^depth-1 of its component and every plane exactly the coded size; depth = "
    "intlog2(excursion+1) as documented in the file-format guide, excursions 1..2^64-1 (depths 1-64)",
    "bytes per sample = smallest power of two number of bytes holding the depth; little-endian; padding bits zero "
    "(docs/source/user_guide/file_format.rst); picture_number a JSON string, the parameters JSON ints / one bool",
    "formats for the file round trip need not be regular (the file format guide defines the plane sizes with floor "
    "divisions) but every plane holds at least one sample",
    "files that differ only in padding bits above the depth are 'identical' (exit 0) with the warning line, as the "
    "comparison tool documents and its tests pin",
    "exit codes 1/2/3/4 (video parameters / coding mode / picture number / samples) are demanded for pairs with a "
    "single kind of difference, as pinned by the tool's own tests; for pairs with two kinds only a non-zero code "
    "belonging to one of the two kinds is demanded (the property itself only states identical <=> exit 0)",
    "PSNR figures are not judged (the property speaks of pixel counts); the percentage is judged as the count "
    "formatted to one decimal",
    "directory comparison: exit 0 iff every pair is identical, otherwise the code of one of the differing pairs; "
    "summary counts must be exact; file names in the two directories differ in stem and leading zeros as the user "
    "guide allows",
    "missing-metadata fallbacks, --difference-mask and the error exits 100-108 are outside the property",
]
CASE_TIMEOUT_S = 60
# generous hard limits: the sandbox is shared and wall-clock must never decide anything
SHARD_TIMEOUT_S = {"quick": 3600, "thorough": 8 * 3600}

_TIER = {
    # shards, roundtrip cases / shard, compare cases / shard, dir cases / shard
    "quick": (16, 1400, 1800, 240),
    "thorough": (64, 15000, 19000, 2500),
}

PIC_NUM_CLASSES = ("0", "1", "2^31-1", "2^31", "2^32-2", "2^32-1", "rand")
CONTENT_CLASSES = ("zeros", "max", "extremes", "random")
COMPARE_KINDS = ("identical", "samples", "padding", "padding+samples", "vp", "pcm", "pic_num", "multi")
# weights for drawing the kind of a compare case
_KIND_DRAW = ("identical", "samples", "samples", "samples", "padding", "padding+samples", "vp", "vp", "pcm", "pic_num", "multi")

VP_FIELDS_SAME_LAYOUT = (
    "source_sampling", "top_field_first", "frame_rate_numer", "frame_rate_denom", "pixel_aspect_ratio_numer",
    "pixel_aspect_ratio_denom", "clean_width", "clean_height", "left_offset", "top_offset", "luma_offset",
    "color_diff_offset", "color_primaries_index", "color_matrix_index", "transfer_function_index",
    "luma_excursion_same_depth", "color_diff_excursion_same_depth",
)
VP_FIELDS_OTHER_LAYOUT = ("frame_width", "frame_height", "color_diff_format_index", "luma_excursion", "color_diff_excursion")


def plan(tier, seed):
    nsh, nr, nc, nd = _TIER[tier]
    return [{"shard": s, "nshards": nsh, "roundtrip": nr, "compare": nc, "dirs": nd} for s in range(nsh)]


def cases(spec, ctx):
    sh = spec["shard"]
    for i in range(spec["roundtrip"]):
        yield {"kind": "roundtrip", "seed": "%s/C23/rt/%d/%d" % (ctx.seed, sh, i)}
    for i in range(spec["compare"]):
        yield {"kind": "compare", "seed": "%s/C23/cmp/%d/%d" % (ctx.seed, sh, i)}
    for i in range(spec["dirs"]):
        yield {"kind": "dirs", "seed": "%s/C23/dir/%d/%d" % (ctx.seed, sh, i)}


def setup(ctx):
    warnings.simplefilter("ignore")
    import numpy as np

    np.seterr(all="ignore")
    # every case removes its own directory; only a SIGKILLed worker (hard shard
    # timeout) can leave one behind -- sweep such leftovers (> 2 h old) here
    import time

    base = tempfile.gettempdir()
    try:
        for name in os.listdir(base):
            p = os.path.join(base, name)
            if name.startswith("vc23-") and time.time() - os.path.getmtime(p) > 7200:
                shutil.rmtree(p, ignore_errors=True)
    except OSError:
        pass


# ---------------------------------------------------------------------------
# generation helpers (pure functions of the rng)
# ---------------------------------------------------------------------------


def _format(rng):
    fmt = genf.regular_format(
        rng,
        max_depth=64,
        size_classes=("min", "small"),
        range_classes=("custom", "custom", "custom", "custom", "preset"),
        regular=rng.random() < 0.7,
    )
    if rng.random() < 0.0025:
        # a full-size picture once in a while (components of more than 65 536 samples, heights that are not a multiple
        # of any convenient band size): whatever the writer does in chunks shows only here
        w, h = rng.choice([(352, 288), (300, 300), (720, 100), (260, 256), (1024, 68)])
        vp = fmt["vp"]
        vp["frame_width"], vp["frame_height"] = w, h
        vp["clean_width"], vp["clean_height"], vp["left_offset"], vp["top_offset"] = w, h, 0, 0
        fmt["strata"]["size"] = "large"
    return fmt["vp"], fmt["pcm"], fmt["strata"]


def _pic_num(rng, cls=None):
    cls = cls or rng.choice(PIC_NUM_CLASSES)
    return {
        "0": 0, "1": 1, "2^31-1": 2 ** 31 - 1, "2^31": 2 ** 31, "2^32-2": 2 ** 32 - 2, "2^32-1": 2 ** 32 - 1,
        "rand": rng.randrange(2 ** 32),
    }[cls], cls


def _picture(rng, vpd, pcm, content=None):
    content = content or rng.choice(CONTENT_CLASSES)
    pic = {}
    for c, w, h, d, _b in rawfile.layout(vpd, pcm):
        top = (1 << d) - 1
        if content == "zeros":
            rows = [[0] * w for _ in range(h)]
        elif content == "max":
            rows = [[top] * w for _ in range(h)]
        elif content == "extremes":
            pool = [0, top, 1 & top, top - 1 if top else 0, 1 << (d - 1), (1 << (d - 1)) - 1]
            rows = [[rng.choice(pool) for _ in range(w)] for _ in range(h)]
        else:
            rows = [[rng.randrange(top + 1) for _ in range(w)] for _ in range(h)]
        pic[c] = rows
    return pic, content


def _copy_picture(pic):
    out = {c: [list(r) for r in pic[c]] for c in rawfile.COMPONENTS}
    out["pic_num"] = pic["pic_num"]
    return out


def _fit_picture(rng, pic, vpd, pcm):
    """`pic` cropped/padded/masked into the layout of (vpd, pcm): used when a metadata change alters the layout."""
    out = {"pic_num": pic["pic_num"]}
    for c, w, h, d, _b in rawfile.layout(vpd, pcm):
        src = pic[c]
        rows = []
        for y in range(h):
            row = []
            for x in range(w):
                v = src[y][x] if y < len(src) and x < len(src[y]) else rng.randrange(1 << d)
                row.append(v & ((1 << d) - 1))
            rows.append(row)
        out[c] = rows
    return out


def _flip_samples(rng, pic, vpd, pcm, ctx):
    """Flip one bit in each of 1-3 distinct sample positions. Returns description list."""
    lay = rawfile.layout(vpd, pcm)
    positions = [(c, y, x, d) for c, w, h, d, _b in lay for y in range(h) for x in range(w)]
    k = min(rng.choice((1, 1, 2, 3)), len(positions))
    chosen = rng.sample(positions, k)
    desc = []
    for c, y, x, d in chosen:
        which = rng.choice(("top", "bottom", "any"))
        bit = d - 1 if which == "top" else 0 if which == "bottom" else rng.randrange(d)
        pic[c][y][x] ^= 1 << bit
        if bit == d - 1:
            ctx.count("top_bit_flips")
        ctx.count("bit_flips")
        desc.append([c, y, x, bit])
    return desc


def _padding(rng, vpd, pcm):
    """A padding-bit pattern touching 1-3 samples, or None when no component has padding bits."""
    lay = rawfile.layout(vpd, pcm)
    positions = [(c, y, x, 8 * b - d) for c, w, h, d, b in lay if 8 * b > d for y in range(h) for x in range(w)]
    if not positions:
        return None
    pad = {c: [[0] * w for _ in range(h)] for c, w, h, _d, _b in lay}
    for c, y, x, nbits in rng.sample(positions, min(rng.choice((1, 2, 3)), len(positions))):
        pad[c][y][x] = rng.choice((1, 1 << (nbits - 1), (1 << nbits) - 1, rng.randrange(1, 1 << nbits)))
    return pad


def _change_vp(rng, vpd, pcm):
    """-> (new vp dict, field name changed, layout_changed) with exactly one entry changed."""
    new = dict(vpd)
    for _ in range(20):
        field = rng.choice(VP_FIELDS_SAME_LAYOUT + VP_FIELDS_OTHER_LAYOUT + VP_FIELDS_OTHER_LAYOUT)
        hs, vs = rawfile.SUBSAMPLING[vpd["color_diff_format_index"]]
        if pcm == 1:
            vs *= 2
        if field in ("luma_excursion_same_depth", "color_diff_excursion_same_depth"):
            name = field[: -len("_same_depth")]
            d = rawfile.depth_of_excursion(vpd[name])
            lo, hi = (1 << (d - 1)) if d > 1 else 1, (1 << d) - 1
            if lo == hi:
                continue
            v = rng.choice([x for x in (lo, hi, rng.randint(lo, hi)) if x != vpd[name]] or [None])
            if v is None:
                continue
            new[name] = v
            return new, name, False
        if field in ("luma_excursion", "color_diff_excursion"):
            d = rawfile.depth_of_excursion(vpd[field])
            nd = rng.choice([x for x in (d - 1, d + 1, rng.randint(1, 64)) if 1 <= x <= 64 and x != d])
            new[field] = genf.excursion_for_depth(rng, nd, rng.choice(genf.EXCURSION_CLASSES))
            return new, field, True
        if field == "frame_width":
            new[field] = vpd[field] + rng.choice((1, hs, 2 * hs)) if rng.random() < 0.6 or vpd[field] - hs < hs else vpd[field] - hs
            return new, field, rawfile.plane_sizes(new, pcm) != rawfile.plane_sizes(vpd, pcm)
        if field == "frame_height":
            new[field] = vpd[field] + rng.choice((1, vs, 2 * vs)) if rng.random() < 0.6 or vpd[field] - vs < vs else vpd[field] - vs
            return new, field, rawfile.plane_sizes(new, pcm) != rawfile.plane_sizes(vpd, pcm)
        if field == "color_diff_format_index":
            cand = [f for f in (0, 1, 2) if f != vpd[field]]
            rng.shuffle(cand)
            for f in cand:
                new[field] = f
                if all(w >= 1 and h >= 1 for w, h in rawfile.plane_sizes(new, pcm).values()):
                    return new, field, rawfile.plane_sizes(new, pcm) != rawfile.plane_sizes(vpd, pcm)
            new[field] = vpd[field]
            continue
        if field == "top_field_first":
            new[field] = not vpd[field]
        elif field == "source_sampling":
            new[field] = 1 - vpd[field]
        elif field == "color_primaries_index":
            new[field] = rng.choice([x for x in genf.PRIMARIES if x != vpd[field]])
        elif field == "color_matrix_index":
            new[field] = rng.choice([x for x in genf.MATRICES if x != vpd[field]])
        elif field == "transfer_function_index":
            new[field] = rng.choice([x for x in genf.TRANSFER_FUNCTIONS if x != vpd[field]])
        else:
            new[field] = vpd[field] + rng.choice((1, 1, 2, 1 << 31, 1 << 32)) if rng.random() < 0.7 or vpd[field] == 0 else vpd[field] - 1
        return new, field, False
    new["frame_rate_numer"] = vpd["frame_rate_numer"] + 1
    return new, "frame_rate_numer", False


def _write(writer, pic, vpd, pcm, raw_path, ctx, padding=None):
    """Write a file pair with the real writer ('real') or the model ('ref')."""
    json_path = raw_path[:-4] + ".json"
    if writer == "ref" or padding is not None:
        rawfile.write_files(pic, vpd, pcm, raw_path, json_path, padding)
        ctx.count("files_written_by_model")
    else:
        from vc2_conformance import file_format

        file_format.write(pic, genf.to_video_parameters(vpd), genf.to_picture_coding_mode(pcm), raw_path)
        ctx.count("files_written_by_real_code")


def _fmt_desc(vpd, pcm):
    return "%dx%d fmt=%d pcm=%d luma_exc=%d chroma_exc=%d" % (
        vpd["frame_width"], vpd["frame_height"], vpd["color_diff_format_index"], pcm, vpd["luma_excursion"],
        vpd["color_diff_excursion"])


# ---------------------------------------------------------------------------
# kind 1: file round trip
# ---------------------------------------------------------------------------


def _run_roundtrip(case, ctx, tmp):
    from vc2_conformance import file_format
    from vc2_conformance.dimensions_and_depths import compute_dimensions_and_depths

    rng = random.Random(case["seed"])
    vpd, pcm, strata = _format(rng)
    pic, content = _picture(rng, vpd, pcm)
    pic["pic_num"], pncls = _pic_num(rng)
    lay = rawfile.layout(vpd, pcm)
    desc = _fmt_desc(vpd, pcm)
    ld, cd = lay[0][3], lay[1][3]
    ctx.note("rt_luma_depths", ld)
    ctx.note("rt_chroma_depths", cd)
    ctx.note("rt_bytes_per_sample", lay[0][4])
    ctx.note("rt_bytes_per_sample", lay[1][4])
    ctx.count("rt_content:" + content)
    ctx.count("rt_pic_num:" + pncls)
    ctx.count("rt_size:" + strata["size"])
    ctx.count("rt_mode:" + strata["mode"])
    ctx.count("rt_cases")
    key = jsonx.key_hash(["rt", vpd, pcm, pic])

    vp = genf.to_video_parameters(vpd)
    pcm_e = genf.to_picture_coding_mode(pcm)

    def v(sig, what, detail=None):
        ctx.violation("c23:roundtrip:" + sig, "%s [%s pic_num=%d content=%s]" % (what, desc, pic["pic_num"], content), detail=detail)

    # (f) bytes per sample as computed by the code vs the documented rule
    try:
        dd = compute_dimensions_and_depths(vp, pcm_e)
        got = [(c, dd[c].width, dd[c].height, dd[c].depth_bits, dd[c].bytes_per_sample) for c in rawfile.COMPONENTS]
        if got != [tuple(x) for x in lay]:
            v("dimensions-depths-bytes-per-sample", "compute_dimensions_and_depths gives %r, documented rule gives %r" % (got, lay))
    except Exception as e:
        v("dimensions-exception:" + type(e).__name__, repr(e))

    # (a) real writer; name given alternately as .raw / .json
    stem = os.path.join(tmp, "picture_%d" % rng.randrange(1000))
    given = stem + rng.choice((".raw", ".json"))
    before = _copy_picture(pic)
    try:
        file_format.write(pic, vp, pcm_e, given)
        ctx.count("files_written_by_real_code")
    except Exception as e:
        v("write-exception:" + type(e).__name__, "file_format.write raised %r" % (e,))
        ctx.seen(key)
        return
    if pic != before:
        v("write-mutated-picture", "file_format.write changed the picture it was given")
    raw_path, json_path = stem + ".raw", stem + ".json"
    if not (os.path.isfile(raw_path) and os.path.isfile(json_path)):
        v("files-missing", "write(%s) did not create both %s.raw and .json" % (os.path.basename(given), os.path.basename(stem)))
        ctx.seen(key)
        return

    # (b, c) the files themselves, parsed independently
    with open(raw_path, "rb") as f:
        raw = f.read()
    with open(json_path, "rb") as f:
        meta = f.read()
    ctx.count("files_parsed_by_model")
    ctx.count("raw_bytes_parsed", len(raw))
    try:
        mvp, mpcm, mpn = rawfile.decode_metadata(meta)
    except Exception as e:
        v("json-format", "metadata file is not as documented: %s" % (e,), detail={"json": meta[:600].decode("utf-8", "replace")})
        mvp = None
    if mvp is not None:
        if mvp != vpd:
            diff = sorted(k for k in set(mvp) | set(vpd) if mvp.get(k) != vpd.get(k))
            v("json-video-parameters", "metadata file video parameters differ in %r: wrote %r, file has %r"
              % (diff, [vpd.get(k) for k in diff], [mvp.get(k) for k in diff]))
        if mpcm != pcm:
            v("json-picture-coding-mode", "metadata file has picture_coding_mode %r, wrote %r" % (mpcm, pcm))
        if mpn != pic["pic_num"]:
            v("json-picture-number", "metadata file has picture_number %r, wrote %r" % (mpn, pic["pic_num"]))
    want_size = rawfile.raw_size(vpd, pcm)
    if len(raw) != want_size:
        v("raw-size", "raw file holds %d bytes, documented format needs %d" % (len(raw), want_size))
    else:
        rpic, _pad, nonzero = rawfile.decode_picture(raw, vpd, pcm)
        for c, _w, _h, d, b in lay:
            if rpic[c] != pic[c]:
                v("raw-content:%d-byte-samples" % b, "%s plane on disk differs from the picture written (depth %d, %d bytes/sample)" % (c, d, b),
                  detail={"written_first_row": pic[c][0][:4], "on_disk_first_row": rpic[c][0][:4]})
        if nonzero:
            v("raw-padding-nonzero", "%d samples on disk have non-zero bits above their depth" % nonzero)

    # (d) real reader on the real writer's files; name given alternately
    try:
        rp, rvp, rpcm = file_format.read(stem + rng.choice((".raw", ".json")))
        ctx.count("files_read_by_real_code")
        _judge_read(v, "read-back", rp, rvp, rpcm, pic, vpd, pcm, lay, ctx)
    except Exception as e:
        v("read-exception:" + type(e).__name__, "file_format.read of the files just written raised %r" % (e,))

    # (e) real reader on files fabricated by the model (catches symmetric write/read errors)
    stem2 = os.path.join(tmp, "model_%d" % rng.randrange(1000))
    rawfile.write_files(pic, vpd, pcm, stem2 + ".raw", stem2 + ".json")
    ctx.count("files_written_by_model")
    try:
        rp, rvp, rpcm = file_format.read(stem2 + ".raw")
        ctx.count("files_read_by_real_code")
        _judge_read(v, "read-of-model-file", rp, rvp, rpcm, pic, vpd, pcm, lay, ctx)
    except Exception as e:
        v("read-of-model-file-exception:" + type(e).__name__, "file_format.read of a documented-format file raised %r" % (e,))
    ctx.seen(key)
    if ctx.rng.random() < 0.003:
        ctx.sample({"kind": "roundtrip", "format": desc, "pic_num": pic["pic_num"], "content": content, "raw_bytes": len(raw)})


def _judge_read(v, label, rp, rvp, rpcm, pic, vpd, pcm, lay, ctx):
    for c, _w, _h, d, b in lay:
        if rp.get(c) != pic[c]:
            got = rp.get(c)
            v("%s:samples:%d-byte-samples" % (label, b), "%s plane read back differs (depth %d, %d bytes/sample)" % (c, d, b),
              detail={"expected_first_row": pic[c][0][:4], "got_first_row": got[0][:4] if got else got})
    if rp.get("pic_num") != pic["pic_num"]:
        v(label + ":pic-num", "picture number read back is %r, expected %r" % (rp.get("pic_num"), pic["pic_num"]))
    plain = {k: (bool(x) if k == "top_field_first" else int(x)) for k, x in dict(rvp).items()}
    if plain != vpd:
        diff = sorted(k for k in set(plain) | set(vpd) if plain.get(k) != vpd.get(k))
        v(label + ":video-parameters", "video parameters read back differ in %r" % (diff,))
    if int(rpcm) != pcm:
        v(label + ":picture-coding-mode", "picture coding mode read back is %r, expected %r" % (rpcm, pcm))
    ctx.count("read_results_judged")


# ---------------------------------------------------------------------------
# kind 2/3: comparison tool
# ---------------------------------------------------------------------------


def _make_pair(rng, ctx, kind=None):
    """-> dict describing a pair (A, B) and its true difference."""
    vpd, pcm, strata = _format(rng)
    pa, content = _picture(rng, vpd, pcm)
    pa["pic_num"], _ = _pic_num(rng)
    kind = kind or rng.choice(_KIND_DRAW)
    pb = _copy_picture(pa)
    vpb, pcmb = dict(vpd), pcm
    padding = None
    cats = set()  # categories of true difference: "vp", "pcm", "pic_num", "samples"
    info = {}
    if kind in ("padding", "padding+samples"):
        padding = _padding(rng, vpd, pcm)
        if padding is None:
            kind = "identical" if kind == "padding" else "samples"
    if kind in ("samples", "padding+samples"):
        info["flips"] = _flip_samples(rng, pb, vpd, pcm, ctx)
        cats.add("samples")
    elif kind == "vp":
        vpb, field, relayout = _change_vp(rng, vpd, pcm)
        info["field"] = field
        if relayout or rawfile.layout(vpb, pcmb) != rawfile.layout(vpd, pcm):
            pb = _fit_picture(rng, pa, vpb, pcmb)
            info["relayout"] = True
        cats.add("vp")
    elif kind == "pcm":
        pcmb = 1 - pcm
        if all(h >= 1 for _w, h in rawfile.plane_sizes(vpd, pcmb).values()):
            pb = _fit_picture(rng, pa, vpb, pcmb)
            cats.add("pcm")
        else:  # frames -> fields would leave an empty plane
            pcmb = pcm
            kind = "identical"
    elif kind == "pic_num":
        other = [pa["pic_num"] ^ (1 << 31), (pa["pic_num"] + 1) % 2 ** 32, pa["pic_num"] ^ 1, rng.randrange(2 ** 32)]
        pb["pic_num"] = rng.choice([x for x in other if x != pa["pic_num"]])
        cats.add("pic_num")
    elif kind == "multi":
        which = rng.sample(("vp", "pcm", "pic_num", "samples"), 2)
        if "pcm" in which and not all(h >= 1 for _w, h in rawfile.plane_sizes(vpd, 1 - pcm).values()):
            which = ["pic_num", "samples"]
        if "vp" in which:
            vpb, field, _ = _change_vp(rng, vpd, pcm)
            info["field"] = field
        if "pcm" in which:
            pcmb = 1 - pcm
            if not all(w >= 1 and h >= 1 for w, h in rawfile.plane_sizes(vpb, pcmb).values()):
                vpb = dict(vpd)
                which = [w for w in which if w != "vp"]
        if "pic_num" in which:
            pb["pic_num"] = (pa["pic_num"] + rng.choice((1, 1 << 31))) % 2 ** 32
        if rawfile.layout(vpb, pcmb) != rawfile.layout(vpd, pcm):
            pb = _fit_picture(rng, pb, vpb, pcmb)
        if "samples" in which:
            info["flips"] = _flip_samples(rng, pb, vpb, pcmb, ctx)
        cats.update(which)
    return {
        "kind": kind, "vpa": vpd, "pcma": pcm, "pa": pa, "vpb": vpb, "pcmb": pcmb, "pb": pb, "padding": padding,
        "cats": cats, "info": info, "content": content, "strata": strata,
    }


CODE_OF = {"vp": 1, "pcm": 2, "pic_num": 3, "samples": 4}
_DIFF_LINE = re.compile(r"^\s*(Y|C1|C2): (Identical|Different: PSNR = (\S+) dB, (\d+) (pixels?) \(([0-9.]+)%\) (differs?))\s*$")


def _judge_report(v, pair, out, code, ctx, label):
    """Judge (text, code) of one comparison of pair A,B against the true difference."""
    cats = pair["cats"]
    kind = pair["kind"]
    lines = out.split("\n")
    ctx.count("%s_code:%s" % (label, code))
    if not cats:
        # identical (possibly up to padding bits)
        if code != 0:
            v("identical-reported-different", "identical pictures (%s) gave code %r: %r" % (kind, code, out[:300]))
            return
        if "Pictures are identical" not in out:
            v("identical-text", "code 0 but report does not say 'Pictures are identical': %r" % (out[:300],))
        warned = "Warning: Padding bits in raw picture data are different" in out
        if pair["padding"] is not None and not warned:
            v("padding-warning-missing", "files differ in padding bits only but no warning was given: %r" % (out[:300],))
        if pair["padding"] is None and warned:
            v("padding-warning-spurious", "byte-identical files gave a padding warning")
        if pair["padding"] is not None:
            ctx.count("padding_only_pairs_identical_with_warning" if warned else "padding_only_pairs_without_warning")
        if pair["padding"] is None and out.strip() != "Pictures are identical":
            v("identical-text", "identical files reported as %r" % (out[:300],))
        return
    if code == 0:
        v("different-reported-identical:" + "+".join(sorted(cats)),
          "pictures differing in %s gave exit code 0: %r" % (sorted(cats), out[:300]), detail=pair["info"])
        return
    if len(cats) == 1:
        want = CODE_OF[next(iter(cats))]
        if code != want:
            v("wrong-code:%s" % next(iter(cats)), "difference in %s gave code %r, expected %d: %r" % (sorted(cats), code, want, out[:300]))
            return
    elif code not in [CODE_OF[c] for c in cats]:
        v("wrong-code:multi", "difference in %s gave code %r" % (sorted(cats), code))
        return
    if code == 1:
        if "Video parameters are different" not in out:
            v("vp-text", "code 1 without 'Video parameters are different': %r" % (out[:300],))
        elif len(cats) == 1:
            f = pair["info"]["field"]
            if not any(l.strip().startswith("- %s:" % f) for l in lines) or not any(l.strip().startswith("+ %s:" % f) for l in lines):
                v("vp-diff-field-missing", "changed field %s not shown as -/+ lines: %r" % (f, out[:1500]))
            extra = [l for l in lines if re.match(r"^\s*[-+] (\w+):", l) and not re.match(r"^\s*[-+] %s:" % re.escape(f), l)]
            if extra:
                v("vp-diff-spurious-field", "fields other than %s shown as different: %r" % (f, extra[:4]))
    elif code == 2:
        if "Picture coding modes are different" not in out:
            v("pcm-text", "code 2 without 'Picture coding modes are different': %r" % (out[:300],))
    elif code == 3:
        if "Picture numbers are different" not in out:
            v("pic-num-text", "code 3 without 'Picture numbers are different': %r" % (out[:300],))
        elif len(cats) == 1:
            a, b = pair["pa"]["pic_num"], pair["pb"]["pic_num"]
            if label.endswith("swapped"):
                a, b = b, a
            if not any(l.strip() == "- %d" % a for l in lines) or not any(l.strip() == "+ %d" % b for l in lines):
                v("pic-num-diff-values", "picture numbers %d/%d not shown: %r" % (a, b, out[:300]))
    elif code == 4:
        if "Pictures are different" not in out:
            v("samples-text", "code 4 without 'Pictures are different': %r" % (out[:300],))
            return
        true = rawfile.count_differences(pair["pa"], pair["pb"])
        sizes = {c: w * h for c, w, h, _d, _b in rawfile.layout(pair["vpa"], pair["pcma"])}
        seen = {}
        for l in lines:
            m = _DIFF_LINE.match(l)
            if m:
                seen[m.group(1)] = m
        for c in rawfile.COMPONENTS:
            m = seen.get(c)
            if m is None:
                v("component-line-missing", "no report line for %s: %r" % (c, out[:400]))
                continue
            if true[c] == 0:
                if m.group(2) != "Identical":
                    v("component-count:identical-reported-different", "%s is identical but reported as %r" % (c, m.group(2)))
                continue
            if m.group(2) == "Identical":
                v("component-count:different-reported-identical", "%s differs in %d samples but is reported Identical" % (c, true[c]),
                  detail=pair["info"])
                continue
            n = int(m.group(4))
            if n != true[c]:
                v("component-count:wrong-number", "%s differs in %d samples, report says %d: %r" % (c, true[c], n, out[:400]), detail=pair["info"])
                continue
            if (m.group(5) == "pixel") != (n == 1):
                v("component-count:plural", "%d reported with %r" % (n, m.group(5)))
            if m.group(6) != "%.1f" % ((n * 100.0) / sizes[c]):
                v("component-count:percentage", "%s: %d of %d samples reported as %s%%" % (c, n, sizes[c], m.group(6)))
            ctx.count("component_counts_verified")
        ctx.count("sample_difference_reports_judged")


def _call_compare(fa, fb):
    from vc2_conformance.scripts import vc2_picture_compare as pc

    try:
        out, code = pc.compare_pictures(fa, fb)
        return out, code, None
    except SystemExit as e:
        return "", "exit%s" % (e.code,), None
    except Exception as e:
        return "", None, e


def _call_main(argv):
    from vc2_conformance.scripts import vc2_picture_compare as pc

    buf, err = io.StringIO(), io.StringIO()
    try:
        with contextlib.redirect_stdout(buf), contextlib.redirect_stderr(err):
            code = pc.main(argv)
        return buf.getvalue(), code, None
    except SystemExit as e:
        return buf.getvalue() + err.getvalue(), "exit%s" % (e.code,), None
    except Exception as e:
        return buf.getvalue(), None, e


def _write_pair(rng, pair, fa, fb, ctx):
    wa = rng.choice(("real", "real", "ref"))
    wb = rng.choice(("real", "real", "ref"))
    pad_side = rng.choice("ab") if pair["padding"] is not None else None
    _write(wa, pair["pa"], pair["vpa"], pair["pcma"], fa, ctx, pair["padding"] if pad_side == "a" else None)
    _write(wb, pair["pb"], pair["vpb"], pair["pcmb"], fb, ctx, pair["padding"] if pad_side == "b" else None)


def _pair_key(pair):
    return jsonx.key_hash(["cmp", pair["kind"], pair["vpa"], pair["pcma"], pair["pa"], pair["vpb"], pair["pcmb"], pair["pb"],
                           pair["padding"]])


def _run_compare(case, ctx, tmp):
    rng = random.Random(case["seed"])
    pair = _make_pair(rng, ctx)
    kind = pair["kind"]
    desc = _fmt_desc(pair["vpa"], pair["pcma"])
    ctx.count("cmp_kind:" + kind)
    lay = rawfile.layout(pair["vpa"], pair["pcma"])
    ctx.note("cmp_luma_depths", lay[0][3])
    ctx.note("cmp_chroma_depths", lay[1][3])
    if "samples" in pair["cats"]:
        true = rawfile.count_differences(pair["pa"], pair["pb"]) if len(pair["cats"]) == 1 else None
        if true:
            ctx.count("cmp_samples_components_differing:%d" % sum(1 for c in true.values() if c))
            if true["Y"] == 0:
                ctx.count("cmp_samples_chroma_only")

    def v(sig, what, detail=None):
        ctx.violation("c23:compare:" + sig, "%s [kind=%s %s]" % (what, kind, desc), detail=detail)

    fa = os.path.join(tmp, "a.raw")
    fb = os.path.join(tmp, "b.raw")
    try:
        _write_pair(rng, pair, fa, fb, ctx)
    except Exception as e:
        v("write-exception:" + type(e).__name__, "writing the pair raised %r" % (e,))
        ctx.seen(_pair_key(pair))
        return
    ext = lambda f: f if rng.random() < 0.7 else f[:-4] + ".json"  # noqa: E731

    out, code, exc = _call_compare(ext(fa), ext(fb))
    if exc is not None:
        v("compare-exception:" + type(exc).__name__, "compare_pictures raised %r" % (exc,), detail=pair["info"])
    else:
        _judge_report(v, pair, out, code, ctx, "compare_pictures")
    # the other order: same verdict, with A and B swapped in the report
    out2, code2, exc2 = _call_compare(fb, fa)
    if exc2 is not None:
        v("compare-exception:" + type(exc2).__name__, "compare_pictures (swapped) raised %r" % (exc2,))
    else:
        if exc is None and code2 != code:
            v("order-dependent-code", "compare(a,b) gave %r but compare(b,a) gave %r" % (code, code2))
        _judge_report(v, pair, out2, code2, ctx, "compare_pictures_swapped")
    # the command line entry point on the two files
    out3, code3, exc3 = _call_main([ext(fa), ext(fb)])
    if exc3 is not None:
        v("cli-exception:" + type(exc3).__name__, "main([a, b]) raised %r" % (exc3,))
    else:
        if exc is None and (code3 != code or out3.rstrip("\n") != out):
            v("cli-differs-from-function", "main([a, b]) gave (%r, %r), compare_pictures gave (%r, %r)" % (out3[:200], code3, out[:200], code))
        _judge_report(v, pair, out3.rstrip("\n"), code3, ctx, "cli_files")
    trivial = kind == "identical" and pair["content"] == "zeros"
    ctx.seen(_pair_key(pair), nontrivial=not trivial)
    if ctx.rng.random() < 0.002:
        ctx.sample({"kind": "compare:" + kind, "format": desc, "info": pair["info"], "report": out, "code": code})


def _run_dirs(case, ctx, tmp):
    rng = random.Random(case["seed"])
    n = rng.randint(2, 4)
    da, db = os.path.join(tmp, "expected"), os.path.join(tmp, "actual")
    os.mkdir(da)
    os.mkdir(db)
    all_same = rng.random() < 0.3
    pairs = []
    numbers = rng.sample(range(0, 40), n)
    for num in numbers:
        pair = _make_pair(rng, ctx, kind="identical" if all_same else None)
        pairs.append((num, pair))
        fa = os.path.join(da, "picture_%d.raw" % num)
        fb = os.path.join(db, rng.choice(("picture_%d.raw", "image_%04d.raw", "x%d.raw")) % num)
        _write_pair(rng, pair, fa, fb, ctx)
    ndiff = sum(1 for _n, p in pairs if p["cats"])
    ctx.count("dir_cases")
    ctx.count("dir_cases_all_identical" if ndiff == 0 else "dir_cases_with_differences")

    def v(sig, what, detail=None):
        ctx.violation("c23:dirs:" + sig, what, detail=detail)

    out, code, exc = _call_main([da, db])
    key = jsonx.key_hash(["dirs"] + [[num, _pair_key(p)] for num, p in pairs])
    if exc is not None:
        v("cli-exception:" + type(exc).__name__, "main([dir_a, dir_b]) raised %r" % (exc,))
        ctx.seen(key)
        return
    ctx.count("cli_dirs_code:%s" % (code,))
    kinds = [p["kind"] for _n, p in pairs]
    if ndiff == 0 and code != 0:
        v("identical-reported-different", "all %d pairs identical but exit code %r: %r" % (n, code, out[:500]))
    elif ndiff and code == 0:
        v("different-reported-identical", "pairs %r but exit code 0: %r" % (kinds, out[:500]))
    elif ndiff:
        allowed = set()
        for _n, p in pairs:
            allowed.update(CODE_OF[c] for c in p["cats"])
        if code not in allowed:
            v("wrong-code", "pairs %r gave exit code %r" % (kinds, code))
    m = re.search(r"^Summary: (\d+) identical, (\d+) different\s*$", out, re.M)
    if not m:
        v("summary-missing", "no summary line: %r" % (out[-300:],))
    elif (int(m.group(1)), int(m.group(2))) != (n - ndiff, ndiff):
        v("summary-counts", "summary says %s identical, %s different; truth %d, %d" % (m.group(1), m.group(2), n - ndiff, ndiff))
    # per-pair sections, in numerical order
    sections = re.split(r"^Comparing (.*) and (.*):\s*$", out, flags=re.M)
    got = [(sections[i], sections[i + 1], sections[i + 2]) for i in range(1, len(sections) - 2, 3)]
    if len(got) != n:
        v("pair-sections", "%d 'Comparing' sections for %d pairs" % (len(got), n))
    else:
        for (num, pair), (fa, fb, body) in zip(sorted(pairs, key=lambda t: t[0]), got):
            if not re.search(r"[^0-9]0*%d\.raw$" % num, fa) or not re.search(r"[^0-9]0*%d\.raw$" % num, fb):
                v("pairing", "pair number %d compared as %s / %s" % (num, fa, fb))
                continue
            body = body.split("Summary:")[0]
            same = "Pictures are identical" in body
            if same != (not pair["cats"]):
                v("pair-verdict", "pair %d (%s) reported as %r" % (num, pair["kind"], body.strip()[:200]))
            elif pair["cats"] == {"samples"}:
                text = "\n".join(l.strip() for l in body.strip().split("\n"))
                _judge_report(lambda s, w, detail=None: v("pair:" + s, w, detail), pair, text, 4, ctx, "cli_dirs_pair")
            ctx.count("dir_pairs_judged")
    ctx.seen(key)
    if ctx.rng.random() < 0.004:
        ctx.sample({"kind": "dirs", "pairs": kinds, "code": code, "report_tail": out[-200:]})


def run_case(case, ctx):
    tmp = tempfile.mkdtemp(prefix="vc23-")
    try:
        if case["kind"] == "roundtrip":
            _run_roundtrip(case, ctx, tmp)
        elif case["kind"] == "compare":
            _run_compare(case, ctx, tmp)
        else:
            _run_dirs(case, ctx, tmp)
    finally:
        shutil.rmtree(tmp, ignore_errors=True)


def floor(agg, tier):
    miss = []
    c = agg["counters"]
    s = agg["sets"]
    nsh, nr, nc, nd = _TIER[tier]
    if c.get("rt_cases", 0) < 0.95 * nsh * nr:
        miss.append("fewer than 95% of the planned round-trip cases ran")
    for name in ("rt_luma_depths", "rt_chroma_depths", "cmp_luma_depths", "cmp_chroma_depths"):
        lacking = [d for d in range(1, 65) if d not in set(s.get(name, ()))]
        if lacking:
            miss.append("%s never covered: %r" % (name, lacking))
    if set(s.get("rt_bytes_per_sample", ())) != {1, 2, 4, 8}:
        miss.append("bytes per sample seen: %r, expected 1,2,4,8" % sorted(s.get("rt_bytes_per_sample", ())))
    for cls in PIC_NUM_CLASSES:
        if c.get("rt_pic_num:" + cls, 0) < nsh * nr // 20:
            miss.append("picture number class %s under-exercised" % cls)
    for cls in CONTENT_CLASSES:
        if c.get("rt_content:" + cls, 0) < nsh * nr // 10:
            miss.append("content class %s under-exercised" % cls)
    if c.get("rt_size:irregular", 0) < nsh * nr // 20:
        miss.append("irregular sizes under-exercised")
    if c.get("read_results_judged", 0) < 1.9 * 0.95 * nsh * nr:
        miss.append("fewer read results judged than expected (%d)" % c.get("read_results_judged", 0))
    if c.get("files_parsed_by_model", 0) < 0.95 * nsh * nr:
        miss.append("fewer files parsed by the model than expected")
    for k in COMPARE_KINDS:
        if c.get("cmp_kind:" + k, 0) < nsh * nc // 40:
            miss.append("compare kind %s under-exercised (%d)" % (k, c.get("cmp_kind:" + k, 0)))
    for label in ("compare_pictures", "compare_pictures_swapped", "cli_files"):
        for code in (0, 1, 2, 3, 4):
            if c.get("%s_code:%d" % (label, code), 0) < nsh * nc // 40:
                miss.append("%s: code %d observed only %d times" % (label, code, c.get("%s_code:%d" % (label, code), 0)))
    if c.get("padding_only_pairs_identical_with_warning", 0) < nsh * nc // 40:
        miss.append("padding-only pairs under-exercised")
    if c.get("top_bit_flips", 0) < nsh * nc // 20:
        miss.append("top-bit flips under-exercised")
    if c.get("component_counts_verified", 0) < nsh * nc // 4:
        miss.append("too few component pixel counts verified")
    if c.get("cmp_samples_chroma_only", 0) < nsh * nc // 40:
        miss.append("too few pairs differing in colour-difference components only")
    if c.get("dir_cases_all_identical", 0) < nsh * nd // 8 or c.get("dir_cases_with_differences", 0) < nsh * nd // 4:
        miss.append("directory cases under-exercised")
    if c.get("cli_dirs_code:0", 0) < nsh * nd // 8:
        miss.append("directory comparison never/rarely exited 0")
    if sum(c.get("cli_dirs_code:%d" % k, 0) for k in (1, 2, 3, 4)) < nsh * nd // 4:
        miss.append("directory comparison never/rarely exited non-zero")
    if c.get("dir_pairs_judged", 0) < 2 * 0.9 * nsh * nd:
        miss.append("too few directory pair sections judged")
    if c.get("files_written_by_real_code", 0) < nsh * (nr + nc) or c.get("files_written_by_model", 0) < nsh * nr:
        miss.append("writer mix not as planned")
    return miss


def evidence_extra(agg, tier):
    c = agg["counters"]
    return {
        "files": {k: c.get(k, 0) for k in ("files_written_by_real_code", "files_written_by_model", "files_read_by_real_code",
                                            "files_parsed_by_model", "raw_bytes_parsed")},
        "compare_outcomes_by_exit_code": {k: v for k, v in sorted(c.items()) if "_code:" in k},
        "compare_kinds": {k[9:]: v for k, v in sorted(c.items()) if k.startswith("cmp_kind:")},
        "roundtrip_luma_depths_seen": sorted(agg["sets"].get("rt_luma_depths", ())),
        "roundtrip_chroma_depths_seen": sorted(agg["sets"].get("rt_chroma_depths", ())),
        "exhaustive": False,
    }
