"""C19 — sequence completion (make_matching_sequence) is sound, complete and shortest.

Monitor shape: history + model.  The real ``make_matching_sequence`` is
called; its return value or ``ImpossibleSequenceError`` is judged by

  soundness     the result embeds the required symbols in order (insertions
                only) and every pattern's reference automaton (vlib/ref/regex.py)
                accepts it (a returned WILDCARD is read as a symbol no pattern
                names); no more than depth_limit symbols are inserted in a row;
  optimality /  R-search: a breadth-first search over (automaton states, index
  completeness  into the required list, consecutive inserts) gives the length of a
                shortest valid completion within the limit, or "none".

Classifier for the known greedy defect (DESIGN section 6, D5): R-search is
re-run under the constraint "a required symbol is consumed as soon as every
pattern accepts it".  Only if the real outcome is *exactly* that constrained
optimum (same length and the returned list is itself such a greedy path, or
both impossible) is the witness given the signature ``greedy-required-symbol``;
every other disagreement has its own signature.
"""
import itertools
import random

from vlib import jsonx
from vlib.gen import patterns as G
from vlib.ref import regex as R

PROPERTY = "C19"
LEVEL = "exploration"
TECHNIQUE = (
    "runtime monitoring: real make_matching_sequence outcomes judged by an independent automaton (soundness) and an "
    "independent breadth-first shortest-completion search (optimality, completeness); greedy-constrained search used "
    "only to name the known greedy finding"
)

LEAVES = ["a", "b", "c", "."]
REQ_ALPHA = ["a", "b", "c"]
FRESH = "zz_fresh"
DEPTHS = [0, 1, 3]
PRIOS = {"quick": [[], ["c", "a"]], "thorough": [[], ["c", "a"], ["p", "b"]]}
REAL_PRIORITY = ["padding_data", "sequence_header"]

PARAMS = {
    "quick": {"single_nodes": 4, "pairs": 60000, "pair_nodes": 4, "shape_long": 4, "shape_req": 2, "real_pics": 4,
              "frag_groups": [2, 3], "nshards": 16},
    "thorough": {"single_nodes": 5, "pairs": 2400000, "pair_nodes": 5, "shape_long": 5, "shape_req": 3, "real_pics": 4,
                 "frag_groups": [2, 3, 5], "nshards": 64},
}

RULE = (
    "a case is one call make_matching_sequence(required, *patterns, depth_limit, symbol_priority). Strata: (single) EVERY "
    "syntax tree with 1..4 nodes (quick) / 1..5 (thorough) over leaves {a, b, c, '.'} rendered to text, every 4th also with "
    "a trailing ' $', x EVERY required list of length 0..3 over {a, b, c} x depth_limit {0, 1, 3}, and for patterns with a wildcard and "
    "depth_limit > 0 also with symbol_priority [c, a] (thorough also [p, b]) - exhaustive; (nested) EVERY pattern (inner)op tail whose inner group starts or ends with a repetition (960 patterns of 5-8 nodes) x every required list of length 0..3 (thorough 0..4) x depth_limit {0, 1, 3} - exhaustive; (looppairs) EVERY (loop pattern, concrete chain of length 2..4, required subsequence of length <= 2) in both pattern orders x depth_limit {0, 3} - exhaustive; (pairs) VERIF_SEED-sampled sets of two such patterns (<= 4 nodes "
    "each; thorough <= 5) with a random required list, depth limit and priority - sampled; (shape) EVERY union of two symbol chains of "
    "1..2 and 1..4 (thorough 1..5) symbols over {a, b, c} x every required list of length 0..2 (thorough 0..3) x depth "
    "{0, 1, 3} - exhaustive, the shape in which consuming a required symbol "
    "at once can be wrong; (real) the generic sequence pattern + each distinct level pattern (11 levels, 4 texts) + none or one "
    "test-case pattern found in the tree, called exactly as make_sequence does (priority [padding_data, sequence_header], default "
    "depth limit) x 0..4 pictures of one kind (LD/HQ picture, or LD/HQ fragment groups of 2/3(/5) fragments per picture). "
    "A case is non-trivial if the outcome is an impossibility or a list longer than the required list (something had to "
    "be inserted); distinct = distinct (required, pattern texts, depth limit, priority)."
)
ASSUMPTIONS = [
    "'shortest' and 'impossible' are both read relative to the permitted number of consecutive insertions (depth_limit): "
    "the reference searches exactly the sequences with at most depth_limit inserted symbols between/around required ones",
    "a returned list with more than depth_limit consecutive insertions (under every embedding of the required list) is "
    "reported (signature exceeds-insert-limit): the statement speaks of 'the permitted number of consecutive insertions'",
    "when depth_limit is not passed (real combinations, as make_sequence calls it) the limit is taken as 3 (the implemented "
    "default; the docstring says 4) and an outcome that is correct under 3 or under 4 is accepted",
    "a WILDCARD in the returned list stands for a symbol that no pattern names; which of several equally short results is "
    "returned (symbol_priority's tie-breaking) is not judged",
    "patterns follow the C18 domain ('$' only trailing here); the automaton reference itself is checked against the real "
    "Matcher by C18, an unsound result that the real Matcher nevertheless accepts is reported as unsound-via-matcher",
    "fragment groups in the real stratum are g consecutive *_picture_fragment symbols per picture (what "
    "make_picture_data_units produces); picture lists are of one kind, as the encoder produces them",
]
CASE_TIMEOUT_S = 300
SHARD_TIMEOUT_S = {"quick": 2400, "thorough": 6 * 3600}
STEP_BUDGET = 100_000_000
STEP_TIMEOUT_S = 900

_AUTOS = {}


def _auto(text):
    a = _AUTOS.get(text)
    if a is None:
        if len(_AUTOS) > 20000:
            _AUTOS.clear()
        a = _AUTOS[text] = R.Automaton(text)
    return a


def _single_pool(max_nodes):
    """[(text, nodes)] of the exhaustive single-pattern stratum (with the trailing-$ variants)."""
    out = []
    for n in range(1, max_nodes + 1):
        for i, t in enumerate(G.valid_trees(n, LEAVES)):
            style = G.STYLES[(i + n) % 3]  # spaced / tight / parens
            text = G.render(t, style)
            out.append(text)
            if i % 4 == 0:
                out.append("(" + text + ") $" if not isinstance(t, str) else text + " $")
    return out


def _required_lists(maxlen):
    return [list(r) for L in range(0, maxlen + 1) for r in itertools.product(REQ_ALPHA, repeat=L)]


def _shape_pool(long_max):
    return [G.render(t, "spaced") for t in G.chain_unions(REQ_ALPHA, 2, long_max)]


def _converge_pool():
    """(P1 c S1 | P2 c) T : two routes of different shape that meet in the same matcher state after consuming the
    required symbol c, one having spent more of its consecutive-insert allowance than the other (a search that
    prunes on (symbols left, matcher state) alone, or forgets how many insertions preceded, goes wrong here)."""
    out = []
    for i in range(0, 3):
        for ls in (1, 2):
            for s1 in itertools.product("ab", repeat=ls):
                for j in (1, 2, 3):
                    for lt in (1, 2, 3):
                        for t in itertools.product("ab", repeat=lt):
                            left = " ".join(["a"] * i + ["c"] + list(s1))
                            right = " ".join(["b"] * j + ["c"])
                            out.append("(%s | %s) %s" % (left, right, " ".join(t)))
                            out.append("(%s | %s) %s" % (right, left, " ".join(t)))
    return out


def _nested_pool():
    """(inner)op tail, where the inner group begins or ends with a repetition itself: `(a* b)*`, `(a b*)* c`, `(a? b)+` ...
    (a construction that lets a repetition share its start or final node with the group it sits in goes wrong here;
    these trees have 5-8 nodes, beyond the exhaustive single-pattern stratum)"""
    out = []
    inners = ["{x}* {y}", "{x} {y}*", "{x}+ {y}", "{x} {y}+", "{x}? {y}", "{x} {y}?", "{x}* {y}*", "{x}* | {y}", "{x} | {y}*", "({x} {y})* {x}"]
    for inner in inners:
        for x, y in itertools.permutations(["a", "b", "c", "."], 2):
            for op in ("*", "+"):
                for tail in ("", " c", " a", " $"):
                    out.append("(%s)%s%s" % (inner.format(x=x, y=y), op, tail))
    return out


MKSEQ_LEVEL_PATTERNS = [
    ".*",
    "(sequence_header high_quality_picture)* end_of_sequence",
    "(sequence_header low_delay_picture)* end_of_sequence",
    "sequence_header ( (sequence_header | auxiliary_data | padding_data | low_delay_picture | high_quality_picture)* | (sequence_header | auxiliary_data | padding_data | low_delay_picture_fragment | high_quality_picture_fragment)*) end_of_sequence",
]
MKSEQ_EXTRAS = [
    [],
    ["sequence_header ((padding_data high_quality_picture) | low_delay_picture)* end_of_sequence"],
    ["sequence_header ((padding_data low_delay_picture) | high_quality_picture)* end_of_sequence"],
    ["(sequence_header (padding_data | auxiliary_data)* high_quality_picture)* end_of_sequence"],
    ["(sequence_header (padding_data | auxiliary_data)* low_delay_picture)* end_of_sequence"],
    ["(sequence_header auxiliary_data? .)* end_of_sequence"],
    ["sequence_header .* padding_data end_of_sequence"],
    ["(sequence_header .)* end_of_sequence", ".* end_of_sequence"],
    ["sequence_header (. padding_data?)* end_of_sequence"],
]
_MK = {}


def _mkseq_setup():
    """two tiny codec configurations (HQ, LD) and their mid-grey pictures"""
    if not _MK:
        from vlib.gen import configs

        for name, over in (("hq", dict(profile=3, pb=40)), ("ld", dict(profile=0, pb=24))):
            r = dict(base=0, cdf=0, pcm=0, ss=0, tff=True, w=8, h=4, fr=None, par=None, range=[0, 255, 128, 255], prim=None, mat=None,
                     tf=None, lossless=False, wi=4, wih=4, d=1, dh=0, sx=2, sy=1, fsc=0, qm=None, level=0,
                     pics={"n": 3, "class": "mid", "seed": 1, "nums": None})
            r.update(over)
            cf = configs.build_cf(r)
            _MK[name] = (cf, configs.build_pictures(r, cf["video_parameters"]))
    return _MK


def _looppair_cases():
    """(required, [loop, chain]): a pattern that keeps returning to the same matcher state set, listed BEFORE a concrete
    chain that narrows the candidates differently at each visit (whatever is remembered per state set between visits,
    or shared between the two matchers, goes wrong here).  Exhaustive over 5 loops x every chain of length 2..4 over
    {a, b, c} x every non-empty subsequence of the chain of length <= 2, in both pattern orders."""
    loops = ["(a | b)*", "(a | b | c)*", "(a | b)+ c?", "((a | b) c?)*", "(. )*", "(s (a | b))*"]
    out = []
    for loop in loops:
        for L in (2, 3, 4):
            for chain in itertools.product("abc", repeat=L):
                seq = list(chain)
                if loop.startswith("(s"):
                    if "c" in seq:
                        continue
                    seq = [x for y in seq for x in ("s", y)]
                text = " ".join(seq)
                reqs = set()
                for i in range(len(chain)):
                    reqs.add((chain[i],))
                    for j in range(i + 1, len(chain)):
                        reqs.add((chain[i], chain[j]))
                for req in sorted(reqs):
                    out.append((list(req), [loop, text]))
                    out.append((list(req), [text, loop]))
    return out


def _real_picture_lists(max_pics, groups):
    out = [[]]
    for n in range(1, max_pics + 1):
        out.append(["low_delay_picture"] * n)
        out.append(["high_quality_picture"] * n)
        for g in groups:
            out.append(["low_delay_picture_fragment"] * (n * g))
            out.append(["high_quality_picture_fragment"] * (n * g))
    return out


def _single_variants(text, prios):
    """(depth_limit, symbol_priority) variants for one single-stratum pattern: a priority list only changes which
    symbols stand in for a wildcard (and tie-breaking, which is not judged), so it is varied only for patterns with a
    wildcard and only where something may be inserted."""
    out = []
    for d in DEPTHS:
        out.append((d, []))
        if d > 0 and "." in text:
            for pr in prios:
                if pr:
                    out.append((d, pr))
    return out


def _distinct_level_texts():
    """[(pattern text, [levels])] in level order."""
    out = {}
    for lvl, text in G.level_patterns():
        out.setdefault(text, []).append(lvl)
    return list(out.items())


def plan(tier, seed):
    p = PARAMS[tier]
    cases = []
    pool = _single_pool(p["single_nodes"])
    size = 6 if tier == "quick" else 8
    for i in range(0, len(pool), size):
        hi = min(len(pool), i + size)
        ncalls = sum(40 * len(_single_variants(t, PRIOS[tier])) for t in pool[i:hi])
        cases.append({"kind": "single", "max_nodes": p["single_nodes"], "prios": PRIOS[tier], "lo": i, "hi": hi, "w": ncalls * 2.0})
    per = 400
    for i in range(p["pairs"] // per):
        cases.append({"kind": "pairs", "pseed": "%s/C19/pairs/%d" % (seed, i), "count": per, "nodes": p["pair_nodes"], "w": per * 3.0})
    shape = _shape_pool(p["shape_long"])
    nreq = len(_required_lists(p["shape_req"]))
    size = 24
    for i in range(0, len(shape), size):
        cases.append({"kind": "shape", "long": p["shape_long"], "req": p["shape_req"], "lo": i, "hi": min(len(shape), i + size), "w": size * nreq * 3 * 1.8})
    conv = _converge_pool()
    for i in range(0, len(conv), 48):
        cases.append({"kind": "converge", "lo": i, "hi": min(len(conv), i + 48), "w": 48 * 4 * 3.0})
    # long required lists (the search must scale with the sequence, not stop at some number of steps)
    for n in ((400, 3500) if tier == "quick" else (400, 3500, 9000)):
        for pats in (["(s p)* e"], ["s (p | x)* e", ".* e"]):
            cases.append({"kind": "long", "n": n, "patterns": pats, "w": n * 4.0})
    # the encoder's make_sequence (the real caller): level ordering pattern x profile x picture count x extra patterns,
    # consecutive calls in one process alternating the picture type
    nm = len(MKSEQ_LEVEL_PATTERNS) * len(MKSEQ_EXTRAS)
    for i in range(0, nm, 12):
        cases.append({"kind": "mkseq", "lo": i, "hi": min(nm, i + 12), "w": 12 * 8 * 6.0})
    lp = _looppair_cases()
    for i in range(0, len(lp), 400):
        cases.append({"kind": "looppairs", "lo": i, "hi": min(len(lp), i + 400), "w": 400 * 2 * 3.0})
    nested = _nested_pool()
    for i in range(0, len(nested), 24):
        cases.append({"kind": "nested", "req": 3 if tier == "quick" else 4, "lo": i, "hi": min(len(nested), i + 24), "w": 24 * 40 * 3 * 2.0})
    nlists = len(_real_picture_lists(p["real_pics"], p["frag_groups"]))
    n_extra = len([1 for o in G.source_patterns().values() if any("test_cases" in x for x in o)])
    for text, lvls in _distinct_level_texts():
        for e in range(n_extra + 1):
            for lo in range(0, nlists, 5):
                cases.append({"kind": "real", "levels": lvls, "extra": e, "pics": p["real_pics"], "groups": p["frag_groups"],
                              "lo": lo, "hi": min(nlists, lo + 5), "w": 5 * 150.0})
    order = sorted(range(len(cases)), key=lambda i: (-cases[i]["w"], i))
    nsh = p["nshards"]
    shards = [{"shard": s, "cases": []} for s in range(nsh)]
    loads = [0.0] * nsh
    for i in order:
        s = min(range(nsh), key=lambda k: (loads[k], k))
        shards[s]["cases"].append(cases[i])
        loads[s] += cases[i]["w"]
    return shards


def cases(spec, ctx):
    for c in spec["cases"]:
        yield c


# --------------------------------------------------------------------------


def _lenof(x):
    return None if x is None else len(x)


def _judge(ctx, required, patterns, depth, priority, stratum, call=None):
    """One call of the real function, judged.  depth None = do not pass depth_limit.
    call: instead of make_matching_sequence itself, a function returning the list of symbols (None = reported impossible)
    obtained through a caller of it (the encoder's make_sequence) that passes exactly these arguments."""
    from vc2_conformance.symbol_re import make_matching_sequence, ImpossibleSequenceError, WILDCARD, Matcher

    case = {"kind": "one", "required": list(required), "patterns": list(patterns), "depth_limit": depth,
            "priority": list(priority), "stratum": stratum}
    try:
        autos = [_auto(t) for t in patterns]
    except R.RefSyntaxError as e:
        ctx.inconclusive_note("reference cannot parse one of %r: %s" % (patterns, e))
        return
    if not all(R.dollar_ok(a.ast) for a in autos):
        ctx.count("skipped_dollar_before_mandatory")
        return
    psyms = set()
    for a in autos:
        psyms |= a.symbols
    assert FRESH not in psyms and FRESH not in required and FRESH not in priority

    kwargs = {}
    if depth is not None:
        kwargs["depth_limit"] = depth
    if priority or depth is None:
        kwargs["symbol_priority"] = list(priority)
    try:
        got = call() if call is not None else make_matching_sequence(list(required), *patterns, **kwargs)
    except ImpossibleSequenceError:
        got = None
    except Exception as e:
        ctx.violation("crash:" + type(e).__name__, "make_matching_sequence(%r, %r, %r) raised %r" % (required, patterns, kwargs, e), case=case)
        return
    ctx.count("calls")
    ctx.count("calls:" + stratum)

    limits = [depth] if depth is not None else [3, 4]
    alphabet = sorted(psyms | set(required) | set(priority)) + [FRESH]
    T = [R.shortest_completion(required, autos, d, alphabet) for d in limits]
    Tl = [_lenof(t) for t in T]
    I = _lenof(got)

    nontrivial = got is None or len(got) > len(required)
    ctx.seen(jsonx.key_hash([list(required), list(patterns), depth, list(priority)]), nontrivial=nontrivial)
    ctx.count("outcome:impossible" if got is None else "outcome:found")
    ctx.count("reference:impossible" if Tl[0] is None else "reference:found")
    if got is not None and len(got) > len(required):
        ctx.count("outcome:found_with_insertions")
        ctx.maxi("max_inserted", len(got) - len(required))

    what_call = "make_matching_sequence(%r, %s%s%s)" % (
        list(required), ", ".join(repr(t) for t in patterns),
        "" if depth is None else ", depth_limit=%d" % depth, ", symbol_priority=%r" % (list(priority),) if "symbol_priority" in kwargs else "")
    detail = {"returned": got, "reference_shortest": T[0], "reference_length": Tl[0], "limits_considered": limits}

    # ---- soundness -----------------------------------------------------------
    if got is not None:
        if not isinstance(got, list):
            ctx.violation("unsound:not-a-list", "%s returned %r" % (what_call, got), case=case, detail=detail)
            return
        if WILDCARD in got:
            ctx.count("results_with_wildcard")
            if priority:
                ctx.count("results_with_wildcard_despite_priority")
        res = [FRESH if x == WILDCARD else x for x in got]
        sup, within = R.embeds_within_limit(res, required, limits[-1])
        if not sup:
            ctx.violation("unsound:required-not-embedded", "%s returned %r which does not contain the required symbols in order" % (what_call, got), case=case, detail=detail)
            return
        rejecting = [t for t, a in zip(patterns, autos) if not a.accepts(res)]
        if rejecting:
            own = []
            for t in rejecting:
                m = Matcher(t)
                own.append(all(m.match_symbol(x) for x in got) and m.is_complete())
            sig = "unsound-via-matcher" if all(own) else "unsound:result-not-in-language"
            ctx.violation(sig, "%s returned %r which is not matched by %r%s" % (what_call, got, rejecting, " (the real Matcher accepts it)" if all(own) else ""), case=case, detail=detail)
            return
        if not within:
            ctx.violation("exceeds-insert-limit", "%s returned %r: every embedding of the required list has more than %d consecutive insertions" % (what_call, got, limits[-1]), case=case, detail=detail)
            return
        ctx.count("sound_results")

    # ---- optimality / completeness -------------------------------------------
    if I in Tl:
        ctx.count("agree")
        ctx.count("agree:" + stratum)
        return
    if I is not None and all(t is None or I < t for t in Tl):
        # sound, within the limit, yet shorter than the reference optimum (or reference says none): the oracle is wrong
        ctx.inconclusive_note("oracle error: %s returned the valid %r but the reference search found %r" % (what_call, got, T[0]))
        return
    # the real outcome is worse than the reference optimum: classify
    Gs = [R.greedy_completion(required, autos, d, psyms, list(priority), FRESH) for d in limits]
    Gl = [_lenof(g) for g in Gs]
    detail["greedy_constrained_shortest"] = Gs[0]
    is_greedy = False
    for d, gl in zip(limits, Gl):
        if I == gl and (got is None or R.is_greedy_path([FRESH if x == WILDCARD else x for x in got], required, autos, d)):
            is_greedy = True
    if is_greedy:
        ctx.count("greedy_classified")
        ctx.count("greedy_classified:" + ("impossible" if got is None else "not_shortest"))
        ctx.count("greedy_classified:" + stratum)
        if got is None:
            what = "%s raised ImpossibleSequenceError although %r is a valid completion" % (what_call, T[0])
        else:
            what = "%s returned %r (length %d) although %r (length %d) is a valid completion" % (what_call, got, I, T[0], Tl[0])
        ctx.violation("greedy-required-symbol", what + "; a required symbol was consumed as soon as it fitted (the greedy-constrained search gives exactly this outcome)", case=case, detail=detail)
        return
    if got is None:
        ctx.violation("impossible-but-completion-exists", "%s raised ImpossibleSequenceError although %r is a valid completion (greedy-constrained search finds %r)" % (what_call, T[0], Gs[0]), case=case, detail=detail)
    else:
        ctx.violation("not-shortest", "%s returned %r (length %d) although %r (length %d) is a valid completion (greedy-constrained optimum: %r)" % (what_call, got, I, T[0], Tl[0], Gl[0]), case=case, detail=detail)


def _roomy(fn):
    return fn()


# Speed only, no effect on what is executed: CPython 3.12 keeps interpreter frames in 16 KiB "data stack" chunks that
# are mmap'ed when a call crosses a chunk boundary and munmap'ed as soon as it returns.  make_matching_sequence
# deep-copies its matchers recursively for every search node and so crosses boundaries thousands of times per call
# (measured: 2/3 of the time spent in mmap/munmap, far worse on a loaded machine).  A caller frame that reserves a big
# evaluation stack makes the interpreter allocate one big chunk once, in whose slack all nested frames fit (10x faster).
_roomy.__code__ = _roomy.__code__.replace(co_stacksize=66000)


def run_case(case, ctx):
    return _roomy(lambda: _run_case(case, ctx))


def _run_case(case, ctx):
    kind = case["kind"]
    if kind == "one":
        _judge(ctx, case["required"], case["patterns"], case["depth_limit"], case["priority"], case.get("stratum", "one"))
    elif kind == "single":
        pool = _single_pool(case["max_nodes"])
        reqs = _required_lists(3)
        for text in pool[case["lo"] : case["hi"]]:
            ctx.count("single_patterns")
            variants = _single_variants(text, case["prios"])
            for req in reqs:
                for d, prio in variants:
                    _judge(ctx, req, [text], d, prio, "single")
        ctx.sample({"stratum": "single", "pattern": pool[case["lo"]], "required": "every list of length 0..3 over a,b,c", "depth_limit": DEPTHS, "symbol_priority": case["prios"]})
    elif kind == "pairs":
        rng = random.Random(case["pseed"])
        pool = _single_pool(case["nodes"])
        for _ in range(case["count"]):
            pats = [rng.choice(pool), rng.choice(pool)]
            req = [rng.choice(REQ_ALPHA) for _ in range(rng.choice([0, 1, 1, 2, 2, 3]))]
            d = rng.choice(DEPTHS + [2])
            prio = rng.choice([[], [], ["c", "a"], ["b"], ["p", "a"]])
            _judge(ctx, req, pats, d, prio, "pairs")
        ctx.sample({"stratum": "pairs", "last": {"required": req, "patterns": pats, "depth_limit": d, "symbol_priority": prio}})
    elif kind == "shape":
        pool = _shape_pool(case["long"])
        reqs = _required_lists(case["req"])
        for i in range(case["lo"], case["hi"]):
            ctx.count("shape_patterns")
            for req in reqs:
                for d in DEPTHS:
                    _judge(ctx, req, [pool[i]], d, [], "shape")
        ctx.sample({"stratum": "shape", "pattern": pool[case["lo"]], "required": "every list of length 0..%d over a,b,c" % case["req"], "depth_limit": DEPTHS})
    elif kind == "long":
        from vc2_conformance.symbol_re import ImpossibleSequenceError, make_matching_sequence

        req = ["p"] * case["n"]
        pats = case["patterns"]
        autos = [_auto(t) for t in pats]
        ref = R.shortest_completion(req, autos, 3, ["s", "p", "e", "x", FRESH])
        ctx.count("long_cases")
        ctx.maxi("max_required_length", case["n"])
        try:
            got = make_matching_sequence(req, *pats)
        except ImpossibleSequenceError:
            got = None
        what = "make_matching_sequence(%d x 'p', %s)" % (case["n"], ", ".join(repr(t) for t in pats))
        if got is None:
            if ref is not None:
                ctx.violation("impossible-but-completion-exists:long", "%s raised ImpossibleSequenceError although a completion of length %d exists" % (what, len(ref)), case=case)
        elif ref is None or not all(a.accepts(got) for a in autos):
            ctx.violation("unsound:long", "%s returned a sequence of length %d which the patterns do not match" % (what, len(got)), case=case)
        elif [x for x in got if x == "p"] != req or len(got) != len(ref):
            ctx.violation("not-shortest:long", "%s returned length %d (with %d 'p'), a shortest completion has length %d" % (what, len(got), got.count("p"), len(ref)), case=case)
        else:
            ctx.count("agree:long")
        ctx.seen(jsonx.key_hash(case))
    elif kind == "mkseq":
        import copy

        from vc2_conformance.encoder import make_sequence
        from vc2_conformance.encoder.exceptions import IncompatibleLevelAndDataUnitError
        from vc2_conformance.level_constraints import LEVEL_SEQUENCE_RESTRICTIONS, LevelSequenceRestrictions
        from vc2_conformance.symbol_re import ImpossibleSequenceError
        from vc2_data_tables import Levels, ParseCodes

        mk = _mkseq_setup()
        saved = LEVEL_SEQUENCE_RESTRICTIONS[Levels(0)]
        combos = [(lp, ex) for lp in MKSEQ_LEVEL_PATTERNS for ex in MKSEQ_EXTRAS][case["lo"] : case["hi"]]
        try:
            for lp, extras in combos:
                # the ordering pattern is installed on level 0 (as the repository's own tests do): the real levels 64-66
                # need UHD / HD frames
                LEVEL_SEQUENCE_RESTRICTIONS[Levels(0)] = LevelSequenceRestrictions("synthetic", lp)
                for npics in (0, 1, 2, 3):
                    for prof in ("hq", "ld", "hq", "ld"):  # alternating picture types back to back, twice
                        cf, pics = mk[prof]
                        pname = "high_quality_picture" if prof == "hq" else "low_delay_picture"

                        def call():
                            try:
                                seq = make_sequence(cf, copy.deepcopy(pics[:npics]), *extras)
                            except IncompatibleLevelAndDataUnitError:
                                raise ImpossibleSequenceError()
                            return [ParseCodes(du["parse_info"]["parse_code"]).name for du in seq["data_units"]]

                        ctx.count("make_sequence_calls")
                        try:
                            res = call()
                            err = None
                        except KeyError as e:
                            if e.args and str(e.args[0]).endswith(("_picture", "_picture_fragment")):
                                # the shortest sequence the patterns admit contains a picture the caller did not supply
                                # (e.g. a header that must be followed by a picture): make_sequence has nothing to put
                                # there.  Outside this property (which is about the symbol sequences), counted only.
                                ctx.count("mkseq_patterns_demand_an_extra_picture")
                                continue
                            res, err = None, e
                        except BaseException as e:
                            res, err = None, e

                        def replay(res=res, err=err):
                            if err is not None:
                                raise err
                            return res

                        _judge(ctx, [pname] * npics, ["sequence_header .* end_of_sequence", lp] + list(extras), None,
                               ["padding_data", "sequence_header"], "mkseq", call=replay)
        finally:
            LEVEL_SEQUENCE_RESTRICTIONS[Levels(0)] = saved
        ctx.sample({"stratum": "mkseq", "level_pattern": combos[0][0], "extra_patterns": combos[0][1], "pictures": "0..3 of each profile, alternating"})
    elif kind == "looppairs":
        pool = _looppair_cases()
        for req, pats in pool[case["lo"] : case["hi"]]:
            ctx.count("looppair_cases")
            for d in (0, 3):
                _judge(ctx, req, pats, d, [], "looppairs")
        ctx.sample({"stratum": "looppairs", "first": pool[case["lo"]], "depth_limit": [0, 3]})
    elif kind == "nested":
        pool = _nested_pool()
        reqs = _required_lists(case["req"])
        for i in range(case["lo"], case["hi"]):
            ctx.count("nested_patterns")
            for req in reqs:
                for d in DEPTHS:
                    _judge(ctx, req, [pool[i]], d, [], "nested")
        ctx.sample({"stratum": "nested", "pattern": pool[case["lo"]], "required": "every list of length 0..%d over a,b,c" % case["req"], "depth_limit": DEPTHS})
    elif kind == "converge":
        pool = _converge_pool()
        for i in range(case["lo"], case["hi"]):
            ctx.count("converge_patterns")
            for d in (1, 2, 3, 4):
                _judge(ctx, ["c"], [pool[i]], d, [], "converge")
        ctx.sample({"stratum": "converge", "pattern": pool[case["lo"]], "required": ["c"], "depth_limit": [1, 2, 3, 4]})
    elif kind == "real":
        levels = dict(G.level_patterns())
        src = G.source_patterns()
        generic = [t for t, o in src.items() if any(x.endswith("encoder/sequence.py:make_matching_sequence") for x in o)]
        extras = sorted(t for t, o in src.items() if any("test_cases" in x for x in o))
        if len(generic) != 1:
            ctx.inconclusive_note("generic sequence pattern not found in encoder/sequence.py (found %r)" % (generic,))
            return
        ctx.note("generic_pattern", generic[0])
        for e in extras:
            ctx.note("test_case_patterns", e)
        lvls = case["levels"]
        texts = set(levels[l] for l in lvls)
        if len(texts) != 1:
            ctx.inconclusive_note("levels %r no longer share one pattern" % (lvls,))
            return
        extra = ([None] + extras)[case["extra"]] if case["extra"] <= len(extras) else None
        pats = [generic[0], texts.pop()] + ([extra] if extra else [])
        lists = _real_picture_lists(case["pics"], case["groups"])
        for req in lists[case.get("lo", 0) : case.get("hi", len(lists))]:
            _judge(ctx, req, pats, None, REAL_PRIORITY, "real")
        for l in lvls:
            ctx.note("levels", l)
        ctx.note("real_pattern_sets", " && ".join(pats))
        ctx.sample({"stratum": "real", "levels": lvls, "patterns": pats, "picture_lists": "0..%d pictures of one kind / fragment groups %r" % (case["pics"], case["groups"])})
    else:
        raise ValueError(kind)


# --------------------------------------------------------------------------


def floor(agg, tier):
    c = agg["counters"]
    s = agg["sets"]
    p = PARAMS[tier]
    miss = []
    exp_single = len(_single_pool(p["single_nodes"]))
    if c.get("single_patterns", 0) != exp_single:
        miss.append("single stratum incomplete: %d of %d patterns" % (c.get("single_patterns", 0), exp_single))
    if c.get("converge_patterns", 0) != len(_converge_pool()):
        miss.append("converge stratum incomplete: %d of %d patterns" % (c.get("converge_patterns", 0), len(_converge_pool())))
    if c.get("looppair_cases", 0) != len(_looppair_cases()):
        miss.append("loop-pair stratum incomplete: %d of %d cases" % (c.get("looppair_cases", 0), len(_looppair_cases())))
    if c.get("nested_patterns", 0) != len(_nested_pool()):
        miss.append("nested stratum incomplete: %d of %d patterns" % (c.get("nested_patterns", 0), len(_nested_pool())))
    exp_shape = len(_shape_pool(p["shape_long"]))
    if c.get("shape_patterns", 0) != exp_shape:
        miss.append("shape stratum incomplete: %d of %d patterns" % (c.get("shape_patterns", 0), exp_shape))
    k = 1 if tier == "quick" else 8
    for name, need in (("outcome:found", 30000 * k), ("outcome:impossible", 30000 * k), ("outcome:found_with_insertions", 10000 * k),
                       ("reference:found", 30000 * k), ("reference:impossible", 30000 * k), ("sound_results", 30000 * k),
                       ("results_with_wildcard", 300 * k), ("calls:pairs", 40000 * k), ("calls:shape", 30000 * k),
                       ("calls:real", 250), ("agree:real", 200)):
        if c.get(name, 0) < need:
            miss.append("%s = %d < %d" % (name, c.get(name, 0), need))
    if len(set(s.get("levels", ()))) < 11:
        miss.append("fewer than 11 level patterns exercised")
    if len(set(s.get("test_case_patterns", ()))) < 2:
        miss.append("fewer than 2 test-case patterns found in the tree")
    return miss


def evidence_extra(agg, tier):
    c = agg["counters"]
    p = PARAMS[tier]
    complete = (c.get("single_patterns", 0) == len(_single_pool(p["single_nodes"]))
                and c.get("shape_patterns", 0) == len(_shape_pool(p["shape_long"])) and agg["shards_ok"] == agg["shards"])
    return {
        "exhaustive": bool(complete),
        "exhaustive_boxes": [
            "single: every tree with 1..%d nodes over %r (+ trailing-$ variant of every 4th) x every required list of length 0..3 over %r x depth_limit %r x priorities %r"
            % (p["single_nodes"], LEAVES, REQ_ALPHA, DEPTHS, PRIOS[tier]),
            "shape: every union of two symbol chains (1..2 | 1..%d symbols over %r) x every required list of length 0..%d x depth_limit %r"
            % (p["shape_long"], REQ_ALPHA, p["shape_req"], DEPTHS),
            "real: generic + each level pattern + (none | each test-case pattern) x 0..%d pictures of each kind, fragment groups %r"
            % (p["real_pics"], p["frag_groups"]),
        ],
        "sampled_not_exhaustive": ["pairs: %d seed-chosen two-pattern sets" % p["pairs"]],
        "calls": c.get("calls", 0),
        "outcomes_found": c.get("outcome:found", 0),
        "outcomes_impossible": c.get("outcome:impossible", 0),
        "agreements_with_reference": c.get("agree", 0),
        "greedy_classified": c.get("greedy_classified", 0),
        "greedy_classified_impossible": c.get("greedy_classified:impossible", 0),
        "greedy_classified_not_shortest": c.get("greedy_classified:not_shortest", 0),
    }
