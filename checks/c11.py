"""C11 — forward and inverse wavelet transforms reconstruct exactly.

Monitor shape: relation between two executions (round trip) with equality as
the oracle.  Whole pictures (Y, C1, C2) are pushed through the encoder's real
`forward_wavelet_transform` (padding + analysis) and then through the decoder's
real `inverse_wavelet_transform` (synthesis + padding removal); the result must
be the original picture.  In between, the shape of every subband array the
forward transform produced is compared with the real `subband_width/height`
(the dimensions the slice geometry uses).
"""
import random

from vlib import jsonx
from vlib.ref import slices as RS

PROPERTY = "C11"
LEVEL = "exploration"
TECHNIQUE = (
    "runtime monitoring: round trip of generated integer pictures through the real padding + analysis and synthesis + padding "
    "removal, equality oracle; observed subband shapes compared with the real slice-geometry dimensions"
)
RULE = (
    "evaluation = one picture (Y, C1, C2) x (vertical filter, horizontal filter, dwt_depth, dwt_depth_ho): all 7x7 filter pairs x depth "
    "0..4 x ho 0..4 (1225 combinations, all visited; the number of pictures per combination is inversely weighted by the measured cost "
    "of its depth, see pictures_per_filter_pair_by_depth_ho). Per combination the luma sizes are, thorough: every size 1x1..9x7 x "
    "every value class for depth+ho <= 6 (one class per size above) plus sampled sizes up to 24x16 and a few up to 70x40; quick: a "
    "stratified sample (value classes cycled, half of the sizes <= 9x7, half <= 24x16). Chroma is 4:4:4, 4:2:2, 4:2:0 (rounded up) or of independent size. Value classes: random in +-1, +-255, "
    "+-2^16, +-2^40, +-2^200, mixed magnitudes, constant, alternating extremes by column / row / checkerboard, single impulse, last row/column "
    "step, ramp. Distinct = distinct (combination, sizes, class, magnitude, value seed); a picture is trivial when depth = ho = 0 (no transform)."
)
ASSUMPTIONS = [
    "the round trip is observed through forward_wavelet_transform / inverse_wavelet_transform on a State holding only the entries those functions document (sizes, filter indices, depths); pixel offset removal and clipping are not part of the stated round trip",
    "filter indices are given as plain integers 0..6, as a decoder state holds them",
    "chroma sizes: luma halved rounding up (so that 1x1 luma is usable), or independent of luma; the property quantifies over component sizes, not over colour formats",
    "'subband shapes equal the subband dimensions the slice geometry uses' compares the arrays produced by the real dwt with the real subband_width/subband_height (agreement of those with the closed form is property C13's business)",
]
CASE_TIMEOUT_S = 300
STEP_BUDGET = 2_000_000_000

NFILTERS = 7
MAXDEPTH = 4
CLASSES = ("pm1", "u8", "s16", "s40", "s200", "mixed", "const", "alt_x", "alt_y", "checker", "impulse", "edge", "ramp")
MAGS = (1, 255, 1 << 16, 1 << 40, 1 << 200)
CHROMA = ("444", "422", "420", "indep")
SMALL_W, SMALL_H = 9, 7
BIG_W, BIG_H = 24, 16


# Measured cost (ms of CPU per picture, unchanged tree) by [dwt_depth][dwt_depth_ho]; used only to decide how many
# pictures each depth combination gets, so that deep transforms (256x16 padded samples for a 1x1 picture) do not eat
# the whole budget.  They are sampling weights, not expectations.
COST_MS = (
    (0.1, 0.6, 0.6, 1.2, 2.8),
    (1.3, 2.0, 2.7, 3.0, 4.8),
    (2.3, 3.6, 4.8, 7.4, 12.9),
    (3.7, 6.6, 9.4, 17.3, 32.5),
    (7.7, 13.4, 23.4, 45.2, 99.5),
)
SMALL_BOX_FULL_UP_TO = 6  # thorough: (size x class) small box is complete for depth + ho <= 6


def _params(tier):
    if tier == "quick":
        return dict(nshards=16, exhaustive_small=False)
    return dict(nshards=64, exhaustive_small=True)


def _alloc(tier, d, ho):
    """(pictures sampled, large pictures) for one (pair, depth, ho) combination."""
    cost = COST_MS[d][ho]
    if tier == "quick":
        return max(2, min(48, int(240 / cost))), 0
    return max(8, min(1000, int(2400 / cost))), max(1, min(8, int(40 / cost)))


def _planned(tier):
    """Pictures planned per (d, ho) for one filter pair: {(d, ho): (small, sampled, large)}."""
    out = {}
    for d in range(MAXDEPTH + 1):
        for ho in range(MAXDEPTH + 1):
            n, nl = _alloc(tier, d, ho)
            if _params(tier)["exhaustive_small"]:
                small = SMALL_W * SMALL_H * (len(CLASSES) if d + ho <= SMALL_BOX_FULL_UP_TO else 1)
                out[(d, ho)] = (small, n, nl)
            else:
                out[(d, ho)] = (n - n // 2, n // 2, 0)
    return out


def plan(tier, seed):
    n = _params(tier)["nshards"]
    return [{"shard": s, "nshards": n} for s in range(n)]


def _subcases(tier, seed, wv, wh, d, ho):
    """The deterministic list of sub-cases [w, h, chroma mode, class, value seed, stratum] of one combination."""
    rng = random.Random("%d/C11/%s/%d/%d/%d/%d" % (seed, tier, wv, wh, d, ho))
    n, n_large = _alloc(tier, d, ho)
    rot = wv * NFILTERS + wh + 3 * d + 5 * ho  # rotates the class cycle so that thin strata see every class across pairs
    subs = []
    if _params(tier)["exhaustive_small"]:
        k = 0
        for w in range(1, SMALL_W + 1):
            for h in range(1, SMALL_H + 1):
                if d + ho <= SMALL_BOX_FULL_UP_TO:
                    for cls in CLASSES:
                        subs.append([w, h, rng.choice(CHROMA), cls, rng.getrandbits(32), "small"])
                else:
                    subs.append([w, h, rng.choice(CHROMA), CLASSES[(k + rot) % len(CLASSES)], rng.getrandbits(32), "small"])
                    k += 1
        for i in range(n):
            w = rng.randrange(1, BIG_W + 1)
            h = rng.randrange(1, BIG_H + 1)
            if w <= SMALL_W and h <= SMALL_H:
                w += SMALL_W  # the small box is already covered
            subs.append([w, h, rng.choice(CHROMA), CLASSES[(i + rot) % len(CLASSES)], rng.getrandbits(32), "sampled"])
        for i in range(n_large):
            subs.append([rng.randrange(25, 71), rng.randrange(17, 41), rng.choice(CHROMA), rng.choice(CLASSES), rng.getrandbits(32), "large"])
    else:
        for i in range(n):
            cls = CLASSES[(i + rot) % len(CLASSES)]
            if i % 2 == 0:
                w, h, tag = rng.randrange(1, SMALL_W + 1), rng.randrange(1, SMALL_H + 1), "small"
            else:
                w, h, tag = rng.randrange(1, BIG_W + 1), rng.randrange(1, BIG_H + 1), "sampled"
            subs.append([w, h, rng.choice(CHROMA), cls, rng.getrandbits(32), tag])
    rng.shuffle(subs)
    return subs


def cases(spec, ctx):
    combos = [(wv, wh, d, ho) for wv in range(NFILTERS) for wh in range(NFILTERS) for d in range(MAXDEPTH + 1) for ho in range(MAXDEPTH + 1)]
    # every shard visits every combination with its own slice of the sub-cases (offset rotated per combination) => equal cost
    nsh = spec["nshards"]
    for k, (wv, wh, d, ho) in enumerate(combos):
        subs = _subcases(ctx.tier, ctx.seed, wv, wh, d, ho)[(spec["shard"] - k) % nsh::nsh]
        if subs:
            yield {"wv": wv, "wh": wh, "d": d, "ho": ho, "subs": subs}


def _chroma_size(w, h, mode, rng):
    if mode == "444":
        return w, h
    if mode == "422":
        return (w + 1) // 2, h
    if mode == "420":
        return (w + 1) // 2, (h + 1) // 2
    return rng.randrange(1, BIG_W + 1), rng.randrange(1, BIG_H + 1)


def _component(rng, w, h, cls):
    """Returns (rows, magnitude label)."""
    if cls in ("pm1", "u8", "s16", "s40", "s200"):
        bits = {"pm1": 1, "u8": 8, "s16": 16, "s40": 40, "s200": 200}[cls]
        if cls == "pm1":
            return [[rng.randrange(-1, 2) for _ in range(w)] for _ in range(h)], "2^0"
        lim = (1 << bits) - 1 if cls == "u8" else (1 << bits)
        gb = rng.getrandbits
        return [[gb(bits + 1) % (2 * lim + 1) - lim for _ in range(w)] for _ in range(h)], "2^%d" % bits
    if cls == "mixed":
        gb = rng.getrandbits
        ch = rng.choice
        return [[gb(ch((1, 8, 16, 40, 200))) * ch((1, -1)) for _ in range(w)] for _ in range(h)], "mixed"
    mag = rng.choice(MAGS)
    label = {1: "2^0", 255: "2^8"}.get(mag) or "2^%d" % (mag.bit_length() - 1)
    hi, lo = mag, -mag - (0 if mag == 1 else 1)
    if cls == "const":
        v = rng.choice((hi, lo, mag - 1, 0 if rng.random() < 0.1 else -mag))
        return [[v] * w for _ in range(h)], label
    if cls == "alt_x":
        return [[hi if x % 2 == 0 else lo for x in range(w)] for _ in range(h)], label
    if cls == "alt_y":
        return [[hi if y % 2 == 0 else lo] * w for y in range(h)], label
    if cls == "checker":
        return [[hi if (x + y) % 2 == 0 else lo for x in range(w)] for y in range(h)], label
    if cls == "impulse":
        a = [[0] * w for _ in range(h)]
        a[rng.randrange(h)][rng.randrange(w)] = rng.choice((hi, lo))
        return a, label
    if cls == "edge":
        a = [[0] * w for _ in range(h)]
        for y in range(h):
            a[y][w - 1] = hi
        for x in range(w):
            a[h - 1][x] = lo
        return a, label
    if cls == "ramp":
        step = mag // max(1, w + h) + 1
        return [[(x - y) * step + (x * y) % 3 for x in range(w)] for y in range(h)], label
    raise ValueError(cls)


_F = {}


def _real():
    if not _F:
        from vc2_conformance.pseudocode.picture_encoding import forward_wavelet_transform
        from vc2_conformance.pseudocode.picture_decoding import inverse_wavelet_transform
        from vc2_conformance.pseudocode.slice_sizes import subband_width, subband_height
        from vc2_conformance.pseudocode.state import State

        _F.update(fwd=forward_wavelet_transform, inv=inverse_wavelet_transform, sbw=subband_width, sbh=subband_height, State=State)
    return _F


COMPONENTS = (("Y", "y_transform"), ("C1", "c1_transform"), ("C2", "c2_transform"))


def _one(ctx, f, wv, wh, d, ho, sub):
    w, h, mode, cls, vseed, tag = sub
    rng = random.Random(vseed)
    cw, ch = _chroma_size(w, h, mode, rng)
    pic = {}
    label = None
    for c, (cw_, ch_) in (("Y", (w, h)), ("C1", (cw, ch)), ("C2", (cw, ch))):
        pic[c], label = _component(rng, cw_, ch_, cls)
    orig = {c: [r[:] for r in pic[c]] for c in pic}
    state = f["State"](luma_width=w, luma_height=h, color_diff_width=cw, color_diff_height=ch, wavelet_index=wv, wavelet_index_ho=wh,
                       dwt_depth=d, dwt_depth_ho=ho)

    def det(**kw):
        o = {"wavelet_index": wv, "wavelet_index_ho": wh, "dwt_depth": d, "dwt_depth_ho": ho, "luma": [w, h], "chroma": [cw, ch],
             "class": cls, "magnitude": label, "value_seed": vseed}
        o.update(kw)
        return o

    # ---- encoder side: padding + analysis (mutates `pic`) -------------------
    try:
        f["fwd"](state, pic)
    except Exception as e:
        ctx.violation("roundtrip:forward-exception:" + type(e).__name__, "forward_wavelet_transform raised %r" % (e,), detail=det())
        return
    # ---- observed subband shapes vs the dimensions the slice geometry uses --
    shapes_ok = True
    for c, key in COMPONENTS:
        coeffs = state.get(key)
        if not isinstance(coeffs, dict) or sorted(coeffs) != list(range(d + ho + 1)):
            ctx.violation("shape:levels-missing-or-extra", "%s holds levels %r, expected 0..%d" % (key, sorted(coeffs) if isinstance(coeffs, dict) else coeffs, d + ho),
                          detail=det(component=c))
            shapes_ok = False
            continue
        for level in range(d + ho + 1):
            bands = coeffs[level]
            if tuple(sorted(bands)) != tuple(sorted(RS.orientations(d, ho, level))):
                ctx.violation("shape:orientations", "%s level %d holds subbands %r, expected %r" % (key, level, sorted(bands), sorted(RS.orientations(d, ho, level))),
                              detail=det(component=c, level=level))
                shapes_ok = False
            try:
                ew, eh = f["sbw"](state, level, c), f["sbh"](state, level, c)
            except Exception as e:
                ctx.violation("shape:subband-dimension-exception:" + type(e).__name__, "subband_width/height raised %r" % (e,), detail=det(component=c, level=level))
                shapes_ok = False
                continue
            for orient, a in bands.items():
                rows = len(a)
                widths = set(len(r) for r in a)
                if rows != eh or widths != {ew}:
                    ctx.violation("shape:subband-differs-from-slice-geometry",
                                  "%s level %d %s is %d rows x %r, subband_height/width say %d x %d" % (key, level, orient, rows, sorted(widths), eh, ew),
                                  detail=det(component=c, level=level, orient=orient))
                    shapes_ok = False
                ctx.count("subbands_shape_checked")
    if (w, h) != RS.padded_size(w, h, d, ho) or (cw, ch) != RS.padded_size(cw, ch, d, ho):
        ctx.count("pictures_needing_padding")
    else:
        ctx.count("pictures_without_padding")
    ctx.maxi("max_padded_luma_samples", RS.padded_size(w, h, d, ho)[0] * RS.padded_size(w, h, d, ho)[1])
    # ---- decoder side: synthesis + padding removal --------------------------
    state["current_picture"] = {}
    try:
        f["inv"](state)
    except Exception as e:
        ctx.violation("roundtrip:inverse-exception:" + type(e).__name__, "inverse_wavelet_transform raised %r" % (e,), detail=det(shapes_ok=shapes_ok))
        return
    out = state["current_picture"]
    for c, _ in COMPONENTS:
        got = out.get(c)
        if got == orig[c]:
            ctx.count("components_round_tripped")
            continue
        exp = orig[c]
        if not isinstance(got, list) or len(got) != len(exp) or any(len(a) != len(b) for a, b in zip(got, exp)):
            ctx.violation("roundtrip:size-differs", "%s comes back %s, original %dx%d" % (
                c, "%dx%r" % (len(got), sorted(set(len(r) for r in got))) if isinstance(got, list) else type(got).__name__, len(exp), len(exp[0])),
                detail=det(component=c))
            continue
        diffs = [(x, y, exp[y][x], got[y][x]) for y in range(len(exp)) for x in range(len(exp[0])) if exp[y][x] != got[y][x]]
        x, y, a, b = diffs[0]
        which = "symmetric-levels-only" if ho == 0 else "horizontal-only-levels-only" if d == 0 else "mixed-levels"
        ctx.violation("roundtrip:samples-differ:" + which,
                      "%s: %d of %d samples differ after idwt(dwt(.)), first at (%d,%d): %d -> %d" % (c, len(diffs), len(exp) * len(exp[0]), x, y, a, b),
                      detail=det(component=c, ndiff=len(diffs), first=[x, y, a if abs(a) < 1 << 70 else str(a), b if abs(b) < 1 << 70 else str(b)]))
    # ---- bookkeeping ---------------------------------------------------------
    nontrivial = d + ho > 0
    ctx.seen(jsonx.key_hash([wv, wh, d, ho, w, h, cw, ch, cls, vseed]), nontrivial=nontrivial)
    ctx.count("class:" + cls)
    if d + ho >= 7:
        ctx.count("deep_class:" + cls)
    ctx.count("magnitude:" + label)
    ctx.count("chroma:" + mode)
    ctx.count("stratum:" + tag)
    ctx.note("luma_sizes", "%dx%d" % (w, h))
    if tag == "small":
        ctx.note("small_sizes", "%dx%d" % (w, h))
        ctx.count("small_box_cells")
    if w == 1 or h == 1:
        ctx.count("one_sample_wide_or_high")
    ctx.maxi("max_luma_w", w)
    ctx.maxi("max_luma_h", h)


def run_case(case, ctx):
    f = _real()
    wv, wh, d, ho = case["wv"], case["wh"], case["d"], case["ho"]
    for sub in case["subs"]:
        _one(ctx, f, wv, wh, d, ho, sub)
    ctx.note("filter_pairs", "%d,%d" % (wv, wh))
    ctx.note("depth_combos", "%d,%d" % (d, ho))
    ctx.count("pictures_depth:%d,%d" % (d, ho), len(case["subs"]))
    ctx.count("pictures_filter_v:%d" % wv, len(case["subs"]))
    ctx.count("pictures_filter_h:%d" % wh, len(case["subs"]))
    ctx.note("combinations", "%d,%d,%d,%d" % (wv, wh, d, ho))
    if (wv, wh, d, ho) in ((1, 4, 2, 1), (6, 0, 1, 0)) and ctx.spec.get("shard", 0) in (0, "replay"):
        sub = case["subs"][0]
        ctx.sample({"wavelet_index": wv, "wavelet_index_ho": wh, "dwt_depth": d, "dwt_depth_ho": ho, "luma": sub[:2], "chroma_mode": sub[2],
                    "class": sub[3], "value_seed": sub[4], "Y_first_row": [v if abs(v) < 1 << 60 else "%d-bit" % v.bit_length()
                                                                             for v in _component(random.Random(sub[4]), sub[0], sub[1], sub[3])[0][0]][:12]},
                   force=True)


def floor(agg, tier):
    p = _params(tier)
    c = agg["counters"]
    s = agg["sets"]
    miss = []
    npairs = NFILTERS * NFILTERS
    ncomb = npairs * (MAXDEPTH + 1) ** 2
    planned = _planned(tier)
    total = npairs * sum(sum(v) for v in planned.values())
    if len(s.get("filter_pairs", ())) != npairs:
        miss.append("only %d of 49 filter pairs seen" % len(s.get("filter_pairs", ())))
    if len(s.get("depth_combos", ())) != (MAXDEPTH + 1) ** 2:
        miss.append("only %d of 25 depth combinations seen" % len(s.get("depth_combos", ())))
    if len(s.get("combinations", ())) != ncomb:
        miss.append("only %d of %d (pair, depth, ho) combinations seen" % (len(s.get("combinations", ())), ncomb))
    if agg["evaluations"] != total:
        miss.append("pictures run %d != planned %d" % (agg["evaluations"], total))
    for (d, ho), v in sorted(planned.items()):
        if c.get("pictures_depth:%d,%d" % (d, ho), 0) != npairs * sum(v):
            miss.append("depth %d ho %d: %d pictures, planned %d" % (d, ho, c.get("pictures_depth:%d,%d" % (d, ho), 0), npairs * sum(v)))
    for cls in CLASSES:
        if c.get("class:" + cls, 0) < total // len(CLASSES) * 8 // 10:
            miss.append("value class %s under-represented (%d)" % (cls, c.get("class:" + cls, 0)))
        if c.get("deep_class:" + cls, 0) < 5:
            miss.append("value class %s seen fewer than 5 times at depth + ho >= 7" % cls)
    for m in ("2^0", "2^8", "2^16", "2^40", "2^200", "mixed"):
        if c.get("magnitude:" + m, 0) < total // 40:
            miss.append("magnitude %s under-represented (%d)" % (m, c.get("magnitude:" + m, 0)))
    for m in CHROMA:
        if c.get("chroma:" + m, 0) < total // 8:
            miss.append("chroma mode %s under-represented" % m)
    if len(s.get("small_sizes", ())) != SMALL_W * SMALL_H:
        miss.append("not every luma size up to 9x7 seen (%d of 63)" % len(s.get("small_sizes", ())))
    if len(s.get("luma_sizes", ())) < 300:
        miss.append("fewer than 300 distinct luma sizes")
    if p["exhaustive_small"]:
        want = npairs * sum(v[0] for v in planned.values())
        if c.get("small_box_cells", 0) != want:
            miss.append("small box incomplete: %d of %d" % (c.get("small_box_cells", 0), want))
        if c.get("stratum:large", 0) != npairs * sum(v[2] for v in planned.values()):
            miss.append("large-size stratum incomplete")
    if c.get("components_round_tripped", 0) != 3 * agg["evaluations"]:
        miss.append("components round-tripped %d != 3 x pictures %d" % (c.get("components_round_tripped", 0), agg["evaluations"]))
    if c.get("subbands_shape_checked", 0) < agg["evaluations"] * 3:
        miss.append("fewer subband shapes compared than expected")
    if c.get("pictures_needing_padding", 0) < agg["evaluations"] // 4 or c.get("pictures_without_padding", 0) < 500:
        miss.append("padding strata: %d padded, %d unpadded" % (c.get("pictures_needing_padding", 0), c.get("pictures_without_padding", 0)))
    if c.get("one_sample_wide_or_high", 0) < 1000:
        miss.append("fewer than 1000 pictures one sample wide or high")
    return miss


def evidence_extra(agg, tier):
    p = _params(tier)
    planned = _planned(tier)
    out = {"exhaustive": False, "combinations": NFILTERS * NFILTERS * (MAXDEPTH + 1) ** 2,
           "pictures_per_filter_pair_by_depth_ho(small,sampled,large)": {"%d,%d" % k: list(v) for k, v in sorted(planned.items())}}
    if p["exhaustive_small"]:
        out["exhaustive_boxes"] = ["every filter pair x (depth, ho) with depth + ho <= %d x every luma size 1x1..9x7 x every value class "
                                   "(one chroma mode and value seed each); for depth + ho > %d every luma size 1x1..9x7 with one class each"
                                   % (SMALL_BOX_FULL_UP_TO, SMALL_BOX_FULL_UP_TO)]
    else:
        out["exhaustive_boxes"] = ["every (filter pair, depth 0-4, ho 0-4) combination is visited (sizes and values are sampled)"]
    return out
