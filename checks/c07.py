"""C07 — automatic field filling preserves explicit values and computes derived ones.

Monitor shape: history + model.  A random stream *description* is assembled
(encoder-made picture groups of five families + hand-built headers, padding,
auxiliary data, default-only pictures) together with a model of what must come
out.  The real `autofill_and_serialise_stream` runs; the bytes are read back
(i) with struct / an independent exp-Golomb reader at every parse_info prefix
(offsets, picture numbers, major_version) and (ii) with the repository's
deserialiser for the remaining header fields.
"""
import copy
import random
import struct
import traceback

from vlib import jsonx, vc2util
from vlib.gen import configs

PROPERTY = "C07"
LEVEL = "exploration"
TECHNIQUE = "runtime monitoring: random stream descriptions with a model of explicit/omitted/AUTO fields; output bytes read back independently (struct + own exp-Golomb reader) and via the deserialiser, compared with the model"
RULE = (
    "case = description seed; a description has 1-3 sequences, each a sequence header (encoder-made with random "
    "sub-structures replaced by partially specified ones, or fully hand-built for picture-less sequences), 0-4 pictures "
    "from five encoder-made families (HQ, LD, HQ fragments, LD fragments, asymmetric) or default-only pictures, picture "
    "numbers omitted/AUTO/explicit per unit, padding/auxiliary payloads of 0-40 bytes, repeated headers, "
    "explicit/AUTO/omitted major_version, version-raising presets, explicit or AUTO parse offsets on random units; "
    "distinct = distinct structural signature (unit kinds, which fields were explicit/AUTO/omitted, versions)"
)
ASSUMPTIONS = [
    "the generator only emits descriptions it knows to be serialisable, so a serialisation failure is a violation",
    "explicit extended-transform parameters are supplied only when they have a representation in the output (DESIGN section 7 item 11)",
    "documented defaults are the table copied into this file from the vc2_fixeddicts documentation (DEFAULTS)",
    "unit boundaries are found by scanning for the parse_info prefix; payload bytes avoid 0x42 and a stream whose coefficient data happens to contain the prefix is counted as ambiguous, not judged",
]
CASE_TIMEOUT_S = 60

# documented default values (vc2_fixeddicts docs), as plain ints
DEFAULTS = {
    "ParseInfo": {"parse_info_prefix": 0x42424344, "parse_code": 0x10},
    "ParseParameters": {"minor_version": 0, "profile": 3, "level": 0},
    "SequenceHeader": {"base_video_format": 0, "picture_coding_mode": 0},
    "FrameSize": {"custom_dimensions_flag": 0, "frame_width": 1, "frame_height": 1},
    "ColorDiffSamplingFormat": {"custom_color_diff_format_flag": 0, "color_diff_format_index": 0},
    "ScanFormat": {"custom_scan_format_flag": 0, "source_sampling": 0},
    "FrameRate": {"custom_frame_rate_flag": 0, "index": 3, "frame_rate_numer": 25, "frame_rate_denom": 1},
    "PixelAspectRatio": {"custom_pixel_aspect_ratio_flag": 0, "index": 1, "pixel_aspect_ratio_numer": 1, "pixel_aspect_ratio_denom": 1},
    "CleanArea": {"custom_clean_area_flag": 0, "clean_width": 1, "clean_height": 1, "left_offset": 0, "top_offset": 0},
    "SignalRange": {"custom_signal_range_flag": 0, "index": 1, "luma_offset": 0, "luma_excursion": 1, "color_diff_offset": 0, "color_diff_excursion": 1},
    "ColorSpec": {"custom_color_spec_flag": 0, "index": 3},
    "ColorPrimaries": {"custom_color_primaries_flag": 0, "index": 0},
    "ColorMatrix": {"custom_color_matrix_flag": 0, "index": 0},
    "TransferFunction": {"custom_transfer_function_flag": 0, "index": 0},
    "TransformParameters": {"wavelet_index": 4, "dwt_depth": 0},
    "ExtendedTransformParameters": {"asym_transform_index_flag": 0, "wavelet_index_ho": 4, "asym_transform_flag": 0, "dwt_depth_ho": 0},
    "SliceParameters": {"slices_x": 1, "slices_y": 1, "slice_bytes_numerator": 1, "slice_bytes_denominator": 1, "slice_prefix_bytes": 0, "slice_size_scaler": 1},
    "QuantMatrix": {"custom_quant_matrix": 0},
}

FAMILIES = {
    # name: recipe overrides on a tiny base recipe
    "hq": dict(profile=3, fsc=0, dh=0),
    "ld": dict(profile=0, fsc=0, dh=0, pb=24),
    "hqf": dict(profile=3, fsc=1, dh=0),
    "ldf": dict(profile=0, fsc=2, dh=0, sx=2, sy=2, pb=40),
    "asym": dict(profile=3, fsc=0, dh=1, wih=1),
    # only the wavelet index differs (no horizontal-only levels), with each of the two being filter 0
    "asym_idx_ho0": dict(profile=3, fsc=0, dh=0, wi=4, wih=0, qm={"0": {"LL": 0}, "1": {"HL": 1, "LH": 1, "HH": 2}}),
    "asym_idx_2d0": dict(profile=3, fsc=0, dh=0, wi=0, wih=4, qm={"0": {"LL": 0}, "1": {"HL": 1, "LH": 1, "HH": 2}}),
    # only the horizontal-only depth differs (same wavelet)
    "asym_depth": dict(profile=3, fsc=0, dh=2, wih=4),
}
BASE_RECIPE = dict(base=0, cdf=0, pcm=0, ss=0, tff=True, w=8, h=4, fr=None, par=None, range=[0, 255, 128, 255], prim=None,
                   mat=None, tf=None, profile=3, lossless=False, wi=4, wih=4, d=1, dh=0, sx=2, sy=1, fsc=0, pb=48, qm=None,
                   level=0, pics={"n": 3, "class": "noise", "seed": 7, "nums": None})

_pools = {}


def setup(ctx):
    from vc2_conformance.encoder import make_sequence

    for name, over in FAMILIES.items():
        r = copy.deepcopy(BASE_RECIPE)
        r.update(over)
        if r["dh"] == 1:
            r["qm"] = {"0": {"L": 0}, "1": {"H": 1}, "2": {"HL": 1, "LH": 1, "HH": 2}}
        elif r["dh"] == 2:
            r["qm"] = {"0": {"L": 0}, "1": {"H": 1}, "2": {"H": 1}, "3": {"HL": 1, "LH": 1, "HH": 2}}
        cf = configs.build_cf(r)
        pics = configs.build_pictures(r, cf["video_parameters"])
        seq = make_sequence(cf, pics)
        hdr = seq["data_units"][0]
        groups = []
        for du in seq["data_units"][1:-1]:
            if "picture_parse" in du:
                groups.append([du])
            elif "fragment_parse" in du:
                if du["fragment_parse"]["fragment_header"]["fragment_slice_count"] == 0:
                    groups.append([du])
                else:
                    groups[-1].append(du)
        _pools[name] = (r, hdr, groups)


def plan(tier, seed):
    n = 16000 if tier == "quick" else 1500000
    nsh = 16 if tier == "quick" else 64
    return [{"shard": i, "n": n // nsh} for i in range(nsh)]


def cases(spec, ctx):
    for i in range(spec["n"]):
        yield {"dseed": "%d/%s/%d" % (ctx.seed, spec["shard"], i)}


# ---------------------------------------------------------------------------
# independent readers
# ---------------------------------------------------------------------------
def read_uint_at(data, bitpos):
    """interleaved exp-Golomb unsigned integer starting at absolute bit position"""
    v = 1
    n = len(data) * 8

    def bit(p):
        if p >= n:
            return 1
        return (data[p >> 3] >> (7 - (p & 7))) & 1

    while bit(bitpos) == 0:
        v = (v << 1) | bit(bitpos + 1)
        bitpos += 2
    return v - 1, bitpos + 1


def scan_units(data):
    pos = []
    p = data.find(b"BBCD")
    while p != -1:
        pos.append(p)
        p = data.find(b"BBCD", p + 1)
    return pos


# ---------------------------------------------------------------------------
# description generator + model
# ---------------------------------------------------------------------------
def _payload(rng):
    n = rng.choice([0, 0, 1, 2, 5, 13, 32, 40])
    return bytes(rng.choice([0, 1, 0x41, 0x43, 0x44, 0xFF, rng.randrange(256) if True else 0]) for _ in range(n)).replace(b"\x42", b"\x40")


def _choose(rng, *opts):
    return rng.choice(opts)


def _gated_struct(rng, T, struct, flagname, fields=(), index=None, custom=()):
    """Build a partially specified gated sub-structure: only values that will be
    *used* by the serialiser are supplied (an unused value is an error by design).
    Returns (fixeddict, explicit dict)."""
    d = T()
    explicit = {}

    def put(k, v):
        d[k] = v
        explicit[k] = int(v)

    if rng.random() < 0.7:
        put(flagname, rng.choice([True, True, False]))
    eff = explicit.get(flagname, DEFAULTS[struct][flagname])
    if not eff:
        return d, explicit
    for k, gen in fields:
        if rng.random() < 0.6:
            put(k, gen(rng))
    if index is not None:
        k, gen = index
        if rng.random() < 0.7:
            put(k, gen(rng))
        if explicit.get(k, DEFAULTS[struct][k]) == 0:
            for k2, gen2 in custom:
                if rng.random() < 0.6:
                    put(k2, gen2(rng))
    return d, explicit


def _model_header_fields(vp_model, pp_model, svh_model):
    """Given the effective (explicit-or-default) values, list the fields visible
    in the bitstream as {path: value}, following the (11.x) syntax gating."""
    out = {}

    def eff(struct, key, explicit):
        return explicit.get(key, DEFAULTS[struct][key])

    out["parse_parameters.minor_version"] = eff("ParseParameters", "minor_version", pp_model)
    out["parse_parameters.profile"] = eff("ParseParameters", "profile", pp_model)
    out["parse_parameters.level"] = eff("ParseParameters", "level", pp_model)
    out["base_video_format"] = eff("SequenceHeader", "base_video_format", svh_model)
    out["picture_coding_mode"] = eff("SequenceHeader", "picture_coding_mode", svh_model)

    def gated(prefix, struct, flag, fields, m, index_key=None, custom_fields=()):
        f = eff(struct, flag, m)
        out[prefix + "." + flag] = f
        if not f:
            return None
        if index_key is None:
            for k in fields:
                out[prefix + "." + k] = eff(struct, k, m)
            return None
        idx = eff(struct, index_key, m)
        out[prefix + "." + index_key] = idx
        if idx == 0:
            for k in custom_fields:
                out[prefix + "." + k] = eff(struct, k, m)
        return idx

    v = vp_model
    gated("frame_size", "FrameSize", "custom_dimensions_flag", ["frame_width", "frame_height"], v.get("frame_size", {}))
    gated("color_diff_sampling_format", "ColorDiffSamplingFormat", "custom_color_diff_format_flag", ["color_diff_format_index"], v.get("color_diff_sampling_format", {}))
    gated("scan_format", "ScanFormat", "custom_scan_format_flag", ["source_sampling"], v.get("scan_format", {}))
    gated("frame_rate", "FrameRate", "custom_frame_rate_flag", [], v.get("frame_rate", {}), "index", ["frame_rate_numer", "frame_rate_denom"])
    gated("pixel_aspect_ratio", "PixelAspectRatio", "custom_pixel_aspect_ratio_flag", [], v.get("pixel_aspect_ratio", {}), "index", ["pixel_aspect_ratio_numer", "pixel_aspect_ratio_denom"])
    gated("clean_area", "CleanArea", "custom_clean_area_flag", ["clean_width", "clean_height", "left_offset", "top_offset"], v.get("clean_area", {}))
    gated("signal_range", "SignalRange", "custom_signal_range_flag", [], v.get("signal_range", {}), "index", ["luma_offset", "luma_excursion", "color_diff_offset", "color_diff_excursion"])
    cs = v.get("color_spec", {})
    idx = gated("color_spec", "ColorSpec", "custom_color_spec_flag", [], cs.get("_self", {}), "index", [])
    if idx == 0:
        gated("color_spec.color_primaries", "ColorPrimaries", "custom_color_primaries_flag", ["index"], cs.get("color_primaries", {}))
        gated("color_spec.color_matrix", "ColorMatrix", "custom_color_matrix_flag", ["index"], cs.get("color_matrix", {}))
        gated("color_spec.transfer_function", "TransferFunction", "custom_transfer_function_flag", ["index"], cs.get("transfer_function", {}))
    return out


def _flatten_header(sh):
    """deserialised SequenceHeader -> {path: int}"""
    out = {}

    def walk(d, prefix):
        for k, v in d.items():
            if k.startswith("_"):
                continue
            if isinstance(v, dict):
                walk(v, prefix + k + ".")
            else:
                out[prefix + k] = int(v)

    pp = sh["parse_parameters"]
    for k in ("minor_version", "profile", "level"):
        out["parse_parameters." + k] = int(pp[k])
    out["base_video_format"] = int(sh["base_video_format"])
    out["picture_coding_mode"] = int(sh["picture_coding_mode"])
    walk(sh["video_parameters"], "")
    return out


def _version_of_header_model(fields):
    """R-version contribution of a header's *visible* fields."""
    v = 1
    if fields.get("parse_parameters.profile") == 3:
        v = max(v, 2)
    if fields.get("frame_rate.custom_frame_rate_flag") and fields.get("frame_rate.index", 0) > 11:
        v = 3
    if fields.get("signal_range.custom_signal_range_flag") and fields.get("signal_range.index", 0) > 4:
        v = 3
    if fields.get("color_spec.custom_color_spec_flag"):
        if fields.get("color_spec.index", 0) > 4:
            v = 3
        if fields.get("color_spec.index") == 0:
            if fields.get("color_spec.color_primaries.custom_color_primaries_flag") and fields.get("color_spec.color_primaries.index", 0) > 3:
                v = 3
            if fields.get("color_spec.color_matrix.custom_color_matrix_flag") and fields.get("color_spec.color_matrix.index", 0) > 3:
                v = 3
            if fields.get("color_spec.transfer_function.custom_transfer_function_flag") and fields.get("color_spec.transfer_function.index", 0) > 3:
                v = 3
    return v


def build_description(rng):
    """-> (sequences, model) where model is a list per sequence of dicts per unit."""
    import vc2_conformance.bitstream as B
    from vc2_conformance.bitstream.vc2_autofill import AUTO
    from vc2_data_tables import ParseCodes

    nseq = rng.choice([1, 1, 2, 3])
    seqs, model = [], []
    for s in range(nseq):
        fam = rng.choice(sorted(_pools))
        recipe, hdr0, groups = _pools[fam]
        npic = rng.randrange(0, 5)
        default_pics = False
        default_frags = False
        omitted_fragment_defaults = False
        if rng.random() < 0.12:
            npic = rng.randrange(0, 3)
            default_pics = True
            default_frags = rng.random() < 0.4
        hdr = copy.deepcopy(hdr0)
        sh = hdr["sequence_header"]
        vpd = sh["video_parameters"]
        # ---- model of explicit header values (start from what the encoder made explicit)
        pp_model = {k: int(v) for k, v in sh["parse_parameters"].items() if k != "major_version"}
        svh_model = {"base_video_format": int(sh["base_video_format"]), "picture_coding_mode": int(sh["picture_coding_mode"])}
        vp_model = {}
        for k, sub in vpd.items():
            if k == "color_spec":
                m = {"_self": {kk: int(vv) for kk, vv in sub.items() if not isinstance(vv, dict)}}
                for kk in ("color_primaries", "color_matrix", "transfer_function"):
                    if kk in sub:
                        m[kk] = {a: int(b) for a, b in sub[kk].items()}
                vp_model[k] = m
            else:
                vp_model[k] = {kk: int(vv) for kk, vv in sub.items()}
        # ---- replace some non-geometry structures by partially specified ones
        def flag(r):
            return r.choice([True, False])

        replaced = []
        if npic == 0 and not default_pics and rng.random() < 0.5:
            # picture-less sequence: geometry may be anything too
            geo = True
        else:
            geo = False
        if default_pics:
            # default-only pictures need a tiny explicit geometry
            sh["base_video_format"] = 0
            svh_model["base_video_format"] = 0
            sh["picture_coding_mode"] = 0
            svh_model["picture_coding_mode"] = 0
            vpd["frame_size"] = B.FrameSize(custom_dimensions_flag=True, frame_width=4, frame_height=2)
            vp_model["frame_size"] = {"custom_dimensions_flag": 1, "frame_width": 4, "frame_height": 2}
            vpd["color_diff_sampling_format"] = B.ColorDiffSamplingFormat(custom_color_diff_format_flag=True, color_diff_format_index=0)
            vp_model["color_diff_sampling_format"] = {"custom_color_diff_format_flag": 1, "color_diff_format_index": 0}
        specs = {
            "scan_format": (B.ScanFormat, "ScanFormat", "custom_scan_format_flag", [("source_sampling", lambda r: r.choice([0, 1]))], None, ()),
            "frame_rate": (B.FrameRate, "FrameRate", "custom_frame_rate_flag", [], ("index", lambda r: r.choice([0, 0, 1, 5, 11, 12, 14])),
                           [("frame_rate_numer", lambda r: r.randrange(1, 1000)), ("frame_rate_denom", lambda r: r.randrange(1, 10))]),
            "pixel_aspect_ratio": (B.PixelAspectRatio, "PixelAspectRatio", "custom_pixel_aspect_ratio_flag", [], ("index", lambda r: r.choice([0, 0, 1, 2, 6])),
                                   [("pixel_aspect_ratio_numer", lambda r: r.randrange(1, 100)), ("pixel_aspect_ratio_denom", lambda r: r.randrange(1, 100))]),
            "clean_area": (B.CleanArea, "CleanArea", "custom_clean_area_flag",
                           [("clean_width", lambda r: r.randrange(1, 9)), ("clean_height", lambda r: r.randrange(1, 5)),
                            ("left_offset", lambda r: r.randrange(0, 3)), ("top_offset", lambda r: r.randrange(0, 3))], None, ()),
            "signal_range": (B.SignalRange, "SignalRange", "custom_signal_range_flag", [], ("index", lambda r: r.choice([0, 0, 1, 2, 4, 5, 8])),
                             [("luma_offset", lambda r: r.randrange(0, 64)), ("luma_excursion", lambda r: r.randrange(1, 1024)),
                              ("color_diff_offset", lambda r: r.randrange(0, 64)), ("color_diff_excursion", lambda r: r.randrange(1, 1024))]),
        }
        if geo:
            specs["frame_size"] = (B.FrameSize, "FrameSize", "custom_dimensions_flag",
                                   [("frame_width", lambda r: r.randrange(1, 5000)), ("frame_height", lambda r: r.randrange(1, 5000))], None, ())
            specs["color_diff_sampling_format"] = (B.ColorDiffSamplingFormat, "ColorDiffSamplingFormat", "custom_color_diff_format_flag",
                                                   [("color_diff_format_index", lambda r: r.choice([0, 1, 2]))], None, ())
        for k, (T, sname, fl, flds, idx, cust) in sorted(specs.items()):
            p = rng.random()
            if p < 0.25:
                d, explicit = _gated_struct(rng, T, sname, fl, flds, idx, cust)
                vpd[k] = d
                vp_model[k] = explicit
                replaced.append(k)
            elif p < 0.32:
                vpd.pop(k, None)
                vp_model.pop(k, None)
                replaced.append("-" + k)
        p = rng.random()
        if p < 0.25:
            cs = B.ColorSpec()
            m = {"_self": {}}
            if rng.random() < 0.8:
                f = rng.choice([True, True, False])
                cs["custom_color_spec_flag"] = f
                m["_self"]["custom_color_spec_flag"] = int(f)
            if m["_self"].get("custom_color_spec_flag", 0):
                if rng.random() < 0.7:
                    i = rng.choice([0, 0, 0, 1, 3, 4, 5, 7])
                    cs["index"] = i
                    m["_self"]["index"] = i
                if m["_self"].get("index", DEFAULTS["ColorSpec"]["index"]) == 0:
                    for kk, T, sname, fl, lim in (("color_primaries", B.ColorPrimaries, "ColorPrimaries", "custom_color_primaries_flag", 6),
                                                  ("color_matrix", B.ColorMatrix, "ColorMatrix", "custom_color_matrix_flag", 7),
                                                  ("transfer_function", B.TransferFunction, "TransferFunction", "custom_transfer_function_flag", 7)):
                        if rng.random() < 0.6:
                            d, explicit = _gated_struct(rng, T, sname, fl, [("index", lambda r, lim=lim: r.randrange(0, lim + 1))])
                            cs[kk] = d
                            m[kk] = explicit
            vpd["color_spec"] = cs
            vp_model["color_spec"] = m
            replaced.append("color_spec")
        elif p < 0.3:
            vpd.pop("color_spec", None)
            vp_model.pop("color_spec", None)
        if geo or rng.random() < 0.1:
            # parse parameters / header scalars
            for k, opts in (("minor_version", [0, 1, 7]), ("level", [0, 1, 64])):
                p = rng.random()
                if p < 0.3:
                    v = rng.choice(opts)
                    sh["parse_parameters"][k] = v
                    pp_model[k] = v
                elif p < 0.5:
                    sh["parse_parameters"].pop(k, None)
                    pp_model.pop(k, None)
            if geo:
                for k, opts in (("base_video_format", [0, 1, 6, 14]), ("picture_coding_mode", [0, 1])):
                    p = rng.random()
                    if p < 0.4:
                        v = rng.choice(opts)
                        sh[k] = v
                        svh_model[k] = v
                    elif p < 0.7:
                        sh.pop(k, None)
                        svh_model.pop(k, None)
                if rng.random() < 0.5:
                    p = rng.choice([0, 3])
                    sh["parse_parameters"]["profile"] = p
                    pp_model["profile"] = p
                elif rng.random() < 0.5:
                    sh["parse_parameters"].pop("profile", None)
                    pp_model.pop("profile", None)
        fields = _model_header_fields(vp_model, pp_model, svh_model)
        # ---- major version
        mv_mode = rng.choice(["omit", "omit", "auto", "auto", "explicit"])
        explicit_version = None
        if mv_mode == "explicit":
            explicit_version = rng.choice([1, 2, 3])
            sh["parse_parameters"]["major_version"] = explicit_version
        elif mv_mode == "auto":
            sh["parse_parameters"]["major_version"] = AUTO
        else:
            sh["parse_parameters"].pop("major_version", None)
        if (fam.startswith("asym") or fam in ("hqf", "ldf")) and explicit_version is not None and explicit_version < 3 and npic and not default_pics:
            # encoder-made pictures of these families carry extended transform parameters, which have no
            # representation below version 3 (DESIGN section 7 item 11)
            explicit_version = 3
            sh["parse_parameters"]["major_version"] = 3
        minv = _version_of_header_model(fields)
        dus = [hdr]
        units = [{"kind": "sequence_header", "fields": fields}]
        last_pn = -1
        profile = fields["parse_parameters.profile"]
        # does the most recent sequence header carry an explicit major_version 3?  (then autofill must leave the
        # transform parameters that follow exactly as given)
        gov3 = explicit_version == 3
        mixed_asym = False
        for i in range(npic):
            if default_pics:
                if default_frags:
                    # a first fragment with every field omitted: documented defaults make it an initial
                    # fragment (fragment_slice_count 0), i.e. a new picture each time
                    pc = ParseCodes.high_quality_picture_fragment if profile == 3 else ParseCodes.low_delay_picture_fragment
                    du = B.DataUnit(parse_info=B.ParseInfo(parse_code=pc))
                    if rng.random() < 0.5:
                        du["fragment_parse"] = B.FragmentParse()
                        if rng.random() < 0.5:
                            du["fragment_parse"]["fragment_header"] = B.FragmentHeader()
                else:
                    pc = ParseCodes.high_quality_picture if profile == 3 else ParseCodes.low_delay_picture
                    du = B.DataUnit(parse_info=B.ParseInfo(parse_code=pc))
                    if rng.random() < 0.5:
                        du["picture_parse"] = B.PictureParse()
                g = [du]
            else:
                g = copy.deepcopy(groups[i % len(groups)])
                this_asym = False
                if fam == "hq" and i >= 1 and explicit_version in (None, 3) and rng.random() < 0.2:
                    # a later picture of the sequence uses an asymmetric transform although the first ones do not: the
                    # whole sequence then needs version 3
                    ag = _pools[rng.choice(sorted(n for n in _pools if n.startswith("asym")))][2]
                    g = copy.deepcopy(ag[i % len(ag)])
                    minv = 3
                    mixed_asym = this_asym = True
                for du in g:
                    # omit fragment header fields whose value is the documented default
                    fh = du.get("fragment_parse", {}).get("fragment_header")
                    if fh is not None:
                        for k in ("fragment_slice_count", "fragment_data_length"):
                            if fh.get(k) == 0 and rng.random() < 0.5:
                                del fh[k]
                                omitted_fragment_defaults = True
                if gov3 and fam in ("hq", "ld") and not this_asym and rng.random() < 0.5:
                    # explicit extended transform parameters that signal a symmetric transform the long way round (both
                    # flags set, same wavelet, no horizontal-only level): nothing here needs version 3, and behind an
                    # explicit version-3 header autofill must leave them alone
                    for du in g:
                        tpd = du["picture_parse"]["wavelet_transform"]["transform_parameters"]
                        tpd["extended_transform_parameters"] = B.ExtendedTransformParameters(
                            asym_transform_index_flag=True, wavelet_index_ho=tpd["wavelet_index"],
                            asym_transform_flag=True, dwt_depth_ho=0)
                        flagged_etp = {"asym_transform_index_flag": True, "wavelet_index_ho": int(tpd["wavelet_index"]),
                                       "asym_transform_flag": True, "dwt_depth_ho": 0}
                else:
                    flagged_etp = None
            mode = rng.choice(["auto", "auto", "omit", "explicit"])
            if mode == "explicit":
                pn = rng.choice([0, 5, 2 ** 32 - 1, 2 ** 32 - 2, rng.randrange(2 ** 32)])
            else:
                pn = (last_pn + 1) & 0xFFFFFFFF
            for du in g:
                if explicit_version is not None and explicit_version < 3 and not default_pics:
                    # a caller who fixes a version below 3 must not supply extended transform
                    # parameters (they have no representation there, DESIGN section 7 item 11)
                    tpd = du.get("picture_parse", {}).get("wavelet_transform", {}).get("transform_parameters")
                    if tpd is not None:
                        tpd.pop("extended_transform_parameters", None)
                if "fragment_parse" in du or (default_pics and default_frags):
                    hd = (du.setdefault("fragment_parse", B.FragmentParse()).setdefault("fragment_header", B.FragmentHeader())
                          if (mode != "omit" or "fragment_header" in du.get("fragment_parse", {})) else None)
                    minv = 3
                else:
                    hd = du.setdefault("picture_parse", B.PictureParse()).setdefault("picture_header", B.PictureHeader()) if (mode != "omit" or "picture_parse" in du) else None
                    if fam.startswith("asym") and not default_pics:
                        minv = 3
                if hd is not None:
                    hd.pop("picture_number", None)
                    if mode == "explicit":
                        hd["picture_number"] = pn
                    elif mode == "auto" and rng.random() < 0.5:
                        hd["picture_number"] = AUTO
                dus.append(du)
                units.append({"kind": "fragment" if ("fragment_parse" in du or (default_pics and default_frags)) else "picture", "pn": pn,
                              "pn_mode": mode, "default": default_pics})
                if not default_pics and flagged_etp:
                    units[-1]["etp_expect"] = flagged_etp
                if rng.random() < 0.25:
                    payload = _payload(rng)
                    omit_bytes = payload == b"" and rng.random() < 0.5
                    if rng.random() < 0.5:
                        pdu = B.DataUnit(parse_info=B.ParseInfo(parse_code=ParseCodes.padding_data))
                        if not omit_bytes:
                            pdu["padding"] = B.Padding(bytes=payload)
                        kind = "padding_data"
                    else:
                        pdu = B.DataUnit(parse_info=B.ParseInfo(parse_code=ParseCodes.auxiliary_data))
                        if not omit_bytes:
                            pdu["auxiliary_data"] = B.AuxiliaryData(bytes=payload)
                        kind = "auxiliary_data"
                    dus.append(pdu)
                    units.append({"kind": kind, "payload": payload})
            last_pn = pn
            if rng.random() < 0.15:
                # the sequence header repeated between pictures: numbering and offsets carry on across it
                h2 = copy.deepcopy(hdr)
                u2 = {"kind": "sequence_header", "fields": fields}
                p = rng.random()
                if explicit_version is None and p < 0.4 and fam in ("hq", "ld", "hqf", "ldf") or fam.startswith("asym") and explicit_version is None and p < 0.4:
                    # ... this time with an explicit version 3 although the first header left it to autofill
                    h2["sequence_header"]["parse_parameters"]["major_version"] = 3
                    u2["mv_explicit"] = 3
                    gov3 = True
                elif explicit_version == 3 and p < 0.2:
                    # ... this time leaving the version to autofill although the first header was explicit
                    h2["sequence_header"]["parse_parameters"]["major_version"] = AUTO
                    u2["mv_explicit"] = None
                    gov3 = False
                else:
                    gov3 = explicit_version == 3  # a plain copy of the first header
                dus.append(h2)
                units.append(u2)
        if rng.random() < 0.3:
            dus.append(copy.deepcopy(hdr))
            units.append({"kind": "sequence_header", "fields": fields})
        eos = B.DataUnit(parse_info=B.ParseInfo(parse_code=ParseCodes.end_of_sequence))
        if rng.random() < 0.2:
            eos = B.DataUnit()  # parse_code omitted: documented default is end_of_sequence
            if rng.random() < 0.5:
                eos["parse_info"] = B.ParseInfo()
        dus.append(eos)
        units.append({"kind": "end_of_sequence"})
        # explicit / AUTO offsets on random units (explicit ones may be wrong on purpose,
        # but never on padding/aux units whose length they define)
        for du, u in zip(dus, units):
            if "parse_info" not in du:
                continue
            pi = du["parse_info"]
            for fld in ("next_parse_offset", "previous_parse_offset"):
                p = rng.random()
                if p < 0.08:
                    pi[fld] = AUTO
                elif p < 0.16 and not (fld == "next_parse_offset" and u["kind"] in ("padding_data", "auxiliary_data")):
                    v = rng.choice([0, 1, 13, 77, 2 ** 32 - 1])
                    pi[fld] = v
                    u["explicit_" + fld] = v
        seqs.append(B.Sequence(data_units=dus))
        model.append({"units": units, "explicit_version": explicit_version, "min_version": minv, "family": fam,
                      "mv_mode": mv_mode, "replaced": replaced, "npic": npic, "default_pics": default_pics,
                      "default_frags": default_frags, "omitted_fragment_defaults": omitted_fragment_defaults})
    return seqs, model


PC_KIND = {0x00: "sequence_header", 0x10: "end_of_sequence", 0x20: "auxiliary_data", 0x30: "padding_data",
           0xC8: "picture", 0xE8: "picture", 0xCC: "fragment", 0xEC: "fragment"}


def run_case(case, ctx):
    rng = random.Random(case["dseed"])
    seqs, model = build_description(rng)
    sig = [[(u["kind"], u.get("pn_mode"), m["default_frags"], m["omitted_fragment_defaults"], tuple(sorted(k for k in u if k.startswith("explicit_")))) for u in m["units"]]
           + [m["mv_mode"], m["explicit_version"], m["family"], m["replaced"], m["default_pics"]] for m in model]
    nontrivial = any(m["npic"] for m in model)
    ctx.seen(jsonx.key_hash(sig), nontrivial=nontrivial)
    try:
        data = vc2util.serialise(seqs)
    except Exception as e:
        site = vc2util._site(e.__traceback__)
        ctx.violation("serialisation-of-valid-description-failed:%s@%s" % (type(e).__name__, (site or "?").rsplit(":", 1)[0]),
                      "autofill_and_serialise_stream raised %r on a generator-valid description" % (e,),
                      detail=traceback.format_exc()[-2000:])
        return
    ctx.count("serialised")
    for m in model:
        if m["default_frags"] and m["npic"]:
            ctx.count("sequences_with_default_only_fragments")
        if m["omitted_fragment_defaults"]:
            ctx.count("sequences_with_omitted_fragment_header_defaults")
    # ---- independent structure reading
    positions = scan_units(data)
    nunits = sum(len(m["units"]) for m in model)
    if len(positions) != nunits:
        ctx.count("ambiguous_prefix_scan")
        # a prefix inside payload data (or a lost unit): try the deserialiser's offsets to arbitrate
        try:
            dctx, _ = vc2util.deserialise(data)
            offs = [du["parse_info"]["_offset"] for sq in dctx["sequences"] for du in sq["data_units"]]
        except Exception:
            offs = None
        if offs is not None and len(offs) == nunits and set(offs) <= set(positions):
            positions = offs
        else:
            ctx.violation("unit-count", "%d parse_info prefixes found for %d described data units" % (len(positions), nunits))
            return
    k = 0
    for si, m in enumerate(model):
        units = m["units"]
        first = k
        seq_pos = positions[k:k + len(units)]
        expect_version = m["explicit_version"] if m["explicit_version"] is not None else m["min_version"]
        for i, u in enumerate(units):
            off = seq_pos[i]
            pc = data[off + 4]
            nxt, prv = struct.unpack(">II", data[off + 5:off + 13])
            kind = PC_KIND.get(pc)
            if kind != u["kind"]:
                ctx.violation("unit-kind", "unit %d of sequence %d has parse code 0x%02X, described as %s" % (i, si, pc, u["kind"]))
                return
            last = i == len(units) - 1
            true_next = 0 if last else seq_pos[i + 1] - off
            true_prev = 0 if i == 0 else off - seq_pos[i - 1]
            if "explicit_next_parse_offset" in u:
                ctx.count("explicit_offsets_checked")
                if nxt != u["explicit_next_parse_offset"]:
                    ctx.violation("explicit-next-offset-changed", "explicit next_parse_offset %d came out as %d" % (u["explicit_next_parse_offset"], nxt))
            elif nxt != true_next:
                ctx.violation("next-parse-offset", "%s unit %d/%d of sequence %d: next_parse_offset %d, true distance %d"
                              % (u["kind"], i, len(units), si, nxt, true_next))
            if "explicit_previous_parse_offset" in u:
                ctx.count("explicit_offsets_checked")
                if prv != u["explicit_previous_parse_offset"]:
                    ctx.violation("explicit-previous-offset-changed", "explicit previous_parse_offset %d came out as %d" % (u["explicit_previous_parse_offset"], prv))
            elif prv != true_prev:
                ctx.violation("previous-parse-offset", "%s unit %d of sequence %d: previous_parse_offset %d, true distance %d"
                              % (u["kind"], i, si, prv, true_prev))
            ctx.count("offsets_checked", 2)
            if kind in ("picture", "fragment"):
                pn = struct.unpack(">I", data[off + 13:off + 17])[0]
                ctx.count("picture_numbers_checked")
                if pn != u["pn"]:
                    ctx.violation("picture-number:" + u["pn_mode"] + (":fragment" if kind == "fragment" else ""),
                                  "%s unit %d of sequence %d carries picture number %d, expected %d (%s)"
                                  % (kind, i, si, pn, u["pn"], u["pn_mode"]))
            if kind in ("padding_data", "auxiliary_data"):
                end = seq_pos[i + 1]
                if data[off + 13:end] != u["payload"]:
                    ctx.violation("payload-changed", "%s payload differs from the description" % kind)
                ctx.count("payloads_checked")
            if kind == "sequence_header":
                mv, _ = read_uint_at(data, (off + 13) * 8)
                ctx.count("versions_checked:" + m["mv_mode"])
                want_mv = expect_version
                if "mv_explicit" in u:
                    want_mv = u["mv_explicit"] if u["mv_explicit"] is not None else m["min_version"]
                    ctx.count("repeated_headers_with_their_own_version_mode")
                if mv != want_mv:
                    if ("mv_explicit" in u and u["mv_explicit"] is not None) or ("mv_explicit" not in u and m["explicit_version"] is not None):
                        ctx.violation("explicit-major-version-changed", "explicit major_version %d came out as %d" % (want_mv, mv))
                    else:
                        ctx.violation("auto-major-version", "automatic major_version %d, features require %d (family %s, %d pictures, header replaced %s)"
                                      % (mv, m["min_version"], m["family"], m["npic"], m["replaced"]))
        k += len(units)
    # ---- remaining header fields through the deserialiser
    wrong_offsets = any(k2.startswith("explicit_") for m in model for u in m["units"] for k2 in u)
    try:
        dctx, _ = vc2util.deserialise(data)
    except Exception as e:
        if not wrong_offsets:
            ctx.violation("output-not-deserialisable:" + type(e).__name__, "output of autofill could not be deserialised: %r" % (e,))
        else:
            ctx.count("not_deserialisable_due_to_explicit_wrong_offsets")
        return
    if len(dctx["sequences"]) != len(model):
        if not wrong_offsets:
            ctx.violation("sequence-count", "%d sequences read back, %d described" % (len(dctx["sequences"]), len(model)))
        return
    for sq, m in zip(dctx["sequences"], model):
        if len(sq["data_units"]) != len(m["units"]):
            if not wrong_offsets:
                ctx.violation("unit-count-deserialised", "deserialiser read %d units, %d described" % (len(sq["data_units"]), len(m["units"])))
            return
        for du, u in zip(sq["data_units"], m["units"]):
            if u["kind"] == "sequence_header":
                got = _flatten_header(du["sequence_header"])
                want = u["fields"]
                if got != want:
                    diff = sorted(k2 for k2 in set(got) | set(want) if got.get(k2) != want.get(k2))
                    ctx.violation("header-field:" + diff[0].split(".")[0],
                                  "sequence header fields differ from explicit/default model: %s"
                                  % ", ".join("%s=%r (expected %r)" % (k2, got.get(k2), want.get(k2)) for k2 in diff[:6]),
                                  detail={"replaced": m["replaced"]})
                ctx.count("header_fields_checked", len(want))
            elif u["kind"] == "picture" and u.get("etp_expect"):
                tp = du["picture_parse"]["wavelet_transform"]["transform_parameters"]
                got = {k2: (bool(v) if k2.endswith("_flag") else int(v)) for k2, v in tp.get("extended_transform_parameters", {}).items()}
                ctx.count("explicit_etp_checked")
                if got != u["etp_expect"]:
                    ctx.violation("explicit-extended-transform-parameters-changed",
                                  "explicit extended transform parameters %r behind an explicit version-3 header came out as %r" % (u["etp_expect"], got))
            elif u["kind"] == "picture" and u.get("default"):
                wt = du["picture_parse"]["wavelet_transform"]
                tp = wt["transform_parameters"]
                got = {"wavelet_index": int(tp["wavelet_index"]), "dwt_depth": int(tp["dwt_depth"])}
                got.update({k2: int(v) for k2, v in tp["slice_parameters"].items() if not k2.startswith("_")})
                got["custom_quant_matrix"] = int(tp["quant_matrix"]["custom_quant_matrix"])
                want = dict(DEFAULTS["TransformParameters"])
                sp = dict(DEFAULTS["SliceParameters"])
                hq = "slice_prefix_bytes" in got
                for k2 in (("slice_bytes_numerator", "slice_bytes_denominator") if hq else ("slice_prefix_bytes", "slice_size_scaler")):
                    sp.pop(k2)
                want.update(sp)
                want["custom_quant_matrix"] = 0
                if got != want:
                    ctx.violation("picture-default-field", "default-only picture read back as %r, documented defaults %r" % (got, want))
                td = wt["transform_data"]
                sl = td.get("hq_slices", td.get("ld_slices"))
                if len(sl) != 1 or int(sl[0]["qindex"]) != 0 or any(v != 0 for v in sl[0]["y_transform"]):
                    ctx.violation("picture-default-slice", "default-only picture slice content is not all-default")
                ctx.count("default_pictures_checked")
    if ctx.rng.random() < 0.0008:
        ctx.sample({"dseed": case["dseed"], "signature": sig})


def floor(agg, tier):
    c = agg["counters"]
    s = 1 if tier == "quick" else 50
    miss = []
    for k, n in (("serialised", 12000), ("offsets_checked", 80000), ("picture_numbers_checked", 30000), ("payloads_checked", 5000),
                 ("header_fields_checked", 100000), ("versions_checked:auto", 5000), ("versions_checked:omit", 5000),
                 ("versions_checked:explicit", 3000), ("explicit_offsets_checked", 5000), ("default_pictures_checked", 250),
                 ("sequences_with_default_only_fragments", 200), ("sequences_with_omitted_fragment_header_defaults", 1500)):
        if c.get(k, 0) < n * s:
            miss.append("%s = %d < %d" % (k, c.get(k, 0), n * s))
    if c.get("ambiguous_prefix_scan", 0) > 0.001 * c.get("serialised", 1):
        miss.append("too many ambiguous prefix scans")
    return miss
