"""C17 — constraint-table queries follow set semantics.

Three sub-strata, all "history + model":

(a) ValueSet operation histories on a small pool of live ValueSet/AnyValue
    objects, mirrored on R-set (frozenset / ANY); after every operation the
    touched object and its operands are compared with the model over the whole
    probe universe; at the end iter_values, the iteration listing and pairwise
    is_disjoint (both directions) are compared.
(b) random constraint tables without catch-all columns: the stated
    equivalence allowed_values_for <-> is_allowed_combination (real vs real,
    and both vs the documented semantics), and the incremental check performed
    by the REAL decoder.assertions.assert_level_constraint (table swapped into
    its LEVEL_CONSTRAINTS, restored afterwards) vs "every prefix is allowed".
(c) CSV text rendered from a model table, written to a real file and read with
    read_constraints_from_csv, compared cell by cell.
"""
import atexit
import os
import random
import shutil
import tempfile

from vlib import jsonx
from vlib.gen import csvtext
from vlib.ref import valueset as R

PROPERTY = "C17"
LEVEL = "exploration"
TECHNIQUE = ("runtime monitoring: random operation histories on live ValueSet objects, random constraint tables queried through "
             "allowed_values_for / is_allowed_combination / the real assert_level_constraint, and generated CSV files read by "
             "read_constraints_from_csv, each vs a frozenset model (R-set)")
RULE = (
    "(a) case = history of 3-14 operations (construct empty / from mixed values and (lo,hi) tuples / AnyValue, add_value, add_range "
    "[random, adjacent, overlapping, nested, covering, single-point; always lo<=hi], a+b into a new object, a=a+b, a+a) over a pool of "
    "<=5 sets; integer histories draw from 0..31 plus True/False, string histories use values only; probe universe -2..34, both bools "
    "(strings for string histories); distinct = distinct operation list with arguments; histories with neither a range nor a union are trivial. "
    "(b) case = (table of 2-5 keys x 1-5 columns, cells value list / range / mixed / AnyValue / empty / key absent, never an empty column) x "
    "(partial assignment | ordered sequence of (key, value) with optional identical re-assertion); every key not chosen (plus an unknown key) "
    "x every value of 0..8, True, False is queried; assignments not themselves allowed are trivial. "
    "(c) case = CSV specification of 1-6 keys x 1-6 columns (ints>=0, lo-hi ranges, TRUE/FALSE, comma lists with/without space, any, empty, "
    "ditto as \" or curly quote incl. first column and after any, comment rows, blank rows, short rows, LF/CRLF, optional final newline); distinct = distinct text"
)
ASSUMPTIONS = [
    "ranges are generated with lo <= hi (the documented form) and only over integers/bools; strings are never mixed into sets that hold ranges (comparison of str with int is undefined in Python)",
    "tables never contain an empty-dict (catch-all) column, as the property says; columns may omit some keys (ragged CSV rows produce such columns)",
    "'is an allowed combination' is read as documented in constraint_table.py: some column defines every given key and contains every given value; the real is_allowed_combination is compared with that reading and, separately, with allowed_values_for (the relation the property states)",
    "the incremental check is run through the real assert_level_constraint with LEVEL_CONSTRAINTS swapped; sequences use distinct keys, optionally re-asserting an identical value; re-asserting a different value is outside the stated prefix equivalence; it is judged separately (stratum b3) against the documented update semantics of assert_level_constraint (value must be in allowed_values_for(table, key, recorded values), then replaces the recorded value)",
    "a rejected value ends the sequence (the validator aborts at the first ValueNotAllowedInLevel)",
    "CSV: keys are unique non-empty identifiers not starting with '#'; bool cells hold only TRUE/FALSE (so the documented conversion to bool can be observed without the True==1 ambiguity); comment rows consist only of empty and '#'-prefixed cells; a short row leaves the key undefined in the columns it does not reach; ditto with nothing to its left denotes no values",
    "iter_values() is compared as a set (the statement is about content, not multiplicity)",
]
CASE_TIMEOUT_S = 300

_TMP = None


def setup(ctx):
    global _TMP
    try:  # safety net against runaway allocations
        import resource

        resource.setrlimit(resource.RLIMIT_AS, (4 << 30, 4 << 30))
    except Exception:
        pass
    # a real directory of real files; a RAM-backed one when the platform has it (50x cheaper open())
    shm = "/dev/shm"
    _TMP = tempfile.mkdtemp(prefix="c17-", dir=shm if os.path.isdir(shm) and os.access(shm, os.W_OK) else None)
    atexit.register(shutil.rmtree, _TMP, True)


def teardown(ctx):
    if _TMP:
        shutil.rmtree(_TMP, ignore_errors=True)


def plan(tier, seed):
    if tier == "quick":
        nsh, na, nb, nc = 16, 12000, 1400, 5000
    else:
        nsh, na, nb, nc = 64, 80000, 10000, 36000
    return [{"shard": s, "nshards": nsh, "a": na, "b": nb, "c": nc} for s in range(nsh)]


BATCH = {"a": 250, "b": 50, "c": 100}


def cases(spec, ctx):
    for stratum in ("a", "b", "c"):
        n = spec[stratum]
        b = BATCH[stratum]
        for i in range(0, n, b):
            yield {"stratum": stratum, "seed": "%s/C17/%s/%d/%d" % (ctx.seed, stratum, spec["shard"], i), "n": min(b, n - i)}


def run_case(case, ctx):
    rng = random.Random(case["seed"])
    fn = {"a": history_case, "b": table_case, "c": csv_case}[case["stratum"]]
    for i in range(case["n"]):
        fn(random.Random("%s/%d" % (case["seed"], i)), ctx, "%s/%d" % (case["seed"], i))


# =============================================================================
# (a) ValueSet histories
# =============================================================================

INT_PROBES = list(range(-2, 35)) + [True, False]
STR_VALUES = ["a", "b", "c", "tomato", "", "red"]
STR_PROBES = STR_VALUES + ["z", 0, 1, 5]


def _rand_range(rng, model_sets):
    """A (lo, hi, kind) with lo <= hi, biased towards interacting with what exists."""
    anchors = sorted(set(int(x) for s in model_sets if not R.is_any(s) for x in s))
    k = rng.choice(["random", "random", "adjacent-above", "adjacent-below", "overlap", "nested", "covering", "point", "bridge"])
    if not anchors and k not in ("random", "point"):
        k = "random"
    if k == "random":
        lo = rng.randrange(0, 32)
        hi = rng.randrange(lo, 32)
    elif k == "point":
        lo = hi = rng.randrange(0, 32)
    elif k == "adjacent-above":
        lo = min(31, rng.choice(anchors) + 1)
        hi = min(31, lo + rng.randrange(0, 5))
    elif k == "adjacent-below":
        hi = max(0, rng.choice(anchors) - 1)
        lo = max(0, hi - rng.randrange(0, 5))
    elif k == "overlap":
        a = rng.choice(anchors)
        lo = max(0, a - rng.randrange(0, 4))
        hi = min(31, a + rng.randrange(0, 4))
    elif k == "nested":
        a, b = rng.choice(anchors), rng.choice(anchors)
        lo, hi = min(a, b), max(a, b)
        if hi - lo >= 2 and rng.random() < 0.7:
            lo, hi = lo + 1, hi - 1
    elif k == "covering":
        lo = max(0, min(anchors) - rng.randrange(0, 3))
        hi = min(31, max(anchors) + rng.randrange(0, 3))
    else:  # bridge two existing members
        a, b = rng.choice(anchors), rng.choice(anchors)
        lo, hi = min(a, b), max(a, b)
    return lo, hi, k


def _rand_value(rng, mode):
    if mode == "str":
        return rng.choice(STR_VALUES)
    r = rng.random()
    if r < 0.08:
        return rng.choice([True, False])
    return rng.randrange(0, 32)


def history_case(rng, ctx, label):
    from vc2_conformance.constraint_table import ValueSet, AnyValue

    mode = "str" if rng.random() < 0.12 else "int"
    probes = STR_PROBES if mode == "str" else INT_PROBES
    real = []
    model = []
    oplist = []
    nontrivial = False
    failed = [False]

    def violation(sig, what):
        failed[0] = True
        ctx.violation(sig, what, detail={"history": oplist, "mode": mode, "case": label})

    def check(i, after):
        """membership of pool[i] over the probe universe vs model."""
        r, m = real[i], model[i]
        for v in probes:
            try:
                got = v in r
            except Exception as e:
                violation("valueset:exception:contains:" + type(e).__name__, "%r in %r raised %r (after %s)" % (v, r, e, after))
                return False
            if got != R.contains(m, v):
                violation("valueset:contains-differs:after-" + after.split(":")[0],
                          "%r in %r is %r, model %s says %r (after %s)" % (v, r, got, _show(m), R.contains(m, v), after))
                return False
        ctx.count("a:membership_sweeps")
        return True

    nops = rng.randrange(3, 15)
    for step in range(nops):
        if not real:
            op = rng.choice(["new_empty", "new_args", "new_args", "new_any"])
        else:
            op = rng.choice(["new_empty", "new_args", "new_args", "new_any", "add_value", "add_value", "add_range", "add_range",
                             "add_range", "add_range", "union_new", "union_new", "union_assign", "union_assign", "union_self"])
        if len(real) >= 5 and op.startswith("new") or (len(real) >= 5 and op == "union_new"):
            op = rng.choice(["add_value", "add_range", "union_assign"])
        if mode == "str" and op == "add_range":
            op = "add_value"
        label_op = op
        try:
            if op == "new_empty":
                real.append(ValueSet())
                model.append(R.empty())
                oplist.append([op])
                touched = [len(real) - 1]
            elif op == "new_any":
                real.append(AnyValue())
                model.append(R.ANY)
                oplist.append([op])
                touched = [len(real) - 1]
            elif op == "new_args":
                args = []
                items = []
                for _ in range(rng.randrange(0, 5)):
                    if mode == "int" and rng.random() < 0.5:
                        lo, hi, k = _rand_range(rng, [R.of_items(items)] + model)
                        args.append((lo, hi))
                        items.append(("r", lo, hi))
                        ctx.count("a:range_kind:" + k)
                        nontrivial = True
                    else:
                        v = _rand_value(rng, mode)
                        args.append(v)
                        items.append(("v", v))
                real.append(ValueSet(*args))
                model.append(R.of_items(items))
                oplist.append([op, [list(a) if isinstance(a, tuple) else a for a in args]])
                touched = [len(real) - 1]
            elif op == "add_value":
                i = rng.randrange(len(real))
                v = _rand_value(rng, mode)
                oplist.append([op, i, v])
                real[i].add_value(v)
                if not R.is_any(model[i]):
                    model[i] = model[i] | R.of_value(v)
                touched = [i]
            elif op == "add_range":
                i = rng.randrange(len(real))
                lo, hi, k = _rand_range(rng, [model[i]] if rng.random() < 0.8 else model)
                oplist.append([op, i, lo, hi])
                label_op = op + ":" + k
                ctx.count("a:range_kind:" + k)
                real[i].add_range(lo, hi)
                if not R.is_any(model[i]):
                    model[i] = model[i] | R.of_range(lo, hi)
                touched = [i]
                nontrivial = True
            else:
                i = rng.randrange(len(real))
                j = i if op == "union_self" else rng.randrange(len(real))
                oplist.append([op, i, j])
                res = real[i] + real[j]
                mres = R.union(model[i], model[j])
                nontrivial = True
                if R.is_any(model[i]) or R.is_any(model[j]):
                    label_op = op + ":any"
                    ctx.count("a:union_with_any")
                if res is real[i] or res is real[j]:
                    # allowed only if nothing observable changes; operands are checked below
                    ctx.count("a:union_returned_operand")
                # operands must be unchanged
                for x in sorted(set([i, j])):
                    if not check(x, label_op + ":operand"):
                        violation("valueset:operand-mutated:" + op, "operand %d of %s changed" % (x, op))
                if op == "union_assign":
                    real[i] = res
                    model[i] = mres
                    touched = [i]
                else:
                    real.append(res)
                    model.append(mres)
                    touched = [len(real) - 1]
                    if len(real) > 6:
                        real.pop(0)
                        model.pop(0)
                        touched = [len(real) - 1]
        except Exception as e:
            violation("valueset:exception:%s:%s" % (op, type(e).__name__), "%s raised %r" % (oplist[-1] if oplist else op, e))
            break
        ctx.count("a:op:" + op)
        ok = all(check(i, label_op) for i in touched)
        if not ok:
            break

    if not failed[0]:
        # final observations on every pool member
        for i, (r, m) in enumerate(zip(real, model)):
            if not check(i, "end"):
                break
            if R.is_any(m):
                continue
            try:
                vals = list(r.iter_values())
                listing = list(iter(r))
            except Exception as e:
                violation("valueset:exception:iter:" + type(e).__name__, "iterating %r raised %r" % (r, e))
                break
            ctx.count("a:iter_values_checked")
            if len(vals) != len(set(vals)):
                ctx.count("a:iter_values_with_duplicates")
            if set(vals) != set(m):
                violation("valueset:iter_values-differs", "iter_values of %r gives %r, model %s" % (r, sorted(vals, key=repr), _show(m)))
                break
            if mode == "int":
                exp = set()
                for it in listing:
                    if isinstance(it, tuple):
                        exp.update(range(it[0], it[1] + 1))
                    else:
                        exp.add(it)
                if exp != set(m):
                    violation("valueset:listing-differs", "iteration of %r lists %r, model %s" % (r, listing, _show(m)))
                    break
        # disjointness, every ordered pair (incl. with itself)
        if not failed[0]:
            for i in range(len(real)):
                for j in range(len(real)):
                    want = R.disjoint(model[i], model[j])
                    try:
                        got = real[i].is_disjoint(real[j])
                    except Exception as e:
                        violation("valueset:exception:is_disjoint:" + type(e).__name__, "%r.is_disjoint(%r) raised %r" % (real[i], real[j], e))
                        break
                    kind = _dj_kind(model[i]) + "-vs-" + _dj_kind(model[j])
                    ctx.count("a:disjoint_%s" % ("true" if want else "false"))
                    ctx.count("a:disjoint_kind:" + kind)
                    if bool(got) != want:
                        violation("valueset:is_disjoint-differs:" + kind,
                                  "%r.is_disjoint(%r) = %r, model %s / %s says %r" % (real[i], real[j], got, _show(model[i]), _show(model[j]), want))
                        break
                if failed[0]:
                    break
    ctx.count("a:histories")
    ctx.count("a:histories_" + mode)
    ctx.maxi("max_a_history_len", len(oplist))
    ctx.seen(jsonx.key_hash(["a", mode, oplist]), nontrivial=nontrivial)
    if ctx.rng.random() < 0.0005:
        ctx.sample({"stratum": "a", "mode": mode, "history": oplist, "final": [_show(m) for m in model]})


def _dj_kind(m):
    if R.is_any(m):
        return "any"
    if not m:
        return "empty"
    return "set"


def _show(m):
    if R.is_any(m):
        return "ANY"
    return "{" + ", ".join(repr(x) for x in sorted(m, key=lambda x: (str(type(x)), x))) + "}"


# =============================================================================
# (b) tables
# =============================================================================

TABLE_VALUES = list(range(0, 9)) + [True, False]
KEYS = ["a", "b", "c", "d", "e"]


def gen_table(rng):
    nkeys = rng.randrange(2, 6)
    ncols = rng.randrange(1, 6)
    keys = KEYS[:nkeys]
    table = []
    style = rng.choice(["mixed", "mixed", "values", "dense-any", "near-duplicate"])
    for c in range(ncols):
        col = {}
        if style == "near-duplicate" and table and rng.random() < 0.7:
            col = {k: list(v) for k, v in table[-1].items()}
            k = rng.choice(keys)
            col[k] = _gen_tcell(rng, style)
            table.append(col)
            continue
        for k in keys:
            if rng.random() < 0.08:
                continue
            col[k] = _gen_tcell(rng, style)
        if not col:
            col[rng.choice(keys)] = _gen_tcell(rng, style)
        table.append(col)
    return keys, table


def _gen_tcell(rng, style):
    r = rng.random()
    p_any = 0.4 if style == "dense-any" else (0.0 if style == "values" else 0.15)
    if r < p_any:
        return ["any"]
    if r < p_any + 0.08:
        return ["items", []]
    items = []
    for _ in range(rng.choice([1, 1, 2, 3])):
        q = rng.random()
        if q < 0.3 and style != "values":
            lo = rng.randrange(0, 8)
            hi = min(8, lo + rng.randrange(0, 4))
            items.append(["r", lo, hi])
        elif q < 0.4:
            items.append(["v", rng.choice([True, False])])
        else:
            items.append(["v", rng.randrange(0, 9)])
    return ["items", items]


def _cell_model(cell):
    if cell[0] == "any":
        return R.ANY
    return R.of_items([tuple(i) for i in cell[1]])


def _cell_real(cell):
    from vc2_conformance.constraint_table import ValueSet, AnyValue

    if cell[0] == "any":
        return AnyValue()
    return ValueSet(*[(i[1], i[2]) if i[0] == "r" else i[1] for i in cell[1]])


def _gen_assignment(rng, keys, table, mtable):
    """dict key -> value, often allowed."""
    strat = rng.choice(["from-column", "from-column", "from-column", "perturbed", "random", "empty", "two-columns"])
    if strat == "empty":
        return {}, strat
    if strat == "random":
        ks = rng.sample(keys, rng.randrange(1, len(keys) + 1))
        return {k: rng.choice(TABLE_VALUES) for k in ks}, strat
    col = rng.choice(mtable)
    ks = [k for k in keys if k in col and rng.random() < 0.6]
    out = {}
    for k in ks:
        src = col
        if strat == "two-columns" and rng.random() < 0.5:
            src = rng.choice(mtable)
        s = src.get(k, R.empty())
        if R.is_any(s) or not s:
            out[k] = rng.choice(TABLE_VALUES)
        else:
            out[k] = rng.choice(sorted(s, key=lambda x: (int(x), isinstance(x, bool))))
    if strat == "perturbed" and out:
        k = rng.choice(sorted(out))
        out[k] = rng.choice(TABLE_VALUES)
    return out, strat


def table_case(rng, ctx, label):
    from vc2_conformance.constraint_table import allowed_values_for, is_allowed_combination

    keys, tspec = gen_table(rng)
    try:
        table = [{k: _cell_real(c) for k, c in col.items()} for col in tspec]
    except Exception as e:
        ctx.violation("table:exception:construct:" + type(e).__name__, "building table %r raised %r" % (tspec, e), detail={"case": label})
        return
    mtable = [{k: _cell_model(c) for k, c in col.items()} for col in tspec]
    ctx.count("b:tables")
    ctx.count("b:tables_with_partial_columns", int(any(len(c) < len(keys) for c in tspec)))
    ctx.count("b:tables_with_any", int(any(c[0] == "any" for col in tspec for c in col.values())))

    # ---- b1: allowed_values_for <=> is_allowed_combination -----------------------------
    for _ in range(4):
        chosen, strat = _gen_assignment(rng, keys, tspec, mtable)
        chosen_ok = R.is_allowed(mtable, chosen)
        ctx.count("b1:assignments")
        ctx.count("b1:assignment_strategy:" + strat)
        ctx.count("b1:assignment_allowed" if chosen_ok else "b1:assignment_not_allowed")
        bad = False
        qkeys = [k for k in keys if k not in chosen] + (["unknown_key"] if rng.random() < 0.3 else [])
        for k in qkeys:
            try:
                if not chosen and rng.random() < 0.5:
                    avs = allowed_values_for(table, k)
                else:
                    avs = allowed_values_for(table, k, dict(chosen))
            except Exception as e:
                ctx.violation("table:exception:allowed_values_for:" + type(e).__name__, "allowed_values_for raised %r" % (e,),
                              detail={"table": tspec, "key": k, "chosen": chosen, "case": label})
                bad = True
                break
            mav = R.allowed_for(mtable, k, chosen)
            for v in TABLE_VALUES:
                cand = dict(chosen)
                cand[k] = v
                try:
                    in_av = v in avs
                    comb = is_allowed_combination(table, cand)
                except Exception as e:
                    ctx.violation("table:exception:query:" + type(e).__name__, "query raised %r" % (e,),
                                  detail={"table": tspec, "key": k, "chosen": chosen, "value": v, "case": label})
                    bad = True
                    break
                want = R.is_allowed(mtable, cand)
                assert want == R.contains(mav, v)  # the two readings of the model agree by construction
                ctx.count("b1:queries")
                ctx.count("b1:query_allowed" if want else "b1:query_not_allowed")
                det = {"table": tspec, "key": k, "chosen": chosen, "value": v, "in_allowed_values_for": in_av,
                       "is_allowed_combination": comb, "model": want, "case": label}
                if bool(in_av) != bool(comb):
                    ctx.violation("table:allowed-values-vs-combination",
                                  "%r in allowed_values_for(t, %r, %r) is %r but is_allowed_combination(t, chosen+{%r: %r}) is %r"
                                  % (v, k, chosen, in_av, k, v, comb), detail=det)
                    bad = True
                elif bool(comb) != want:
                    ctx.violation("table:is_allowed_combination-vs-documented-semantics",
                                  "is_allowed_combination(t, %r) is %r, documented semantics give %r" % (cand, comb, want), detail=det)
                    bad = True
                if bad:
                    break
            if bad:
                break
        ctx.seen(jsonx.key_hash(["b1", tspec, sorted(chosen.items())]), nontrivial=chosen_ok)

    # ---- b2: incremental check through the real assert_level_constraint --------------
    for _ in range(3):
        seq, strat = _gen_sequence(rng, keys, tspec, mtable)
        incremental(ctx, table, mtable, tspec, seq, strat, label)
    # ---- b3: a key asserted again with a DIFFERENT value (as the validator does for per-picture parameters) ------
    for _ in range(2):
        seq, strat = _gen_sequence(rng, keys, tspec, mtable)
        seq = [p for p in seq if p[0] != "unknown_key"]
        if not seq:
            continue
        i = rng.randrange(len(seq))
        k, v = seq[i]
        others = sorted(set(x for col in mtable if k in col and not R.is_any(col[k]) for x in col[k]) - {v},
                        key=lambda x: (int(x), isinstance(x, bool)))
        v2 = rng.choice(others) if others and rng.random() < 0.8 else rng.choice(TABLE_VALUES)
        j = rng.randrange(i + 1, len(seq) + 1)
        seq.insert(j, [k, v2])
        reassert_different(ctx, table, mtable, tspec, seq, label)
    if ctx.rng.random() < 0.002:
        ctx.sample({"stratum": "b", "table": tspec})


def reassert_different(ctx, table, mtable, tspec, seq, label):
    """Documented behaviour of assert_level_constraint: the value must be among allowed_values_for(table, key, values
    recorded so far) and is then recorded (replacing an earlier value of the same key)."""
    from vc2_conformance.decoder import assertions
    from vc2_conformance.decoder.exceptions import ValueNotAllowedInLevel
    from vc2_conformance.pseudocode.state import State

    recorded = {}
    want_reject = None
    for i, (k, v) in enumerate(seq):
        s = R.allowed_for(mtable, k, recorded)
        if not (R.is_any(s) or v in s):
            want_reject = i
            break
        recorded[k] = v
    state = State()
    got_reject = None
    saved = assertions.LEVEL_CONSTRAINTS
    assertions.LEVEL_CONSTRAINTS = table
    try:
        for i, (k, v) in enumerate(seq):
            try:
                assertions.assert_level_constraint(state, k, v)
            except ValueNotAllowedInLevel:
                got_reject = i
                break
            except Exception as e:
                ctx.violation("table:exception:assert_level_constraint:" + type(e).__name__, "assert_level_constraint raised %r" % (e,),
                              detail={"table": tspec, "sequence": seq, "at": i, "case": label})
                return
    finally:
        assertions.LEVEL_CONSTRAINTS = saved
    ctx.count("b3:sequences")
    ctx.count("b3:sequences_accepted" if want_reject is None else "b3:sequences_rejected")
    if got_reject != want_reject:
        kind = "accepts-disallowed" if (got_reject is None or (want_reject is not None and got_reject > want_reject)) else "rejects-allowed"
        ctx.violation("table:incremental-reassert-different:" + kind,
                      "with a key asserted again with a different value the one-at-a-time check rejects at %r, documented update semantics at %r"
                      % (got_reject, want_reject), detail={"table": tspec, "sequence": seq, "case": label})
    elif got_reject is None:
        got = dict(state.get("_level_constrained_values", {}))
        if got != recorded:
            ctx.violation("table:incremental-reassert-different:recorded-values", "recorded values %r, expected %r" % (got, recorded),
                          detail={"table": tspec, "sequence": seq, "case": label})
    ctx.seen(jsonx.key_hash(["b3", tspec, seq]), nontrivial=True)


def _gen_sequence(rng, keys, tspec, mtable):
    assign, strat = _gen_assignment(rng, keys, tspec, mtable)
    ks = list(assign)
    rng.shuffle(ks)
    if rng.random() < 0.15:
        ks.insert(rng.randrange(len(ks) + 1), "unknown_key")
        assign["unknown_key"] = rng.choice(TABLE_VALUES)
    # extend with more keys, values drawn to be often acceptable
    for k in keys:
        if k not in assign and rng.random() < 0.5:
            s = R.allowed_for(mtable, k, {x: assign[x] for x in ks})
            if R.is_any(s) or not s or rng.random() < 0.2:
                assign[k] = rng.choice(TABLE_VALUES)
            else:
                assign[k] = rng.choice(sorted(s, key=lambda x: (int(x), isinstance(x, bool))))
            ks.append(k)
    seq = [[k, assign[k]] for k in ks]
    # identical re-assertion of an earlier pair at a later position
    if seq and rng.random() < 0.4:
        i = rng.randrange(len(seq))
        j = rng.randrange(i + 1, len(seq) + 1)
        seq.insert(j, list(seq[i]))
        strat += "+reassert"
    return seq, strat


def incremental(ctx, table, mtable, tspec, seq, strat, label):
    from vc2_conformance.decoder import assertions
    from vc2_conformance.decoder.exceptions import ValueNotAllowedInLevel
    from vc2_conformance.constraint_table import is_allowed_combination
    from vc2_conformance.pseudocode.state import State

    # model: index of the first pair whose prefix dictionary is not allowed
    prefix = {}
    want_reject = None
    for i, (k, v) in enumerate(seq):
        prefix[k] = v
        if not R.is_allowed(mtable, prefix):
            want_reject = i
            break
    state = State()
    got_reject = None
    saved = assertions.LEVEL_CONSTRAINTS
    assertions.LEVEL_CONSTRAINTS = table
    try:
        for i, (k, v) in enumerate(seq):
            try:
                assertions.assert_level_constraint(state, k, v)
                ctx.count("b2:real_asserts_passed")
            except ValueNotAllowedInLevel:
                got_reject = i
                ctx.count("b2:real_asserts_raised")
                break
            except Exception as e:
                ctx.violation("table:exception:assert_level_constraint:" + type(e).__name__,
                              "assert_level_constraint raised %r" % (e,), detail={"table": tspec, "sequence": seq, "at": i, "case": label})
                return
    finally:
        assertions.LEVEL_CONSTRAINTS = saved
    # real whole-dictionary verdict on each prefix (relation real vs real)
    real_prefix_reject = None
    prefix = {}
    for i, (k, v) in enumerate(seq):
        prefix[k] = v
        if not is_allowed_combination(table, prefix):
            real_prefix_reject = i
            break
    ctx.count("b2:sequences")
    ctx.count("b2:strategy:" + strat)
    ctx.count("b2:sequences_accepted" if want_reject is None else "b2:sequences_rejected")
    if "+reassert" in strat:
        ctx.count("b2:reassert_accepted" if want_reject is None else "b2:reassert_rejected")
    ctx.maxi("max_b2_sequence_len", len(seq))
    det = {"table": tspec, "sequence": seq, "incremental_rejects_at": got_reject, "model_first_bad_prefix": want_reject,
           "is_allowed_combination_first_bad_prefix": real_prefix_reject, "case": label}
    if got_reject != real_prefix_reject:
        kind = "accepts-disallowed-prefix" if (got_reject is None or (real_prefix_reject is not None and got_reject > real_prefix_reject)) else "rejects-allowed-prefix"
        ctx.violation("table:incremental-vs-whole-dictionary:" + kind,
                      "one-at-a-time check rejects at %r but first prefix refused by is_allowed_combination is %r" % (got_reject, real_prefix_reject), detail=det)
    elif got_reject != want_reject:
        kind = "accepts-disallowed-prefix" if (got_reject is None or (want_reject is not None and got_reject > want_reject)) else "rejects-allowed-prefix"
        ctx.violation("table:incremental-vs-documented-semantics:" + kind,
                      "one-at-a-time check rejects at %r but first disallowed prefix is %r" % (got_reject, want_reject), detail=det)
    ctx.seen(jsonx.key_hash(["b2", tspec, seq]), nontrivial=len(seq) >= 2)


# =============================================================================
# (c) CSV
# =============================================================================


def csv_case(rng, ctx, label):
    from vc2_conformance.constraint_table import read_constraints_from_csv, AnyValue, ValueSet

    spec = csvtext.gen_constraint_spec(rng)
    text = csvtext.render_constraint_csv(spec)
    want = csvtext.expected_columns(spec)
    kinds = {(k, j): kind for k, j, kind in csvtext.cell_kinds(spec)}
    path = os.path.join(_TMP or tempfile.gettempdir(), "t.csv")
    with open(path, "w", encoding="utf-8", newline="") as f:
        f.write(text)
    ctx.count("c:texts")
    for row in spec["rows"]:
        ctx.count("c:rows_" + row["kind"])
        if row["kind"] == "data" and len(row["cells"]) < max((len(r["cells"]) for r in spec["rows"] if r["kind"] == "data"), default=0):
            ctx.count("c:short_rows")
    ctx.count("c:eol_crlf" if spec["eol"] == "\r\n" else "c:eol_lf")
    for kind in kinds.values():
        ctx.count("c:cell:" + kind)
    det = {"text": text, "case": label}
    ncells = len(kinds)
    try:
        got = read_constraints_from_csv(path)
    except Exception as e:
        ctx.violation("csv:exception:" + type(e).__name__, "read_constraints_from_csv raised %r" % (e,), detail=det)
        ctx.seen(jsonx.key_hash(["c", text]), nontrivial=ncells > 0)
        return
    ok = True
    if len(got) != len(want):
        ctx.violation("csv:column-count", "file has %d column(s), table read has %d" % (len(want), len(got)), detail=det)
        ok = False
    else:
        for j, (gc, wc) in enumerate(zip(got, want)):
            if set(gc) != set(wc):
                ctx.violation("csv:column-keys", "column %d defines keys %r, file gives %r" % (j, sorted(gc), sorted(wc)), detail=det)
                ok = False
                break
            for k, wm in wc.items():
                g = gc[k]
                kind = kinds[(k, j)]
                base = kind.replace("+list", "").replace("(curly)", "")
                if not isinstance(g, ValueSet):
                    ctx.violation("csv:cell-type", "cell is %r" % (g,), detail=det)
                    ok = False
                    break
                if R.is_any(wm) != isinstance(g, AnyValue):
                    ctx.violation("csv:cell-differs:" + base, "cell (%s, column %d) [%s]: read %r, file says %s" % (k, j, kind, g, _show(wm)), detail=det)
                    ok = False
                    break
                if R.is_any(wm):
                    ctx.count("c:cells_checked")
                    continue
                vals = list(g.iter_values())
                if set(vals) != set(wm) or any((v in g) != (v in wm) for v in _probe(wm)):
                    ctx.violation("csv:cell-differs:" + base, "cell (%s, column %d) [%s]: read %r, file says %s" % (k, j, kind, g, _show(wm)), detail=det)
                    ok = False
                    break
                # documented conversions: TRUE/FALSE -> bool, integers -> int
                want_bool = bool(wm) and all(isinstance(x, bool) for x in wm)
                if vals and any(isinstance(v, bool) != want_bool for v in vals):
                    ctx.violation("csv:cell-value-type:" + ("bool" if want_bool else "int"),
                                  "cell (%s, column %d) [%s]: values %r have the wrong type" % (k, j, kind, vals), detail=det)
                    ok = False
                    break
                ctx.count("c:cells_checked")
            if not ok:
                break
    ctx.seen(jsonx.key_hash(["c", text]), nontrivial=ncells > 0)
    if ctx.rng.random() < 0.001:
        ctx.sample({"stratum": "c", "text": text})


def _probe(m):
    out = set(range(0, 12))
    for x in m:
        out.update((x - 1, x, x + 1) if not isinstance(x, bool) else (x,))
    return out


# =============================================================================
# floors
# =============================================================================


def floor(agg, tier):
    c = agg["counters"]
    miss = []

    def need(name, n):
        if c.get(name, 0) < n:
            miss.append("%s = %d < %d" % (name, c.get(name, 0), n))

    need("a:histories", 20000)
    need("a:histories_str", 1000)
    need("a:membership_sweeps", 100000)
    need("a:iter_values_checked", 20000)
    for op in ("new_empty", "new_args", "new_any", "add_value", "add_range", "union_new", "union_assign", "union_self"):
        need("a:op:" + op, 2000)
    for k in ("random", "adjacent-above", "adjacent-below", "overlap", "nested", "covering", "point", "bridge"):
        need("a:range_kind:" + k, 1000)
    need("a:union_with_any", 500)
    need("a:disjoint_true", 5000)
    need("a:disjoint_false", 5000)
    for k in ("set-vs-set", "set-vs-any", "any-vs-set", "any-vs-any", "empty-vs-any", "any-vs-empty", "empty-vs-set"):
        need("a:disjoint_kind:" + k, 200)
    need("b:tables", 3000)
    need("b:tables_with_any", 500)
    need("b:tables_with_partial_columns", 300)
    need("b1:assignment_allowed", 3000)
    need("b1:assignment_not_allowed", 1000)
    need("b1:query_allowed", 20000)
    need("b1:query_not_allowed", 20000)
    need("b2:sequences_accepted", 1500)
    need("b2:sequences_rejected", 1500)
    need("b2:real_asserts_passed", 5000)
    need("b2:real_asserts_raised", 1500)
    need("b2:reassert_accepted", 300)
    need("b3:sequences_accepted", 300)
    need("b3:sequences_rejected", 300)
    need("c:texts", 10000)
    need("c:cells_checked", 50000)
    need("c:rows_comment", 2000)
    need("c:rows_blank", 1000)
    need("c:short_rows", 1000)
    need("c:eol_crlf", 1000)
    for k in ("value", "range", "bool", "any", "empty", "value+list", "range+list", "bool+list", "ditto-first-column", "ditto-after-any",
              "ditto-after-value", "ditto-after-range", "ditto-after-empty", "ditto-after-bool", "ditto-after-nothing"):
        need("c:cell:" + k, 100)
    if sum(v for k, v in c.items() if k.startswith("c:cell:") and k.endswith("(curly)")) < 100:
        miss.append("fewer than 100 curly-quote ditto cells")
    return miss
