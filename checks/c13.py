"""C13 — slices tile every subband; low-delay slice sizes sum exactly.

Monitor shape: function results.  The real `subband_width/height`,
`slice_left/right/top/bottom`, `slices_have_same_dimensions` and `slice_bytes`
are called on every tuple of a bounded box (exhaustively) and on random large
values; the returned bounds are inspected directly (partition of [0, dim)) and
compared with R-slices (vlib/ref/slices.py).
"""
import random

from vlib import jsonx
from vlib.ref import slices as R

PROPERTY = "C13"
LEVEL = "exploration"
TECHNIQUE = (
    "runtime monitoring: results of the real slice-geometry functions on an exhaustively enumerated box and on random large "
    "values, judged by a partition predicate on the observed bounds and closed-form reference dimensions/sums"
)
RULE = (
    "geometry evaluation = one tuple (luma w, h, chroma format, dwt_depth, dwt_depth_ho, slices_x, slices_y): for Y, C1, C2 and every "
    "level 0..depth+ho (plus the padded top level) the real subband_width/height are compared with the closed form, all slices_x left/right "
    "and slices_y top/bottom bounds are fetched and must form an in-order gap-free disjoint cover of [0, dim), and the real "
    "slices_have_same_dimensions flag must equal 'all observed slices of every band of every component have one size'. Box: w 1..W, h 1..H, "
    "depth 0..D, ho 0..D, slices_x 1..(luma DC width + 2), slices_y 1..(luma DC height + 2), chroma formats 4:4:4, 4:2:2, 4:2:0 (chroma dims "
    "rounded up) - enumerated completely (quick W,H,D = 24,12,3; thorough 56,28,4); plus random tuples with dimensions up to 2^64, depth "
    "up to 6 and up to 160 slices. Low-delay evaluation = one state (slices_x, slices_y, numerator, denominator): slice_bytes of every "
    "slice must be >= 0 and sum to floor(slices*num/den); all factorisations of 1..N slices x num 1..NUM x den 1..DEN with num >= den "
    "enumerated completely (quick 40,200,50; thorough 64,400,100) plus random values up to 2^64 (also num < den). Distinct = distinct tuple "
    "(box tuples are distinct by enumeration and counted; random tuples are registered by key); a geometry tuple with a single slice and an "
    "LD state with a single slice are trivial."
)
ASSUMPTIONS = [
    "chroma component sizes for the box are the luma size halved and rounded up (so that every luma size down to 1x1 gives a non-empty chroma component); random tuples also use independent chroma sizes",
    "the flag's truth is computed from the bounds the real slice_left/right/top/bottom return (what the slices actually are), over every band of luma and both chroma components",
    "slice bounds or per-slice byte counts that differ from the closed form of (13.5.6.2)/(13.5.3.2) while still satisfying the stated partition/sum are only counted (the property states the partition and the sum, not the formula)",
    "the padded size is observed the way the encoder obtains it: subband_width/height at level depth+ho+1",
    "LD numerators smaller than the denominator are included in the random stratum only; the stated identities hold there too (zero-byte slices)",
]
CASE_TIMEOUT_S = 300
STEP_BUDGET = 400_000_000

FORMATS = ("444", "422", "420")


def _params(tier):
    if tier == "quick":
        return dict(W=24, H=12, D=3, ld_n=40, ld_num=200, ld_den=50, rnd_cases=64, rnd_per_case=150, ldr_cases=32, ldr_per_case=600, nshards=16)
    return dict(W=56, H=28, D=4, ld_n=64, ld_num=400, ld_den=100, rnd_cases=512, rnd_per_case=500, ldr_cases=256, ldr_per_case=6000, nshards=64)


def _chroma(w, h, fmt):
    if fmt == "444":
        return w, h
    if fmt == "422":
        return (w + 1) // 2, h
    return (w + 1) // 2, (h + 1) // 2


def _factor_pairs(n):
    return [(a, n // a) for a in range(1, n + 1) if n % a == 0]


def _all_cases(tier, seed):
    p = _params(tier)
    out = []
    for w in range(1, p["W"] + 1):
        for h in range(1, p["H"] + 1):
            for d in range(p["D"] + 1):
                for ho in range(p["D"] + 1):
                    out.append({"kind": "box", "w": w, "h": h, "d": d, "ho": ho})
    for n in range(1, p["ld_n"] + 1):
        for a, b in _factor_pairs(n):
            # split the (num, den) plane so that cases have similar cost
            step = max(1, (p["ld_den"] * 20) // n)
            for den_lo in range(1, p["ld_den"] + 1, step):
                out.append({"kind": "ld", "sx": a, "sy": b, "num_hi": p["ld_num"], "den_lo": den_lo, "den_hi": min(p["ld_den"], den_lo + step - 1)})
    for i in range(p["rnd_cases"]):
        out.append({"kind": "rnd", "n": p["rnd_per_case"], "seed": "%d/C13/rnd/%d" % (seed, i)})
    for i in range(p["ldr_cases"]):
        out.append({"kind": "ldrnd", "n": p["ldr_per_case"], "seed": "%d/C13/ldrnd/%d" % (seed, i)})
    random.Random("C13/plan/" + tier).shuffle(out)
    return out


def plan(tier, seed):
    n = _params(tier)["nshards"]
    return [{"shard": s, "nshards": n} for s in range(n)]


def cases(spec, ctx):
    for c in _all_cases(ctx.tier, ctx.seed)[spec["shard"]::spec["nshards"]]:
        yield c


_F = {}


def _real():
    if not _F:
        from vc2_conformance.pseudocode import slice_sizes as S
        from vc2_conformance.pseudocode.state import State

        for name in ("subband_width", "subband_height", "slice_left", "slice_right", "slice_top", "slice_bottom",
                     "slices_have_same_dimensions", "slice_bytes"):
            _F[name] = getattr(S, name)
        _F["State"] = State
    return _F


def _axis(ctx, what, firsts, lasts, dim, ref_edges, det):
    """Judge one band axis: observed [first, last) ranges vs the partition property."""
    ok, why = R.is_partition(firsts, lasts, dim)
    if not ok:
        ctx.violation("slices:%s-not-a-partition:%s" % (what, why),
                      "%s slice ranges %r do not tile [0, %d): %s" % (what, list(zip(firsts, lasts))[:40], dim, why), detail=det())
        return None
    if firsts != ref_edges[:-1] or lasts != ref_edges[1:]:
        ctx.count("valid_partitions_differing_from_13.5.6.2")
    return True


def _eval_geometry(ctx, w, h, cw, ch, d, ho, sx, sy, tag):
    """One tuple.  Returns False when the real code raised."""
    f = _real()
    f["n"] = f.get("n", 0) + 1
    if (f["n"] // 16) % 2 == 0:
        state = f["State"](luma_width=w, luma_height=h, color_diff_width=cw, color_diff_height=ch, dwt_depth=d, dwt_depth_ho=ho,
                           slices_x=sx, slices_y=sy)
    else:
        # the decoder keeps one state object for a whole stream and rewrites its entries between pictures and
        # sequences: every other run of 16 tuples is evaluated on one long-lived object updated in place
        state = f.setdefault("shared_state", f["State"]())
        state.update(luma_width=w, luma_height=h, color_diff_width=cw, color_diff_height=ch, dwt_depth=d, dwt_depth_ho=ho,
                     slices_x=sx, slices_y=sy)
        ctx.count("tuples_on_reused_state_object")
    sbw, sbh = f["subband_width"], f["subband_height"]
    sl, sr, st, sb = f["slice_left"], f["slice_right"], f["slice_top"], f["slice_bottom"]

    def det(**kw):
        o = {"luma": [w, h], "chroma": [cw, ch], "dwt_depth": d, "dwt_depth_ho": ho, "slices_x": sx, "slices_y": sy}
        o.update(kw)
        return o

    equal = {"Y": True, "C1": True, "C2": True}
    judged_all = True
    slices_exceed = False
    try:
        for c, (dw_, dh_) in (("Y", (w, h)), ("C1", (cw, ch)), ("C2", (cw, ch))):
            pw, ph = R.padded_size(dw_, dh_, d, ho)
            top = d + ho + 1
            opw, oph = sbw(state, top, c), sbh(state, top, c)
            if (opw, oph) != (pw, ph):
                ctx.violation("subband:top-level-differs-from-padded-size",
                              "%s: subband size at level depth+ho+1 is %r, padded component is %r" % (c, (opw, oph), (pw, ph)),
                              detail=det(component=c))
            for level in range(d + ho + 1):
                bw, bh = sbw(state, level, c), sbh(state, level, c)
                rw, rh = R.subband_size(dw_, dh_, d, ho, level)
                if bw != rw:
                    ctx.violation("subband:width-differs-from-padded-over-2^k",
                                  "%s level %d: subband_width %r, expected %d" % (c, level, bw, rw), detail=det(component=c, level=level))
                if bh != rh:
                    ctx.violation("subband:height-differs-from-padded-over-2^k",
                                  "%s level %d: subband_height %r, expected %d" % (c, level, bh, rh), detail=det(component=c, level=level))
                if bw != rw or bh != rh:
                    judged_all = False
                    continue
                lefts = [sl(state, i, c, level) for i in range(sx)]
                rights = [sr(state, i, c, level) for i in range(sx)]
                tops = [st(state, i, c, level) for i in range(sy)]
                bottoms = [sb(state, i, c, level) for i in range(sy)]
                hx = _axis(ctx, "horizontal", lefts, rights, bw, R.slice_edges(bw, sx), lambda: det(component=c, level=level))
                vy = _axis(ctx, "vertical", tops, bottoms, bh, R.slice_edges(bh, sy), lambda: det(component=c, level=level))
                if hx is None or vy is None:
                    judged_all = False
                    continue
                if sx > bw or sy > bh:
                    slices_exceed = True
                if equal[c]:
                    w0 = rights[0] - lefts[0]
                    h0 = bottoms[0] - tops[0]
                    for i in range(1, sx):
                        if rights[i] - lefts[i] != w0:
                            equal[c] = False
                            break
                    else:
                        for i in range(1, sy):
                            if bottoms[i] - tops[i] != h0:
                                equal[c] = False
                                break
                ctx.count("bands_judged")
        flag = f["slices_have_same_dimensions"](state)
    except Exception as e:
        ctx.violation("geometry:exception:" + type(e).__name__, "slice geometry functions raised %r" % (e,), detail=det())
        return False
    if judged_all:
        truth = equal["Y"] and equal["C1"] and equal["C2"]
        if bool(flag) != truth or not isinstance(flag, bool):
            if flag and not truth:
                where = "luma" if not equal["Y"] else "chroma-only"
                ctx.violation("flag:true-but-slices-differ:" + where,
                              "slices_have_same_dimensions is %r but %s slices have different sizes" % (flag, where), detail=det())
            elif truth and not flag:
                ctx.violation("flag:false-but-all-slices-equal", "slices_have_same_dimensions is %r but every slice of every band has one size" % (flag,),
                              detail=det())
            else:
                ctx.violation("flag:not-a-boolean", "slices_have_same_dimensions returned %r" % (flag,), detail=det())
        if truth != R.same_dimensions([(w, h), (cw, ch)], d, ho, sx, sy):
            ctx.count("flag_truth_differs_from_closed_form")
        ctx.count("flag_true" if truth else "flag_false")
        if not truth and equal["Y"]:
            ctx.count("flag_false_because_of_chroma_only")
        if not truth and equal["C1"] and not equal["Y"]:
            ctx.count("flag_false_because_of_luma_only")
    if slices_exceed:
        ctx.count(tag + "_tuples_with_more_slices_than_coefficients")
    return True


def _run_box(case, ctx):
    w, h, d, ho = case["w"], case["h"], case["d"], case["ho"]
    dcw, dch = R.subband_size(w, h, d, ho, 0)
    n = 0
    for fi, fmt in enumerate(FORMATS):
        cw, ch = _chroma(w, h, fmt)
        for sx in range(1, dcw + 3):
            for sy in range(1, dch + 3):
                _eval_geometry(ctx, w, h, cw, ch, d, ho, sx, sy, "box")
                n += 1
    # tuples of the box are distinct by enumeration; they are counted, not registered one by one
    ctx.seen(0, nontrivial=False, n=n)
    ctx.count("box_tuples", n)
    ctx.count("box_nontrivial_tuples", n - len(FORMATS))
    ctx.count("box_cells")
    ctx.count("box_depth:%d,%d" % (d, ho), n)
    ctx.note("box_depths", "%d,%d" % (d, ho))
    ctx.note("box_widths", w)
    ctx.note("box_heights", h)
    pw, ph = R.padded_size(w, h, d, ho)
    if (pw, ph) != (w, h):
        ctx.count("box_cells_needing_padding")
    ctx.maxi("max_box_slices_x", dcw + 2)
    ctx.maxi("max_box_slices_y", dch + 2)
    if (w, h, d, ho) in ((5, 3, 1, 1), (24, 12, 3, 3), (7, 7, 2, 0)):
        f = _real()
        st = f["State"](luma_width=w, luma_height=h, color_diff_width=(w + 1) // 2, color_diff_height=h, dwt_depth=d, dwt_depth_ho=ho,
                        slices_x=dcw + 1, slices_y=2)
        ctx.sample({"kind": "box", "luma": [w, h], "format": "422", "dwt_depth": d, "dwt_depth_ho": ho, "slices_x": dcw + 1, "slices_y": 2,
                    "observed_level0_Y_left_right": [[f["slice_left"](st, i, "Y", 0), f["slice_right"](st, i, "Y", 0)] for i in range(dcw + 1)],
                    "observed_flag": f["slices_have_same_dimensions"](st)}, force=True)


def _rand_dim(rng):
    r = rng.random()
    if r < 0.3:
        return rng.randrange(1, 200)
    if r < 0.6:
        return rng.randrange(1, 1 << 16)
    bits = rng.randrange(17, 65)
    return rng.getrandbits(bits) | (1 << (bits - 1))


def _run_rnd(case, ctx):
    rng = random.Random(case["seed"])
    for _ in range(case["n"]):
        d = rng.randrange(0, 7)
        ho = rng.randrange(0, 7)
        w, h = _rand_dim(rng), _rand_dim(rng)
        mode = rng.choice(FORMATS + ("indep", "indep"))
        if mode == "indep":
            cw, ch = _rand_dim(rng), _rand_dim(rng)
        else:
            cw, ch = _chroma(w, h, mode)
        dcw, dch = R.subband_size(w, h, d, ho, 0)
        ccw, cch = R.subband_size(cw, ch, d, ho, 0)

        def pick(dc, cdc):
            r = rng.random()
            cands = [v for v in (dc, cdc, dc + 1, cdc + 1, dc // 2, dc // 3, 2 * cdc) if 1 <= v <= 160]
            if r < 0.35 and cands:
                return rng.choice(cands)
            if r < 0.5:
                # a divisor-ish value: makes "all equal" reachable for large sizes
                g = rng.choice([1, 2, 3, 4, 5, 6, 8, 12, 16, 30, 64, 120])
                return g
            return rng.randrange(1, 161)

        sx, sy = pick(dcw, ccw), pick(dch, cch)
        _eval_geometry(ctx, w, h, cw, ch, d, ho, sx, sy, "rnd")
        ctx.seen(jsonx.key_hash(["rnd", w, h, cw, ch, d, ho, sx, sy]), nontrivial=sx * sy > 1)
        ctx.count("rnd_tuples")
        ctx.count("rnd_chroma:" + mode)
        ctx.maxi("max_rnd_dim_bits", max(w, h).bit_length())
        ctx.note("rnd_depths", "%d,%d" % (d, ho))


def _ld_state(ctx, state, sx, sy, num, den, tag):
    sbytes = _real()["slice_bytes"]
    state["slice_bytes_numerator"] = num
    state["slice_bytes_denominator"] = den
    n = sx * sy
    try:
        vals = [sbytes(state, x, y) for y in range(sy) for x in range(sx)]
    except Exception as e:
        ctx.violation("ld:exception:" + type(e).__name__, "slice_bytes raised %r" % (e,),
                      detail={"slices_x": sx, "slices_y": sy, "numerator": num, "denominator": den})
        return
    total = sum(vals)
    lo = min(vals)
    if lo < 0:
        ctx.violation("ld:negative-slice-size", "slices %dx%d num %d den %d: a slice has %d bytes" % (sx, sy, num, den, lo),
                      detail={"slices_x": sx, "slices_y": sy, "numerator": num, "denominator": den, "sizes": vals[:64]})
    if total != R.ld_picture_bytes(n, num, den):
        ctx.violation("ld:sum-differs-from-floor",
                      "slices %dx%d num %d den %d: sizes sum to %d, floor(slices*num/den) = %d" % (sx, sy, num, den, total, R.ld_picture_bytes(n, num, den)),
                      detail={"slices_x": sx, "slices_y": sy, "numerator": num, "denominator": den, "sizes": vals[:64]})
    elif lo >= 0 and vals != [R.ld_slice_bytes(k, num, den) for k in range(n)]:
        ctx.count("ld_valid_sizes_differing_from_13.5.3.2")
    if lo == 0:
        ctx.count(tag + "_states_with_zero_byte_slices")
    if max(vals) != lo:
        ctx.count(tag + "_states_with_unequal_slices")
    ctx.count("ld_slices_evaluated", n)


def _run_ld(case, ctx):
    sx, sy = case["sx"], case["sy"]
    state = _real()["State"](slices_x=sx, slices_y=sy)
    n = 0
    for den in range(case["den_lo"], case["den_hi"] + 1):
        for num in range(den, case["num_hi"] + 1):
            _ld_state(ctx, state, sx, sy, num, den, "ld")
            n += 1
    ctx.seen(0, nontrivial=False, n=n)
    ctx.count("ld_states", n)
    if sx * sy > 1:
        ctx.count("ld_nontrivial_states", n)
    ctx.note("ld_slice_counts", sx * sy)
    ctx.note("ld_factorisations", "%dx%d" % (sx, sy))
    if (sx, sy) == (5, 3) and case["den_lo"] == 1:
        st = _real()["State"](slices_x=5, slices_y=3, slice_bytes_numerator=100, slice_bytes_denominator=7)
        ctx.sample({"kind": "ld", "slices_x": 5, "slices_y": 3, "numerator": 100, "denominator": 7,
                    "observed_sizes": [_real()["slice_bytes"](st, x, y) for y in range(3) for x in range(5)]}, force=True)


def _run_ldrnd(case, ctx):
    rng = random.Random(case["seed"])
    State = _real()["State"]
    for _ in range(case["n"]):
        sx = rng.choice([1, 2, 3, rng.randrange(1, 65), rng.randrange(1, 65)])
        sy = rng.choice([1, 2, rng.randrange(1, 33), rng.randrange(1, 33)])
        bits = rng.randrange(1, 65)
        den = rng.getrandbits(bits) | (1 << (bits - 1))
        r = rng.random()
        if r < 0.25:
            num = rng.randrange(1, den + 1)  # num <= den: zero-byte slices
            ctx.count("ldrnd_num_le_den")
        elif r < 0.5:
            num = den * rng.randrange(1, 1000) + rng.choice([0, 1, den - 1, rng.randrange(den)])
        else:
            nb = rng.randrange(1, 65)
            num = rng.getrandbits(nb) | (1 << (nb - 1))
        state = State(slices_x=sx, slices_y=sy)
        _ld_state(ctx, state, sx, sy, num, den, "ldrnd")
        ctx.seen(jsonx.key_hash(["ldrnd", sx, sy, num, den]), nontrivial=sx * sy > 1)
        ctx.count("ldrnd_states")
        ctx.maxi("max_ld_value_bits", max(num, den).bit_length())


def run_case(case, ctx):
    k = case["kind"]
    if k == "box":
        _run_box(case, ctx)
    elif k == "ld":
        _run_ld(case, ctx)
    elif k == "rnd":
        _run_rnd(case, ctx)
    elif k == "ldrnd":
        _run_ldrnd(case, ctx)
    else:
        raise ValueError(k)


def _expected(tier):
    p = _params(tier)
    box = 0
    for w in range(1, p["W"] + 1):
        for h in range(1, p["H"] + 1):
            for d in range(p["D"] + 1):
                for ho in range(p["D"] + 1):
                    dcw, dch = R.subband_size(w, h, d, ho, 0)
                    box += (dcw + 2) * (dch + 2) * len(FORMATS)
    pairs = sum(len(_factor_pairs(n)) for n in range(1, p["ld_n"] + 1))
    ld = pairs * sum(p["ld_num"] - den + 1 for den in range(1, p["ld_den"] + 1))
    return box, ld


def floor(agg, tier):
    p = _params(tier)
    c = agg["counters"]
    s = agg["sets"]
    miss = []
    box, ld = _expected(tier)
    if c.get("box_tuples", 0) != box:
        miss.append("box not enumerated completely: %d of %d tuples" % (c.get("box_tuples", 0), box))
    if c.get("ld_states", 0) != ld:
        miss.append("LD box not enumerated completely: %d of %d states" % (c.get("ld_states", 0), ld))
    if len(s.get("box_depths", ())) != (p["D"] + 1) ** 2:
        miss.append("not every (depth, ho) combination reached")
    if len(s.get("box_widths", ())) != p["W"] or len(s.get("box_heights", ())) != p["H"]:
        miss.append("not every width/height reached")
    for name, least in (("flag_true", 2000), ("flag_false", 2000), ("flag_false_because_of_chroma_only", 500), ("flag_false_because_of_luma_only", 100),
                        ("box_tuples_with_more_slices_than_coefficients", 2000), ("rnd_tuples_with_more_slices_than_coefficients", 20),
                        ("box_cells_needing_padding", 500), ("bands_judged", 100000),
                        ("rnd_tuples", p["rnd_cases"] * p["rnd_per_case"]), ("ldrnd_states", p["ldr_cases"] * p["ldr_per_case"]),
                        ("ldrnd_num_le_den", 100), ("ldrnd_states_with_zero_byte_slices", 50), ("ld_states_with_unequal_slices", 1000),
                        ("rnd_chroma:indep", 100)):
        if c.get(name, 0) < least:
            miss.append("%s = %d < %d" % (name, c.get(name, 0), least))
    if c.get("max_rnd_dim_bits", 0) < 60 or c.get("max_ld_value_bits", 0) < 60:
        miss.append("random strata did not reach 60-bit values")
    if len(s.get("ld_slice_counts", ())) != p["ld_n"]:
        miss.append("not every LD slice count reached")
    if len(s.get("rnd_depths", ())) < 40:
        miss.append("random geometry reached fewer than 40 (depth, ho) combinations")
    return miss


def evidence_extra(agg, tier):
    p = _params(tier)
    box, ld = _expected(tier)
    c = agg["counters"]
    return {
        "distinct_nontrivial": c.get("box_nontrivial_tuples", 0) + c.get("ld_nontrivial_states", 0) + len(agg["distinct"]),
        "distinct_nontrivial_breakdown": {"box (distinct by enumeration)": c.get("box_nontrivial_tuples", 0),
                                          "LD box (distinct by enumeration)": c.get("ld_nontrivial_states", 0),
                                          "random strata (distinct keys registered)": len(agg["distinct"])},
        "exhaustive": False,
        "exhaustive_boxes": [
            "geometry: w 1..%d x h 1..%d x depth 0..%d x ho 0..%d x slices_x 1..DCw+2 x slices_y 1..DCh+2 x {444,422,420}: %d tuples" % (p["W"], p["H"], p["D"], p["D"], box),
            "LD: every factorisation of 1..%d slices x num 1..%d x den 1..%d, num >= den: %d states" % (p["ld_n"], p["ld_num"], p["ld_den"], ld),
        ],
    }
