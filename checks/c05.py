"""C05 — decoder test cases are conformant and decode to their intended pictures.

Monitor: for each generated configuration the real decoder test-case registry
is run (each registered generator separately), every produced stream is
serialised and validated, the picture callbacks are observed and compared with
the reference named by the test case (exact mid-grey, the plain encoding of the
same source, the documented picture numbers).
"""
import os

from vlib import jsonx, vc2util
from vlib.gen import configs

PROPERTY = "C05"
LEVEL = "exploration"
TECHNIQUE = "runtime monitoring: every test case of the real decoder test-case registry is serialised, validated and decoded for generated configurations; callbacks compared with mid-grey / plain-encoding / documented-number references"
RULE = (
    "case = one small codec configuration recipe; every test case the registry yields for it is one evaluation; "
    "distinct = distinct (recipe hash, test case name); configurations are small formats (<= 16x8) over profiles, lossless, "
    "wavelets, depths (dwt_depth + dwt_depth_ho >= 1), slices, fragments, subsampling, coding modes, bit depths <= 12, "
    "default and custom matrices; natural pictures are replaced by the repository's tiny test images"
)
ASSUMPTIONS = [
    "dwt_depth + dwt_depth_ho >= 1 (DESIGN section 7 item 4)",
    "content-preserving variants are compared on component samples (not picture numbers) with the harness's own make_sequence(cf, <same source generator>) decoding",
    "a generator function that raises produces no test cases: reported under its own signature (generator-exception) because the property quantifies over every valid configuration",
]
CASE_TIMEOUT_S = 600
STEP_BUDGET = 3000000000

MID_GREY_CASES = ("static_gray", "padding_data", "slice_padding_data", "slice_prefix_bytes", "slice_size_scaler",
                  "absent_next_parse_offset", "concatenated_sequences", "picture_numbers")
SPRITE_CASES = ("source_parameters_encodings", "repeated_sequence_headers", "extended_transform_parameters")

HEAVY_GENERATORS = ("signal_range",)

_st = {}


def setup(ctx):
    from vc2_conformance_data import NATURAL_PICTURES_FILENAMES

    repo = os.environ.get("VERIF_REPO", "/repo")
    paths = [os.path.join(repo, "tests", "test_images", f) for f in ("square.raw", "wide.raw", "tall.raw")]
    for p in paths:
        if not os.path.exists(p):
            raise RuntimeError("tiny test image missing: " + p)
    del NATURAL_PICTURES_FILENAMES[:]
    NATURAL_PICTURES_FILENAMES.extend(paths)


def plan(tier, seed):
    n = 80 if tier == "quick" else 4800
    nsh = 16 if tier == "quick" else 64
    return [{"shard": i, "n": n // nsh} for i in range(nsh)]


LIGHT_GENERATORS = ("static_gray", "extended_transform_parameters", "slice_size_scaler", "slice_prefix_bytes", "padding_data",
                    "absent_next_parse_offset", "concatenated_sequences", "picture_numbers", "repeated_sequence_headers",
                    "source_parameters_encodings", "custom_quantization_matrix", "default_quantization_matrix",
                    "lossless_quantization")


def _level_case(rng):
    """a configuration under the real level 1 (Sub-SD): the base format's own dimensions, equally sized slices"""
    from vc2_conformance.pseudocode.video_parameters import set_source_defaults
    from vc2_data_tables import BaseVideoFormats

    base = rng.choice([1, 2])  # QSIF525 176x120, QCIF 176x144 (both 4:2:0)
    vp = set_source_defaults(BaseVideoFormats(base))
    prof = rng.choice([0, 3])
    r = dict(base=base, cdf=int(vp["color_diff_format_index"]), pcm=0, ss=int(vp["source_sampling"]), tff=bool(vp["top_field_first"]),
             w=vp["frame_width"], h=vp["frame_height"], cw=vp["clean_width"], ch=vp["clean_height"], lo=vp["left_offset"],
             to=vp["top_offset"], fr=None, par=None, range=None, prim=None, mat=None, tf=None, profile=prof, lossless=False,
             wi=rng.choice([1, 4]), wih=None, d=2, dh=0, sx=2, sy=3, fsc=rng.choice([0, 2, 3]), pb=rng.choice([1200, 1203, 2400]),
             qm=None, level=1, pics={"n": 1, "class": "mid", "seed": 1, "nums": None})
    r["wih"] = r["wi"]
    return r


def _wavelet_sweep_case(k):
    """tiny configuration for the k-th (vertical, horizontal) wavelet pair with a horizontal-only level and a custom matrix"""
    wi, wih = k // 7, k % 7
    return dict(base=0, cdf=0, pcm=0, ss=0, tff=True, w=8, h=4, fr=None, par=None, range=[0, 255, 128, 255], prim=None, mat=None,
                tf=None, profile=3, lossless=bool(k % 2), wi=wi, wih=wih, d=1, dh=1, sx=1, sy=1, fsc=0, pb=None if k % 2 else 64,
                qm={"0": {"L": 0}, "1": {"H": 1}, "2": {"HL": 1, "LH": 1, "HH": 2}}, level=0,
                pics={"n": 1, "class": "mid", "seed": 1, "nums": None})


def cases(spec, ctx):
    # light cases (cheap generators only): every wavelet pair with an asymmetric transform, and the real level 1
    nsh = 16 if spec.get("tier", "quick") == "quick" else 64
    for k in range(49):
        if k % nsh == spec["shard"] % nsh:
            yield {"recipe": _wavelet_sweep_case(k), "light": True, "heavy": False}
    # ... and every pair of different wavelets WITHOUT a horizontal-only level (the second index is then signalled by
    # asym_transform_index_flag alone and has no effect on the pictures)
    for k in range(49):
        if k // 7 != k % 7 and (k + 5) % nsh == spec["shard"] % nsh:
            r = _wavelet_sweep_case(k)
            r.update(dh=0, qm={"0": {"LL": 0}, "1": {"HL": 1, "LH": 1, "HH": 2}}, index_only=True)
            yield {"recipe": r, "light": True, "heavy": False}
    if spec["shard"] % 8 == 0:
        yield {"recipe": _level_case(ctx.rng), "light": True, "heavy": False}
    for i in range(spec["n"]):
        big = ctx.rng.random() < 0.2
        space = {"maxw": 16, "maxh": 8, "max_slices": (3, 2), "max_dwt": 2, "max_depth_bits": 12}
        if big:
            # a few larger pictures (slices of several hundred samples: length fields beyond one byte, scaler > 1)
            space.update({"maxw": 64, "maxh": 32, "max_slices": (2, 2)})
        r = configs.random_recipe(ctx.rng, space)
        if big:
            r["w"] = ctx.rng.choice([32, 64])
            r["h"] = 32
            for kk in ("cw", "ch", "lo", "to"):
                r.pop(kk, None)
            r["sx"], r["sy"] = 1, ctx.rng.choice([1, 2])
            if r["fsc"]:
                r["fsc"] = ctx.rng.choice([1, r["sx"] * r["sy"]])
            if r["profile"] == 3 and ctx.rng.random() < 0.5:
                r["lossless"], r["pb"] = True, None
        if not r["lossless"]:
            n = r["sx"] * r["sy"]
            # byte budgets with every remainder modulo the slice count (slice sizes then differ between slices)
            rem = ctx.rng.randrange(n)
            r["pb"] = (ctx.rng.choice([n * 8, n * 20, n * 64]) if r["profile"] == 3 else ctx.rng.choice([n * 2, n * 3, n * 4, n * 9, n * 12, n * 40])) + rem
        # the signal-range generator (bit-width test patterns) costs about half of a configuration's time and is
        # judged for validity only: it is run for one configuration in three
        yield {"recipe": r, "heavy": ctx.rng.random() < 0.34}
        if ctx.rng.random() < 0.35:
            # a sibling configuration (one attribute changed) straight afterwards in the same process, cheap generators only
            sb = configs.sibling(ctx.rng, r, attr=ctx.rng.choice(["range_same_depth", "range_same_depth", "colour", None]))
            ctx.count("sibling_configurations:" + str(sb.get("sibling_of")))
            yield {"recipe": sb, "light": True, "heavy": False}


def reference_sprite_pictures(cf):
    """decoded pictures of the plain encoding of the static sprite source"""
    from vc2_conformance.encoder import make_sequence
    from vc2_conformance.picture_generators import static_sprite

    key = "sprite"
    if key not in _st["refs"]:
        seq = make_sequence(cf, static_sprite(cf["video_parameters"], cf["picture_coding_mode"]))
        v = vc2util.validate(vc2util.serialise([seq]))
        _st["refs"][key] = v.pictures if v.kind == "ok" else None
    return _st["refs"][key]


def run_case(case, ctx):
    from vc2_conformance.test_cases import DECODER_TEST_CASE_GENERATOR_REGISTRY

    recipe = case["recipe"]
    cf = configs.build_cf(recipe, name="c05")
    vp = cf["video_parameters"]
    dd = configs.recipe_dims(recipe, vp)
    _st["refs"] = {}
    rkey = jsonx.key_hash(recipe)
    names = []
    ntc = 0
    for gen in DECODER_TEST_CASE_GENERATOR_REGISTRY.iter_independent_generators(cf):
        gname = getattr(getattr(gen, "args", [None])[0], "__name__", "?")
        if case.get("light") and gname not in LIGHT_GENERATORS:
            continue
        if gname in HEAVY_GENERATORS and not case.get("heavy", True):
            ctx.count("heavy_generator_skipped:" + gname)
            continue
        if gname == "real_pictures" and 32 * int(vp["pixel_aspect_ratio_denom"]) < int(vp["pixel_aspect_ratio_numer"]):
            # harness domain: the natural pictures are replaced by the repository's 32-48 pixel wide test images
            # (setup); an aspect ratio beyond 32:1 squeezes those to zero width, which the real 1920 pixel wide
            # pictures never are.  Not judged.
            ctx.count("real_pictures_skipped_tiny_image_extreme_aspect_ratio")
            continue
        try:
            tcs = list(gen())
        except Exception as e:
            site = vc2util._site(e.__traceback__)
            ctx.violation("generator-exception:%s:%s" % (gname, type(e).__name__),
                          "test case generator %s raised %r (innermost %s) for a valid configuration (%s)" % (gname, e, site, configs.stratum(recipe)))
            continue
        ctx.count("generator_runs")
        for tc in tcs:
            ntc += 1
            names.append(tc.name)
            ctx.seen(jsonx.key_hash([rkey, tc.name]))
            ctx.count("test_cases:" + tc.case_name)
            judge_test_case(tc, cf, recipe, dd, ctx)
    if len(set(names)) != len(names):
        dup = sorted(n for n in set(names) if names.count(n) > 1)
        ctx.violation("duplicate-test-case-name", "test case names are not unique: %r" % (dup[:5],))
    ctx.count("configurations")
    if case.get("light"):
        ctx.count("light_configurations:" + ("level-%d" % recipe["level"] if recipe["level"] else "sibling" if recipe.get("sibling_of") else "wavelet-index-only-sweep" if recipe.get("index_only") else "wavelet-pair-sweep"))
        ctx.note("wavelet_pairs_swept", "%d/%d" % (recipe["wi"], recipe["wih"]))
    ctx.count("stratum:" + configs.stratum(recipe))
    if ctx.rng.random() < 0.05:
        ctx.sample({"recipe": recipe, "test_cases": ntc, "names": names[:8]})


def judge_test_case(tc, cf, recipe, dd, ctx):
    name = tc.name
    cname = tc.case_name
    stream = tc.value
    try:
        seqs = stream["sequences"]
        data = vc2util.serialise(seqs)
    except Exception as e:
        ctx.violation("test-case-not-serialisable:%s:%s" % (cname, type(e).__name__), "test case %s failed to serialise: %r" % (name, e))
        return
    v = vc2util.validate(data)
    if v.kind == "ce":
        ctx.violation("test-case-rejected:%s:%s" % (cname, v.exc_class), "validator rejects test case %s (%s): %s"
                      % (name, configs.stratum(recipe), _explain(v.exc)))
        return
    if v.kind != "ok":
        ctx.violation("validator-crash:%s:%s" % (cname, v.exc_class), "validator crashed on test case %s" % name, detail=v.tb)
        return
    ctx.count("accepted")
    vp = cf["video_parameters"]
    if not v.pictures:
        # e.g. signal_range on pictures too small for any test pattern: a valid, picture-less stream
        ctx.count("test_cases_without_pictures:" + cname)
        if cname in MID_GREY_CASES + SPRITE_CASES:
            ctx.violation("no-pictures:" + cname, "test case %s, which must decode to pictures of its source, decodes to none" % name)
        return
    for pic, vp2, pcm2 in v.pictures:
        if dict(vp2) != dict(vp) or pcm2 != cf["picture_coding_mode"]:
            ctx.violation("test-case-format-differs:" + cname, "test case %s decodes with different video parameters / coding mode" % name)
            return
    ctx.count("pictures_decoded", len(v.pictures))
    comps = ("Y", "C1", "C2")
    if cname in MID_GREY_CASES:
        for i, (pic, _, _) in enumerate(v.pictures):
            for c in comps:
                w, h, depth = dd[c]
                g = 1 << (depth - 1)
                comp = pic[c]
                if len(comp) != h or any(len(row) != w for row in comp) or any(x != g for row in comp for x in row):
                    ctx.violation("mid-grey-differs:" + cname, "test case %s picture %d component %s is not exact mid-grey %d (%s)"
                                  % (name, i, c, g, configs.stratum(recipe)), detail={"row0": comp[0][:16] if comp else None})
                    return
        ctx.count("mid_grey_pictures_checked", len(v.pictures))
        if cname == "concatenated_sequences":
            n = len(v.pictures)
            if n % 2 or [p[0]["pic_num"] for p in v.pictures[: n // 2]] != [p[0]["pic_num"] for p in v.pictures[n // 2:]]:
                ctx.violation("concatenated-sequences-shape", "concatenated_sequences decodes to %d pictures numbered %r"
                              % (n, [p[0]["pic_num"] for p in v.pictures]))
        if cname == "picture_numbers":
            check_picture_numbers(tc, v, cf, ctx)
        if cname == "padding_data":
            # documented source: "a sequence containing two blank frames"
            want = 2 * (2 if int(cf["picture_coding_mode"]) == 1 else 1)
            ctx.count("padding_data_picture_counts_checked")
            if len(v.pictures) != want:
                ctx.violation("variant-picture-count:padding_data", "test case %s decodes to %d pictures, its documented source (two blank frames) has %d (%s)"
                              % (name, len(v.pictures), want, configs.stratum(recipe)))
    elif cname in SPRITE_CASES:
        ref = reference_sprite_pictures(cf)
        if ref is None:
            ctx.inconclusive_note("plain sprite encoding did not validate (C03's concern)")
            return
        if len(v.pictures) % len(ref) != 0:
            ctx.violation("variant-picture-count:" + cname, "test case %s decodes to %d pictures, the plain encoding to %d" % (name, len(v.pictures), len(ref)))
            return
        for i, (pic, _, _) in enumerate(v.pictures):
            rp = ref[i % len(ref)][0]
            for c in comps:
                if pic[c] != rp[c]:
                    ctx.violation("variant-decodes-differently:" + cname,
                                  "test case %s picture %d component %s differs from the plain encoding of the same source (%s)"
                                  % (name, i, c, configs.stratum(recipe)))
                    return
        ctx.count("variant_pictures_checked", len(v.pictures))
    else:
        ctx.count("validity_only_cases")


def check_picture_numbers(tc, v, cf, ctx):
    """documented numbering of the picture_numbers[*] sub-cases"""
    sub = tc.subcase_name
    nums = [p[0]["pic_num"] for p in v.pictures]
    n = len(nums)
    fields = int(cf["picture_coding_mode"]) == 1
    ok = True
    expected = None
    if sub == "start_at_zero":
        expected = list(range(n))
    elif sub == "non_zero_start":
        ok = nums[0] != 0 and all((b - a) & 0xFFFFFFFF == 1 for a, b in zip(nums, nums[1:]))
    elif sub == "wrap_around":
        ok = (2 ** 32 - 1) in nums and 0 in nums and all((b - a) & 0xFFFFFFFF == 1 for a, b in zip(nums, nums[1:]))
    elif sub == "odd_first_picture":
        ok = nums[0] % 2 == 1 and not fields and all((b - a) & 0xFFFFFFFF == 1 for a, b in zip(nums, nums[1:]))
    else:
        ctx.count("picture_numbers_unknown_subcase:" + str(sub))
        return
    if expected is not None:
        ok = nums == expected
    ctx.count("picture_number_cases_checked")
    if not ok:
        ctx.violation("picture-numbers-case:" + str(sub), "picture_numbers[%s] decodes with numbers %r" % (sub, nums))


def _explain(e):
    try:
        return e.explain()[:600]
    except Exception as e2:
        return "explain() failed %r" % (e2,)


def floor(agg, tier):
    c = agg["counters"]
    s = 1 if tier == "quick" else 60
    miss = []
    if c.get("configurations", 0) < 100 * s:
        miss.append("fewer than %d configurations" % (100 * s))
    if c.get("accepted", 0) < 3000 * s:
        miss.append("fewer than %d accepted test cases (%d)" % (3000 * s, c.get("accepted", 0)))
    if c.get("mid_grey_pictures_checked", 0) < 1500 * s:
        miss.append("too few mid-grey pictures checked")
    if c.get("variant_pictures_checked", 0) < 250 * s:
        miss.append("too few variant pictures checked")
    if c.get("picture_number_cases_checked", 0) < 50 * s:
        miss.append("too few picture-number cases checked")
    if len(agg["sets"].get("wavelet_pairs_swept", ())) < 49:
        miss.append("wavelet pair sweep incomplete")
    if c.get("light_configurations:level-1", 0) < 2:
        miss.append("fewer than 2 real-level configurations")
    if c.get("test_cases:signal_range", 0) < 20 * s:
        miss.append("signal_range test cases produced fewer than %d times" % (20 * s))
    for name in MID_GREY_CASES + SPRITE_CASES:
        if c.get("test_cases:" + name, 0) == 0:
            miss.append("test case family %s never produced" % name)
    return miss
