"""C26 — the bitstream viewer never reports an internal error.

Monitor: ``vc2_bitstream_viewer.main(argv)`` is called in-process on a
temporary file holding the case's bytes, hermetically (own argv/prog name,
stdout/stderr captured, deterministic clock for the status line), under the
deserialiser-side size guard.  Oracle: the returned status is one of the
viewer's normal / parse-failure / end-of-file statuses; its internal-error
status or any escaping exception refutes the property.

Statuses, from ``BitstreamViewer.run``: 0 = parsed to the end or to the end of
the requested range; 1 = file cannot be opened (or KeyboardInterrupt);
2 = invalid parse_info prefix; 3 = end of file while parsing; 4 = the
pseudocode failed on an out-of-range value; 255 = internal error.
"""
import os
import shutil

from vlib import cliwork, jsonx, vc2util
from vlib.rebind import Rebind
from vlib.worker import OutOfScope

PROPERTY = "C26"
LEVEL = "exploration"
TECHNIQUE = (
    "runtime monitoring: in-process executions of the bitstream viewer command on mutated streams and random bytes under "
    "sampled display options; returned status (and the traceback handed to is_internal_error) judged against the allowed status set"
)
RULE = (
    "case = (byte string, option list); byte strings are seed-corpus streams unchanged, byte-level, field-level and coordinated "
    "mutations, truncations, random bytes and random bytes behind a parse_info prefix; option families: default (status line on), "
    "status line on with a filter/range so that it is drawn, -q, -q -i, -q -v, -q -vv (with -b N), --hide-slice/-S/--hide F, -p, --show F for every accepted function name F, --offset N "
    "(N inside, at, beyond the end, negative; -A/-B/-C), -f/-t (absolute, negative, '+' relative), and combinations; distinct = "
    "distinct (bytes, option list); cases stopped by the size guard are not evaluations"
)
ASSUMPTIONS = [
    "size guard of DESIGN section 3 applied where the deserialiser reads size-determining fields (OutOfScope escaping main() => not an evaluation)",
    "only option lists the viewer's argument parser accepts are generated; the file always exists and is readable, so status 1 "
    "(unreadable file) is not in the allowed set here",
    "allowed statuses: 0 (normal), 2 (invalid parse_info prefix), 3 (end of file), 4 (pseudocode failed on an out-of-range value); "
    "255 and escaping exceptions are violations",
    "the viewer module's clock is replaced by a deterministic counter so that status-line updates happen at fixed points",
]
CASE_TIMEOUT_S = 120
STEP_BUDGET = 400000000

N_QUICK = 9600
N_THOROUGH = 700000

ALLOWED = (0, 2, 3, 4)
# cumulative shares: unchanged, shared random_case, byte level, field level, coordinated, truncation; rest = random bytes
MIX = (0.12, 0.47, 0.60, 0.72, 0.80, 0.90)

_TMP = None
_GUARD = None
_IIE = None
_LAST = {"site": None, "exc": None, "target": None}

FAMILIES = ["default", "status", "q", "qi", "qv", "qvv", "hide", "p", "show", "offset", "fromto", "combo"]


class _Clock(object):
    """Stands in for the `time` module inside the viewer: 0.11 s per reading."""

    def __init__(self):
        self.now = 1000.0

    def time(self):
        self.now += 0.11
        return self.now


def show_names():
    from vc2_conformance import bitstream

    return sorted(bitstream.pseudocode_function_to_fixeddicts_recursive)


def setup(ctx):
    global _TMP, _GUARD, _IIE
    import sys
    import traceback

    os.environ["COLUMNS"] = "80"
    os.environ["LINES"] = "24"
    _TMP = cliwork.make_tmp("verif-c26-")
    import atexit

    atexit.register(shutil.rmtree, _TMP, True)
    from vc2_conformance.scripts import vc2_bitstream_viewer as bv

    _GUARD = vc2util.DeserialiserGuard().install()
    bv.time = _Clock()

    def factory(orig):
        def is_internal_error(tb):
            _LAST["site"] = cliwork.innermost_repo_function(tb)
            # which value was being delivered to the monitor (serdes frame locals)
            _LAST["target"] = None
            t = tb
            while t is not None:
                fr = t.tb_frame
                if fr.f_code.co_filename.endswith(os.path.join("bitstream", "serdes.py")) and "target" in fr.f_locals:
                    _LAST["target"] = (fr.f_locals.get("target"), fr.f_locals.get("value"))
                t = t.tb_next
            ei = sys.exc_info()
            _LAST["exc"] = (ei[0].__name__ if ei[0] else None, str(ei[1])[:200], traceback.format_exc()[-2500:])
            return orig(tb)

        return is_internal_error

    _IIE = Rebind(bv.is_internal_error, factory).install()


def teardown(ctx):
    ctx.count("is_internal_error_calls", _IIE.calls if _IIE else 0)
    ctx.count("size_guard_reads", _GUARD.calls if _GUARD else 0)
    if _TMP:
        shutil.rmtree(_TMP, ignore_errors=True)


def plan(tier, seed):
    n = N_QUICK if tier == "quick" else N_THOROUGH
    nsh = 16 if tier == "quick" else 64
    return [{"shard": i, "nshards": nsh, "n": n // nsh, "size": tier} for i in range(nsh)]


# --------------------------------------------------------------------------
def _offset_value(rng, nbits):
    k = rng.random()
    if k < 0.45:
        return rng.randrange(0, nbits + 1)
    if k < 0.55:
        return rng.choice([0, 1, 7, 8, 31, 32, 104, nbits, max(0, nbits - 1), nbits + 1, nbits + 1000])
    if k < 0.9:
        return -rng.randrange(1, nbits + 2)
    return rng.choice([-1, -8, -nbits, -nbits - 1, -nbits - 1000])


def _verbosity(rng):
    v = rng.choice([["-v"], ["-vv"], ["-v", "-v"], ["--verbose"], ["-vvv"]])
    if rng.random() < 0.4:
        v = v + [rng.choice(["-b", "--num-trailing-bits"]), str(rng.choice([0, 1, 7, 8, 33, 128, 100000]))]
    return v


def _range_opts(rng, nbits):
    k = rng.random()
    if k < 0.5:
        o = [rng.choice(["--offset", "-o"]), str(_offset_value(rng, nbits))]
        c = rng.random()
        if c < 0.2:
            o += [rng.choice(["-C", "--context"]), str(rng.choice([0, 1, 8, 100, 5000]))]
        elif c < 0.35:
            o += [rng.choice(["-A", "--after-context"]), str(rng.choice([0, 1, 144, 5000]))]
        elif c < 0.5:
            o += [rng.choice(["-B", "--before-context"]), str(rng.choice([0, 1, 144, 5000]))]
        elif c < 0.6:
            o += ["-A", str(rng.choice([0, 9, 144])), "-B", str(rng.choice([0, 9, 144]))]
        return o
    o = []
    if k < 0.85:
        o += [rng.choice(["-f", "--from-offset"]), str(_offset_value(rng, nbits))]
    if k >= 0.7 or rng.random() < 0.5:
        t = _offset_value(rng, nbits)
        ts = str(t)
        if t >= 0 and rng.random() < 0.4:
            ts = "+" + str(rng.choice([0, 1, 8, 100, t]))
        o += [rng.choice(["-t", "--to-offset"]), ts]
    return o


def options(rng, family, nbits, names):
    q = [rng.choice(["-q", "-q", "--quiet", "--no-status"])]
    if family == "default":
        return []
    if family == "status":
        # status line on stderr is only drawn while values are *not* displayed
        k = rng.random()
        if k < 0.3:
            return [rng.choice(["--show", "-s"]), rng.choice(names)]
        if k < 0.5:
            return [rng.choice(["-S", "--hide-slice"])] if rng.random() < 0.5 else ["--hide", rng.choice(names)]
        if k < 0.75:
            return ["-f", str(_offset_value(rng, nbits))]
        return ["--offset", str(_offset_value(rng, nbits))]
    if family == "q":
        return q
    if family == "qi":
        return q + [rng.choice(["-i", "--show-internal-state"])]
    if family == "qv":
        return q + ["-v"] + ([] if rng.random() < 0.6 else ["-b", str(rng.choice([0, 1, 9, 128, 4000]))])
    if family == "qvv":
        return q + ["-vv"] + ([] if rng.random() < 0.6 else ["-b", str(rng.choice([0, 1, 9, 128, 4000]))])
    if family == "hide":
        k = rng.random()
        if k < 0.5:
            return q + [rng.choice(["--hide-slice", "-S"])]
        if k < 0.8:
            return q + [rng.choice(["--hide", "-H"]), rng.choice(names)]
        return q + ["--hide", rng.choice(names), "-S", "-H", rng.choice(names)]
    if family == "p":
        return q + [rng.choice(["-p", "--ignore-parse-info-prefix"])]
    if family == "show":
        return q + [rng.choice(["--show", "-s"]), rng.choice(names)]
    if family == "offset":
        o = [rng.choice(["--offset", "-o"]), str(_offset_value(rng, nbits))]
        return q + o
    if family == "fromto":
        while True:
            o = _range_opts(rng, nbits)
            if o and o[0] not in ("--offset", "-o"):
                return q + o
    # combo
    o = [] if rng.random() < 0.35 else list(q)
    if rng.random() < 0.5:
        o += _verbosity(rng)
    if rng.random() < 0.35:
        o += ["-i"]
    if rng.random() < 0.35:
        o += ["-p"]
    if rng.random() < 0.5:
        o += _range_opts(rng, nbits)
    for _ in range(rng.choice([0, 0, 1, 1, 2])):
        o += ["--show", rng.choice(names)]
    for _ in range(rng.choice([0, 0, 0, 1, 2])):
        o += rng.choice([["-S"], ["--hide", rng.choice(names)]])
    return o


def _random_bytes(rng):
    k = rng.random()
    n = rng.choice([0, 1, 3, 4, 5, 12, 13, 14, 40, 200])
    body = bytes(rng.randrange(256) for _ in range(n))
    if k < 0.2:
        return body, "random"
    if k < 0.5:
        return b"BBCD" + body, "random:prefixed"
    code = rng.choice([0x00, 0x10, 0x20, 0x30, 0xC8, 0xE8, 0xCC, 0xEC])
    nxt = rng.choice([0, 13, 14, 13 + n, 13 + n + 5, 2 ** 32 - 1])
    return b"BBCD" + bytes([code]) + nxt.to_bytes(4, "big") + b"\0\0\0\0" + body, "random:parse_info"


def cases(spec, ctx):
    rng = ctx.rng
    names = show_names()
    corpus = cliwork.load_corpus(ctx, spec.get("size", "quick"))
    nsh = max(1, spec.get("nshards", 1))

    def with_opts(case, family=None):
        fam = family or rng.choice(FAMILIES + ["combo", "show", "q"])
        case["family"] = fam
        case["opts"] = options(rng, fam, 8 * len(case["data"]), names)
        return case

    # every --show name on a valid stream and on a broken one (spread over the shards)
    for i, name in enumerate(names):
        if i % nsh != spec["shard"] % nsh:
            continue
        label, data = corpus[rng.randrange(len(corpus))]
        broken = cliwork.draw(corpus, rng, ctx, (0, 0, 1.01, 0, 0, 0))
        for c in ({"data": data, "op": "none", "seed": label}, broken):
            if c is not None:
                yield dict(c, family="show", opts=["-q", "--show", name])
    # degenerate inputs under every option family, once per shard
    label, data = corpus[rng.randrange(len(corpus))]
    for d, op in ((b"", "edge:empty"), (b"B", "edge:1byte"), (b"BBCD", "edge:prefix-only"), (data[:12], "edge:12bytes"),
                  (b"BBCD\x10" + bytes(8), "edge:eos-only"), (b"BBCD\x30\0\0\0\x0d\0\0\0\0" + b"BBCD\x10\0\0\0\0\0\0\0\x0d", "edge:empty-padding")):
        for fam in FAMILIES:
            yield with_opts({"data": d, "op": op, "seed": "-"}, fam)
    for i in range(spec["n"]):
        if rng.random() < 0.03:
            case = cliwork.zero_run(corpus, rng)
        else:
            case = cliwork.draw(corpus, rng, ctx, MIX)
        if case is None:
            continue
        if case == "other":
            out, op = _random_bytes(rng)
            case = {"data": out, "op": op, "seed": "-"}
        yield with_opts(case)


# --------------------------------------------------------------------------
def run_case(case, ctx):
    from vc2_conformance.scripts import vc2_bitstream_viewer as bv

    data = bytes(case["data"])
    opts = [str(o) for o in case["opts"]]
    path = os.path.join(_TMP, "in.vc2")
    with open(path, "wb") as f:
        f.write(data)
    argv = [path] + opts
    if bv.time.__class__ is _Clock:
        bv.time.now = 1000.0
    _LAST["site"] = _LAST["exc"] = _LAST["target"] = None
    try:
        res = cliwork.call_main(bv.main, argv, "vc2-bitstream-viewer")
    except OutOfScope:
        ctx.count("out_of_scope")
        return

    if res.via_exit:
        # the argument parser refused the option list: a generator mistake, not an observation of the viewer
        ctx.inconclusive_note("argument parser exit %r for options %r: %s" % (res.status, opts, res.stderr[-200:]))
        return

    if res.status == 255 and _LAST["target"]:
        # the monitor is called before the size guard sees the value: a failure while
        # displaying a size-determining field beyond its bound is out of scope, not an observation
        tname, tval = _LAST["target"]
        bound = vc2util.GUARD_BOUNDS.get(tname)
        if bound is not None and isinstance(tval, int) and tval > bound:
            ctx.count("out_of_scope")
            ctx.count("out_of_scope_after_internal_error")
            return

    family = case.get("family", "?")
    ctx.seen(jsonx.key_hash([data, opts]))
    ctx.count("family:" + family)
    ctx.count("op:" + str(case.get("op")).split(":")[0])
    for o in opts:
        if o.startswith("-") and not o[1:2].isdigit():
            ctx.note("option_strings", o)
    if "--show" in opts or "-s" in opts:
        for i, o in enumerate(opts[:-1]):
            if o in ("--show", "-s"):
                ctx.note("show_names", opts[i + 1])
    ctx.maxi("max_stdout_chars", len(res.stdout))
    detail = {"argv": ["<file>"] + opts, "stderr_tail": res.stderr[-1200:], "stdout_tail": res.stdout[-600:]}
    if ctx.rng.random() < 0.001:
        ctx.sample({"opts": opts, "op": case.get("op"), "bytes": len(data), "status": res.status})

    if res.raised:
        ctx.count("status:raised")
        mech = "%s:%s" % (res.site or "?", res.exc_class)
        if res.exc_class == "ValueError" and "integer string conversion" in (res.exc_text or ""):
            mech = "int-max-str-digits"
        ctx.violation("viewer-internal-error:" + mech,
                      "exception %s escaped main(): %s" % (res.exc_class, res.exc_text), detail=dict(detail, tb=res.tb))
        return
    ctx.count("status:%s" % (res.status,))
    ctx.count("status:%s/family:%s" % (res.status, family))
    if res.status == 255:
        site = _LAST["site"]
        exc = _LAST["exc"] or (None, None, None)
        cls = exc[0]
        if cls is None:
            import re

            m = re.search(r"internal error in bitstream viewer: (\w+):", res.stderr)
            cls = m.group(1) if m else "?"
        mech = "%s:%s" % (site or "?", cls)
        if cls == "ValueError" and "integer string conversion" in (exc[1] or res.stderr):
            # CPython >= 3.11 refuses str(int) beyond 4300 digits: one root cause wherever the number is formatted
            mech = "int-max-str-digits"
        ctx.violation("viewer-internal-error:" + mech,
                      "status 255 (internal error): %s: %s" % (cls, exc[1]), detail=dict(detail, tb=exc[2]))
        return
    if res.status not in ALLOWED or isinstance(res.returned, bool) or not isinstance(res.returned, int):
        ctx.violation("viewer-unexpected-status:%r" % (res.returned,),
                      "main() returned %r for a readable file; allowed %r" % (res.returned, ALLOWED), detail=detail)
        return
    if res.status == 4:
        ctx.note("parse_failure_sites", "%s:%s" % (_LAST["site"], (_LAST["exc"] or ("?",))[0]))


# --------------------------------------------------------------------------
def floor(agg, tier):
    c = agg["counters"]
    q = tier == "quick"
    miss = []
    for s, n in ((0, 1500), (2, 150), (3, 400), (4, 300)):
        n = n if q else n * 40
        if c.get("status:%d" % s, 0) < n:
            miss.append("status %d observed %d times (< %d)" % (s, c.get("status:%d" % s, 0), n))
    for f in FAMILIES:
        need = 300 if q else 15000
        if c.get("family:" + f, 0) < need:
            miss.append("option family %s: %d cases (< %d)" % (f, c.get("family:" + f, 0), need))
    try:
        names = show_names()
    except Exception:
        names = []
    seen = set(agg["sets"].get("show_names", ()))
    if names and not set(names) <= seen:
        miss.append("--show never given: %s" % sorted(set(names) - seen))
    if c.get("is_internal_error_calls", 0) == 0:
        miss.append("is_internal_error hook never called")
    if c.get("size_guard_reads", 0) == 0:
        miss.append("size guard never consulted")
    if c.get("status:0/family:default", 0) == 0 or c.get("status:4/family:default", 0) == 0:
        miss.append("default options: normal and parse-failure outcome not both observed")
    return miss


def evidence_extra(agg, tier):
    c = agg["counters"]
    return {
        "by_exit_status": {k[7:]: v for k, v in c.items() if k.startswith("status:") and "/" not in k},
        "by_option_family": {k[7:]: v for k, v in c.items() if k.startswith("family:")},
        "by_status_and_family": {k[7:]: v for k, v in c.items() if k.startswith("status:") and "/" in k},
        "by_mutation": {k[3:]: v for k, v in c.items() if k.startswith("op:")},
        "allowed_statuses": list(ALLOWED),
        "generators": "shared vlib.gen.corpus/mutate" if c.get("shared_generators") else "private fallback (shared modules not importable)",
    }
