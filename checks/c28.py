"""C28 — reading a codec-features CSV either succeeds in-domain or explains.

Monitor shape: result/exception observation.  Every generated CSV text is
written to a real file, opened exactly as the command line tool opens it
(``argparse.FileType("r", encoding="utf-8-sig")``, i.e. text mode with
universal newlines) and handed to the real ``read_codec_features_csv``.

* returns  -> every returned configuration must satisfy R-features
  (vlib/ref/features_domain.py) and explicit duplicate names in the file must
  not have been accepted;
* raises InvalidCodecFeaturesError -> fine (counted, with the kind of message);
* raises anything else -> violation.
"""
import argparse
import atexit
import csv
import os
import re
import shutil
import tempfile
import traceback

from vlib import jsonx
from vlib.gen import csvtext
from vlib.ref import features_domain as D
from vlib.worker import OutOfScope

PROPERTY = "C28"
LEVEL = "exploration"
TECHNIQUE = ("runtime monitoring: generated/mutated CSV texts read by the real read_codec_features_csv through a real text file opened "
             "like the CLI does; returned configurations judged by an independent domain predicate (R-features), escaped exceptions by type")
RULE = (
    "case = one CSV text <= 64 KiB.  Strata: 'mutated' = a sample codec-features file of the repository (tests/sample_codec_features.csv, "
    "tests/sample_codec_features_invalid.csv, the user guide sample) with 1-6 structural mutations (cell := one of 55 junk values in 30 classes, "
    "row delete/duplicate/insert/truncate/extend/swap, key rename, column delete/duplicate, duplicate names); 'boundary' = every integer field "
    "set to minimum-1 / minimum / minimum+1 and every cell set to every junk value in an otherwise valid column (deterministic sweep); "
    "'synth' = table synthesised from the documented field list (aliases or numbers, booleans in all accepted spellings, lossless and lossy "
    "columns, custom quantisation matrices for depths 0-4 x 0-3, shuffled rows, comments, blank rows, 1-5 columns) with at most one deliberate "
    "departure from the documented domain, optionally further mutated; 'noise' = any of the above with character-level substitution/insertion/"
    "deletion drawn from , \" LF CR CRLF space digits # - TAB curly-quote BOM ' NUL e-acute ; ; 'random' = unstructured random CSV.  "
    "distinct = distinct text; the unmutated sample files themselves are trivial"
)
ASSUMPTIONS = [
    "input is CSV *text*: it is encoded as UTF-8 into a real file and opened with argparse.FileType('r', encoding='utf-8-sig') exactly as vc2-test-case-generator does (universal newlines); feeding a str with a lone CR through StringIO makes the csv module itself raise, which is a harness artefact (DESIGN 7.8)",
    "texts are at most 64 KiB so the csv module's field size limit is never reached",
    "documented minimums (user guide + VC-2 semantics of the fields; codec_features.py documents no numbers): dwt_depth, dwt_depth_ho, fragment_slice_count, clean_width, clean_height, left_offset, top_offset, luma_offset, color_diff_offset >= 0; slices_x, slices_y, picture_bytes (lossy), frame_width, frame_height, frame_rate_numer/denom, pixel_aspect_ratio_numer/denom, luma_excursion, color_diff_excursion >= 1",
    "an enum-valued field holds a member of its vc2_data_tables enumeration (or a plain int equal to a member); integer fields hold int (not bool); lossless and top_field_first hold bool; quantisation matrix entries are ints of any sign (no minimum is documented)",
    "'unique names': every returned configuration is stored under its own name, and a file with exactly one 'name' row that gives the same explicit name (after stripping blanks) to two non-empty columns must not be accepted; files with zero or several 'name' rows are not judged for duplicates",
    "the property is one-sided (returns => in-domain; raises => InvalidCodecFeaturesError): acceptance of valid files is not demanded, only counted (the floor requires thousands of accepted and of rejected texts)",
]
CASE_TIMEOUT_S = 300

_TMP = None
_OPEN = argparse.FileType("r", encoding="utf-8-sig")


def setup(ctx):
    global _TMP
    # safety net: a runaway allocation (in the code under test or in this harness) becomes a MemoryError in this
    # process instead of exhausting the machine
    try:
        import resource

        resource.setrlimit(resource.RLIMIT_AS, (4 << 30, 4 << 30))
    except Exception:
        pass
    # a real directory of real files; RAM-backed when the platform offers it (open() is 50x cheaper there)
    shm = "/dev/shm"
    _TMP = tempfile.mkdtemp(prefix="c28-", dir=shm if os.path.isdir(shm) and os.access(shm, os.W_OK) else None)
    atexit.register(shutil.rmtree, _TMP, True)


def teardown(ctx):
    if _TMP:
        shutil.rmtree(_TMP, ignore_errors=True)


def plan(tier, seed):
    if tier == "quick":
        nsh, n = 16, {"mutated": 10000, "synth": 6500, "noise": 4000, "random": 1000}
    else:
        nsh, n = 64, {"mutated": 45000, "synth": 30000, "noise": 18000, "random": 3000}
    return [dict(n, shard=s, nshards=nsh) for s in range(nsh)]


def _repo_root():
    import vc2_conformance

    return os.path.dirname(os.path.dirname(os.path.abspath(vc2_conformance.__file__)))


def base_tables():
    root = _repo_root()
    out = []
    for rel in ("tests/sample_codec_features.csv", "tests/sample_codec_features_invalid.csv",
                "docs/source/_static/user_guide/sample_codec_features.csv"):
        p = os.path.join(root, rel)
        if os.path.exists(p):
            out.append((rel, csvtext.read_rows(p)))
    return out


def _valid_column_rows(rng=None):
    """A one-column table made of the documented fields, all plainly valid."""
    vals = {
        "level": "0", "profile": "high_quality", "base_video_format": "hd1080p_50", "picture_coding_mode": "pictures_are_frames",
        "frame_width": "8", "frame_height": "4", "color_diff_format_index": "color_4_4_4", "source_sampling": "progressive",
        "top_field_first": "TRUE", "frame_rate_numer": "1", "frame_rate_denom": "1", "pixel_aspect_ratio_numer": "1",
        "pixel_aspect_ratio_denom": "1", "clean_width": "8", "clean_height": "4", "left_offset": "0", "top_offset": "0",
        "luma_offset": "0", "luma_excursion": "255", "color_diff_offset": "128", "color_diff_excursion": "255",
        "color_primaries_index": "hdtv", "color_matrix_index": "hdtv", "transfer_function_index": "tv_gamma",
        "wavelet_index": "haar_with_shift", "wavelet_index_ho": "haar_with_shift", "dwt_depth": "1", "dwt_depth_ho": "1",
        "slices_x": "2", "slices_y": "1", "lossless": "FALSE", "picture_bytes": "24", "fragment_slice_count": "0",
        "quantization_matrix": "0 1 2 3 4",
    }
    return [["name", "only"]] + [[n, vals[n]] for n, _, _ in csvtext.FIELDS]


def boundary_cases():
    """Deterministic sweep; yields (ops, rows)."""
    base = _valid_column_rows()
    idx = {r[0]: i for i, r in enumerate(base)}
    for name, mn in csvtext.INT_FIELDS_WITH_MIN:
        for delta in (-2, -1, 0, 1):
            rows = [r[:] for r in base]
            rows[idx[name]][1] = str(mn + delta)
            if name in ("dwt_depth", "dwt_depth_ho"):
                rows[idx["quantization_matrix"]][1] = "default"
            yield ["boundary:%s:min%+d" % (name, delta)], rows
    # names containing str.format metacharacters combined with a defect elsewhere in the same column
    for nm in ("hq {4:2:2}", "set{}", "{name}", "{0}", "a}b{", "100%", "%s %d"):
        for field, bad in (("dwt_depth", "x"), ("frame_width", ""), ("profile", "zzz"), ("lossless", "maybe"), (None, None)):
            rows = [r[:] for r in base]
            rows[idx["name"]][1] = nm
            if field is None:
                del rows[idx["slices_x"]]
            else:
                rows[idx[field]][1] = bad
            yield ["boundary:name=%r+defect:%s" % (nm, field or "missing-row")], rows
        rows = [r[:] for r in base]
        rows[idx["name"]][1] = nm
        yield ["boundary:name=%r" % nm], rows
    # lossless variants
    for ll, pb in (("TRUE", ""), ("TRUE", "24"), ("TRUE", "0"), ("FALSE", ""), ("FALSE", "0"), ("FALSE", "1"), ("yes", "1"), ("1", ""), ("0", "")):
        rows = [r[:] for r in base]
        rows[idx["lossless"]][1] = ll
        rows[idx["picture_bytes"]][1] = pb
        yield ["boundary:lossless=%s,picture_bytes=%s" % (ll, pb or "blank")], rows
    # matrix lengths for a grid of depths
    for d in range(0, 4):
        for dh in range(0, 3):
            need = 1 + dh + 3 * d
            for n in sorted(set([0, 1, need - 1, need, need + 1, 1 + d + 3 * dh])):
                if n < 0:
                    continue
                rows = [r[:] for r in base]
                rows[idx["dwt_depth"]][1] = str(d)
                rows[idx["dwt_depth_ho"]][1] = str(dh)
                rows[idx["quantization_matrix"]][1] = " ".join(str(i % 7) for i in range(n))
                yield ["boundary:matrix:d=%d,dh=%d,n=%d(%s)" % (d, dh, n, "fits" if n == need else "misfit")], rows
    # every junk value in every cell
    for name, _, _ in csvtext.FIELDS + [("name", "", False)]:
        for val, cls in csvtext.JUNK:
            rows = [r[:] for r in base]
            rows[idx[name]][1] = val
            yield ["cell:%s:%s" % (name, cls)], rows
    # duplicate names
    for a, b in (("x", "x"), ("x", " x "), ("x", "y"), ("", ""), ("column_C", ""), ("x", "X")):
        rows = [r[:] + [r[1]] for r in base]
        rows[0] = ["name", a, b]
        yield ["boundary:names=%r,%r" % (a, b)], rows


def cases(spec, ctx):
    rng = ctx.rng
    bases = base_tables()
    if not bases:
        raise RuntimeError("no sample codec-features CSV found in the tree under test")
    sh, nsh = spec["shard"], spec["nshards"]
    # the unmutated files themselves (shard 0)
    if sh == 0:
        for rel, rows in bases:
            yield {"kind": "unmutated", "ops": [rel], "text": csvtext.rows_to_text(rows)}
        yield {"kind": "unmutated", "ops": ["valid-one-column"], "text": csvtext.rows_to_text(_valid_column_rows())}
    for i, (ops, rows) in enumerate(boundary_cases()):
        if i % nsh == sh:
            yield {"kind": "boundary", "ops": ops, "text": csvtext.rows_to_text(rows, eol="\n")}

    def eol():
        return rng.choice(["\r\n", "\r\n", "\n", "\r"])

    def structured(kind):
        if kind == "mutated":
            rel, rows = rng.choice(bases)
            rows, ops = csvtext.mutate_rows(rows, rng)
            return ops, rows
        rows, defects, _names = csvtext.synth_rows(rng)
        ops = ["synth"] + ["defect:" + d for d in defects]
        if rng.random() < 0.3:
            rows, mops = csvtext.mutate_rows(rows, rng, nops=rng.choice([1, 1, 2]))
            ops += mops
        return ops, rows

    for kind in ("mutated", "synth"):
        for _ in range(spec[kind]):
            ops, rows = structured(kind)
            yield {"kind": kind, "ops": ops, "text": csvtext.rows_to_text(rows, eol=eol(), final_eol=rng.random() < 0.9)}
    for _ in range(spec["noise"]):
        ops, rows = structured(rng.choice(["mutated", "synth", "synth"]))
        if rng.random() < 0.3:
            ops = ["pristine"]
            rows = rng.choice(bases)[1]
        text = csvtext.char_noise(csvtext.rows_to_text(rows, eol=eol()), rng)
        if rng.random() < 0.1:
            text = "﻿" + text
        yield {"kind": "noise", "ops": ops + ["char_noise"], "text": text}
    for _ in range(spec["random"]):
        yield {"kind": "random", "ops": ["random"], "text": csvtext.random_csv_text(rng)}


_MSG_CLASSES = [
    (re.compile(r"^Missing entry for '([^']*)'"), "missing-entry"),
    (re.compile(r"^Invalid entry for '([^']*)'"), "invalid-entry"),
    (re.compile(r"^Name '.*' used more than once", re.S), "duplicate-name"),
    (re.compile(r"^Entry provided for 'picture_bytes' when lossless"), "picture-bytes-when-lossless"),
    (re.compile(r"^Unrecognised row"), "unrecognised-row"),
]


def _innermost_repo_frame(exc):
    tb = traceback.extract_tb(exc.__traceback__)
    root = _repo_root()
    where = "outside-repository"
    for fr in tb:
        if fr.filename.startswith(root):
            where = "%s:%s" % (os.path.basename(fr.filename), fr.name)
    if where == "outside-repository" and tb:
        where = "%s:%s" % (os.path.basename(tb[-1].filename), tb[-1].name)
    return where


def run_case(case, ctx):
    from vc2_conformance.codec_features import read_codec_features_csv, InvalidCodecFeaturesError

    text = case["text"]
    kind = case.get("kind", "replay")
    try:
        data = text.encode("utf-8")
        if len(data) > 65536:
            raise OutOfScope()
    except OutOfScope:
        ctx.count("out_of_scope:larger-than-64KiB")
        return
    except UnicodeEncodeError:
        ctx.count("out_of_scope:not-encodable-text")
        return
    path = os.path.join(_TMP or tempfile.gettempdir(), "features.csv")
    with open(path, "wb") as f:
        f.write(data)

    # own view of the file (stdlib csv on the same kind of handle) for the duplicate-name judgement
    with _OPEN(path) as f:
        try:
            own_rows = [list(r) for r in csv.reader(f)]
        except csv.Error:
            own_rows = None
            ctx.count("own_csv_parse_failed")

    ctx.count("texts")
    ctx.count("texts:" + kind)
    for op in case.get("ops", ()):
        parts = op.split(":")
        ctx.count("op:" + parts[0])
        if parts[0] == "cell" and len(parts) >= 3:
            ctx.count("cell_class:" + parts[2])
            ctx.note("cell_fields_mutated", parts[1])
        elif parts[0] == "defect":
            ctx.count("defect:" + parts[1])
    if "\r" in text.replace("\r\n", ""):
        ctx.count("texts_with_lone_CR")
    if '"' in text:
        ctx.count("texts_with_quotes")

    f = _OPEN(path)
    outcome = None
    try:
        try:
            result = read_codec_features_csv(f)
            outcome = "returned"
        except InvalidCodecFeaturesError as e:
            outcome = "invalid"
            msg = str(e)
            cls = "other-message"
            for rx, name in _MSG_CLASSES:
                m = rx.match(msg)
                if m:
                    cls = name
                    if m.groups():
                        ctx.note("fields_named_in_rejections:" + name, m.group(1))
                    break
            ctx.count("rejected")
            ctx.count("rejected:" + kind)
            ctx.count("rejected_because:" + cls)
            ctx.note("exception_classes", type(e).__name__)
        except Exception as e:
            outcome = "stray"
            where = _innermost_repo_frame(e)
            ctx.note("exception_classes", type(e).__name__)
            ctx.count("stray_exceptions")
            ctx.violation(
                "features:stray-exception:%s:%s" % (type(e).__name__, where),
                "read_codec_features_csv raised %s (%s) instead of InvalidCodecFeaturesError" % (type(e).__name__, str(e)[:200]),
                detail={"ops": case.get("ops"), "traceback": traceback.format_exc()[-1500:]},
            )
    finally:
        f.close()

    if outcome == "returned":
        ctx.count("accepted")
        ctx.count("accepted:" + kind)
        judge_result(ctx, case, result, own_rows)
    ctx.seen(jsonx.key_hash(data), nontrivial=kind != "unmutated")
    if kind in ("mutated", "synth", "noise") and ctx.rng.random() < 0.0007:
        ctx.sample({"kind": kind, "ops": case.get("ops"), "outcome": outcome, "text": text[:1500]})


def judge_result(ctx, case, result, own_rows):
    det = {"ops": case.get("ops")}
    try:
        items = list(result.items())
    except Exception:
        ctx.violation("features:result-not-a-mapping", "returned %r" % (type(result),), detail=det)
        return
    ctx.count("configs_returned", len(items))
    ctx.maxi("max_configs_in_one_result", len(items))
    if not items:
        ctx.count("accepted_with_zero_configs")
    names = [k for k, _ in items]
    if len(set(names)) != len(names):
        ctx.violation("features:duplicate-keys-in-result", "names %r" % (names,), detail=det)
    for name, cf in items:
        probs = D.problems(name, cf)
        ctx.count("configs_domain_checked")
        for mech, txt in probs:
            ctx.violation("features:out-of-domain:" + mech, "configuration %r: %s" % (name, txt),
                          detail=dict(det, configuration=_plain(cf)))
        if not probs:
            ctx.count("configs_lossless" if cf["lossless"] else "configs_lossy")
            if cf["quantization_matrix"] is not None:
                ctx.count("configs_custom_matrix")
                ctx.note("custom_matrix_depths", "%d,%d" % (min(cf["dwt_depth"], 9), min(cf["dwt_depth_ho"], 9)))
                if cf["dwt_depth_ho"] > 0:
                    ctx.count("configs_custom_matrix_asymmetric")
            for k in ("dwt_depth", "dwt_depth_ho", "fragment_slice_count"):
                if cf[k] == 0:
                    ctx.count("configs_at_minimum:" + k)
            for k in ("slices_x", "slices_y", "picture_bytes"):
                if cf[k] == 1:
                    ctx.count("configs_at_minimum:" + k)
    # every non-empty column must come back as a configuration of its own: names are unique per column, so a
    # column that silently replaces another one (e.g. a default name colliding with an explicit one) is a loss
    if own_rows is not None:
        ncols = csvtext.own_count_nonempty_columns(own_rows)
        ctx.count("column_counts_judged")
        if len(items) < ncols:
            ctx.violation("features:column-lost",
                          "file has %d non-empty columns but only %d configuration(s) were returned (names %r)"
                          % (ncols, len(items), [n for n, _ in items][:6]), detail=det)
    # explicit duplicate names must not be accepted
    if own_rows is not None:
        file_names = csvtext.own_parse_names(own_rows)
        if file_names is None:
            ctx.count("duplicates_not_judged")
        else:
            ctx.count("duplicates_judged")
            dup = sorted(set(n for n in file_names if file_names.count(n) > 1))
            if dup:
                ctx.violation("features:duplicate-name-accepted",
                              "file gives the name(s) %r to several non-empty columns yet %d configuration(s) were returned" % (dup, len(items)),
                              detail=det)


def _plain(cf):
    try:
        d = dict(cf)
        d["video_parameters"] = dict(d.get("video_parameters") or {})
        return {k: (repr(v) if not isinstance(v, (int, str, bool, type(None), dict)) else v) for k, v in d.items()}
    except Exception:
        return repr(cf)


def floor(agg, tier):
    c = agg["counters"]
    s = agg["sets"]
    k = 1 if tier == "quick" else 8
    miss = []

    def need(name, n):
        if c.get(name, 0) < n:
            miss.append("%s = %d < %d" % (name, c.get(name, 0), n))

    need("texts", 50000 * k)
    need("accepted", 5000 * k)
    need("rejected", 20000 * k)
    for kind in ("mutated", "synth", "noise"):
        need("accepted:" + kind, 500 * k)
        need("rejected:" + kind, 1000 * k)
    need("texts:random", 1000 * k)
    need("texts:boundary", 1500)
    need("accepted:boundary", 100)
    need("rejected:boundary", 500)
    need("accepted:unmutated", 2)
    need("rejected:unmutated", 1)
    need("configs_domain_checked", 8000 * k)
    need("configs_lossless", 500 * k)
    need("configs_lossy", 2000 * k)
    need("configs_custom_matrix", 500 * k)
    need("configs_custom_matrix_asymmetric", 200 * k)
    need("duplicates_judged", 3000 * k)
    need("texts_with_lone_CR", 1000 * k)
    need("texts_with_quotes", 1000 * k)
    for r in ("missing-entry", "invalid-entry", "duplicate-name", "picture-bytes-when-lossless", "unrecognised-row"):
        need("rejected_because:" + r, 100)
    for m in ("dwt_depth", "dwt_depth_ho", "fragment_slice_count", "slices_x", "slices_y", "picture_bytes"):
        need("configs_at_minimum:" + m, 20)
    for op in ("cell", "row_delete", "row_duplicate", "row_insert", "row_truncate", "row_extend", "dup_name", "row_swap",
               "col_delete", "col_duplicate", "key_rename", "char_noise", "synth", "defect"):
        need("op:" + op, 300)
    need("op:boundary", 100)
    for d in ("matrix-short", "matrix-long", "matrix-for-swapped-depths", "lossless-with-bytes", "lossy-without-bytes",
              "below-minimum", "bad-enum", "bad-bool", "missing-field"):
        need("defect:" + d, 100)
    if len([x for x in c if x.startswith("cell_class:")]) < 28:
        miss.append("fewer than 28 junk value classes used")
    if len(s.get("cell_fields_mutated", ())) < 30:
        miss.append("fewer than 30 distinct fields hit by cell mutations")
    if "InvalidCodecFeaturesError" not in s.get("exception_classes", ()):
        miss.append("InvalidCodecFeaturesError never observed")
    if len(s.get("fields_named_in_rejections:invalid-entry", ())) < 30:
        miss.append("fewer than 30 distinct fields rejected as invalid entries")
    return miss
