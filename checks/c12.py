"""C12 — quantisation reconstructs within one step and distinguishes indices.

Monitor shape: function results.  The real `forward_quant`, `inverse_quant`,
`quant_factor`, `quant_offset` (and the lossless-quantisation test case's
`MINIMUM_DISTINCT_QINDEX` / `compute_qindex_with_distinct_quant_factors`) are
executed on enumerated and generated (index, value) pairs; every result is
judged by exact integer comparisons against the property statement and against
R-quant (vlib/ref/quant.py, written from SMPTE ST 2042-1 13.3).
"""
import random

from vlib import jsonx

from vlib.ref import quant as R

PROPERTY = "C12"
LEVEL = "exploration"
TECHNIQUE = (
    "runtime monitoring: results of the real forward_quant/inverse_quant/quant_factor/quant_offset on enumerated and "
    "random (index, integer) pairs judged by an exact rational bound and an independent (13.3) reference"
)
RULE = (
    "an evaluation is one (index, x) pair pushed through the real forward_quant then inverse_quant (classes: exh = every x in "
    "[-E, E]; win = every integer within -2..+3 of floor(m*qf/4) for m < M, both signs, |x| > E; bnd = floor/ceil(k*qf/4)+{-1,0,1} for "
    "huge k beyond the windows; rnd = random integers above the window range with bit lengths spread up to 256 bits and a tail to 600 bits), "
    "or one q given to inverse_quant directly (dq), or one index of the factor/offset/monotonicity table walk (tables), or one random "
    "quantisation matrix given to compute_qindex_with_distinct_quant_factors (matrix). Classes of one index are disjoint by construction "
    "and every batch is de-duplicated with a set, so distinct_nontrivial is an exact count of distinct pairs; a pair is trivial when it "
    "quantises to zero (the reconstruction is then 0 whatever the tables hold). Bound and lossless claims use indices 0-255 "
    "(exhaustive); monotonicity claims walk every index below MONO_HI. Quick: E=4096, M=5000, 5e4 random per index; thorough: E=2^17, M=4e5, 3e6 random per index."
)
ASSUMPTIONS = [
    "indices the bitstream can express are 0-255 (an 8-bit qindex minus a non-negative matrix entry, clamped at 0); the reconstruction bound is demanded there only, monotonicity is walked further (to 1024 quick / 8192 thorough)",
    "'one quantisation step (quant_factor/4)' is evaluated with the quant_factor of SMPTE ST 2042-1 (13.3.2); the repository's quant_factor/quant_offset are the standard's pseudocode and are compared with (13.3.2) under their own signatures (DESIGN section 5, C12: 'R-quant recomputes factors from (13.3.2) to check the repository's table too')",
    "inverse_quant is normative (13.3.1) and is compared value-for-value with the reference; forward_quant follows an informative note, so a forward result different from the reference is only counted, and judged through sign/bound/losslessness of the reconstruction",
    "'keeps the sign (or gives zero)' is read as: the reconstruction is zero or has the sign of the original",
    "the lossless-quantisation test case is read as relying on: for a quantisation matrix with entries v, qindex = compute_qindex_with_distinct_quant_factors(matrix) gives every qindex - v >= MINIMUM_DISTINCT_QINDEX and inverse_quant(1, qindex - v) distinct for distinct v",
]
CASE_TIMEOUT_S = 300
STEP_BUDGET = 400_000_000

BOUND_INDICES = 256
BIG_K = [10 ** 6, 10 ** 9, 10 ** 18, 2 ** 64 - 1, 2 ** 100 + 1, 3 * 2 ** 200 + 7]


def _params(tier):
    if tier == "quick":
        return dict(E=4096, exh_chunk=8193, M=5000, win_chunk=5000, rnd=50000, rnd_batch=50000, dq=4000, mono_hi=1024,
                    matrices=40, matrix_cases=32, nshards=16)
    return dict(E=2 ** 17, exh_chunk=2 ** 16, M=400000, win_chunk=25000, rnd=3000000, rnd_batch=150000, dq=100000,
                mono_hi=8192, matrices=2000, matrix_cases=64, nshards=64)


def _all_cases(tier, seed):
    p = _params(tier)
    out = []
    for lo in range(0, p["mono_hi"], 64):
        out.append({"kind": "tables", "lo": lo, "hi": min(p["mono_hi"], lo + 64)})
    for idx in range(BOUND_INDICES):
        a = -p["E"]
        while a <= p["E"]:
            b = min(p["E"], a + p["exh_chunk"] - 1)
            out.append({"kind": "exh", "index": idx, "lo": a, "hi": b})
            a = b + 1
        for m0 in range(0, p["M"], p["win_chunk"]):
            out.append({"kind": "win", "index": idx, "m0": m0, "m1": min(p["M"], m0 + p["win_chunk"]), "E": p["E"]})
        out.append({"kind": "bnd", "index": idx, "E": p["E"], "M": p["M"]})
        nb = max(1, p["rnd"] // p["rnd_batch"])
        for b in range(nb):
            out.append({"kind": "rnd", "index": idx, "batch": b, "nb": nb, "n": p["rnd_batch"], "E": p["E"], "M": p["M"],
                        "seed": "%d/C12/rnd/%d/%d" % (seed, idx, b)})
        out.append({"kind": "dq", "index": idx, "n": p["dq"], "seed": "%d/C12/dq/%d" % (seed, idx)})
    for i in range(p["matrix_cases"]):
        out.append({"kind": "matrix", "n": p["matrices"], "seed": "%d/C12/matrix/%d" % (seed, i)})
    for i in range(32 if tier == "quick" else 256):
        out.append({"kind": "lqgen", "n": 6, "seed": "%d/C12/lqgen/%d" % (seed, i)})
    # fixed (seed independent) shuffle so that a round-robin split gives shards of equal cost
    random.Random("C12/plan/" + tier).shuffle(out)
    return out


def plan(tier, seed):
    n = _params(tier)["nshards"]
    return [{"shard": s, "nshards": n} for s in range(n)]


def cases(spec, ctx):
    allc = _all_cases(ctx.tier, ctx.seed)
    for c in allc[spec["shard"]::spec["nshards"]]:
        yield c


_F = {}


def _real():
    if not _F:
        from vc2_conformance.pseudocode import quantization as Q

        _F["fq"] = Q.forward_quant
        _F["iq"] = Q.inverse_quant
        _F["qf"] = Q.quant_factor
        _F["qo"] = Q.quant_offset
    return _F


def _lq_module():
    # NB: the package re-exports a *function* of the same name, so import the module by path
    import importlib

    return importlib.import_module("vc2_conformance.test_cases.decoder.lossless_quantization")


def _win_max(qf, M, E):
    return max(E, ((M - 1) * qf) // 4 + 3)


def _bnd_values(qf, floor_excl):
    s = set()
    for k in BIG_K:
        lo = (k * qf) // 4
        hi = -((-k * qf) // 4)
        for v in (lo, hi):
            for d in (-1, 0, 1):
                x = v + d
                if x > floor_excl:
                    s.add(x)
                    s.add(-x)
    return s


def _judge_pairs(ctx, idx, xs, klass):
    """Push every x through the real forward then inverse quantiser and judge.
    Returns (pairs, nontrivial pairs)."""
    f = _real()
    fq = f["fq"]
    iq = f["iq"]
    qf = R.factor(idx)
    off = R.offset(idx)
    nontrivial = 0
    bad = 0
    for x in xs:
        try:
            q = fq(x, idx)
            y = iq(q, idx)
        except Exception as e:
            ctx.violation("quant:exception:" + type(e).__name__, "forward/inverse quantisation of %d at index %d raised %r" % (x, idx, e),
                          detail={"index": idx, "x": x})
            bad += 1
            continue
        if q:
            nontrivial += 1
        d4 = 4 * (y - x)
        if -qf < d4 < qf and (y == 0 or ((y > 0) == (x > 0))) and (idx or y == x):
            # property-level claims hold; now the reference (cheap integer work)
            ax = x if x >= 0 else -x
            eq = (4 * ax) // qf
            ey = (eq * qf + off + 2) // 4 if eq else 0
            if x < 0:
                eq = -eq
                ey = -ey
            if q == eq and y == ey:
                continue
        bad += 1
        if bad <= 100:  # a broken table floods; the first findings of a batch carry all the information
            _explain(ctx, idx, x, q, y, klass)
    if bad:
        ctx.count("pairs_with_a_finding", bad)
    return len(xs), nontrivial


def _explain(ctx, idx, x, q, y, klass):
    """Slow path: classify what is wrong with one (index, x) observation."""
    qf = R.factor(idx)
    det = {"index": idx, "x": x, "forward": q, "inverse_of_forward": y, "quant_factor_13_3_2": qf, "class": klass,
           "reference_forward": R.forward(x, idx), "reference_inverse_of_that": R.inverse(q, idx)}
    if not R.sign_kept(x, y):
        ctx.violation("quant:sign-flipped", "index %d: %d quantises to %d and reconstructs as %d (sign not kept)" % (idx, x, q, y), detail=det)
    if not R.within_one_step(x, y, qf):
        ctx.violation("quant:error-not-below-one-step",
                      "index %d: %d reconstructs as %d, |error|*4 = %d >= quant_factor %d" % (idx, x, y, 4 * abs(x - y), qf), detail=det)
    if idx == 0 and y != x:
        ctx.violation("quant:index0-not-lossless", "index 0: %d reconstructs as %d" % (x, y), detail=det)
    if y != R.inverse(q, idx):
        ctx.violation("quant:inverse-differs-from-13.3.1",
                      "inverse_quant(%d, %d) = %d, (13.3.1) gives %d" % (q, idx, y, R.inverse(q, idx)), detail=det)
    if q != R.forward(x, idx):
        # informative: an encoder may round differently; only counted
        ctx.count("forward_differs_from_informative_note")
        ctx.note("forward_deviation_examples", "index %d x %d -> %d (note: %d)" % (idx, x, q, R.forward(x, idx)) if abs(x) < 10 ** 6 else "big")


def _account(ctx, case_key, klass, idx, pairs, nontrivial):
    ctx.seen(case_key, nontrivial=nontrivial > 0, n=pairs)
    ctx.count("batches")
    ctx.count("pairs:" + klass, pairs)
    ctx.count("distinct_nontrivial_pairs", nontrivial)
    ctx.count("trivial_pairs_quantised_to_zero", pairs - nontrivial)
    ctx.count("nontrivial:" + klass, nontrivial)
    if idx is not None:
        ctx.note("bound_indices:" + klass, idx)
        ctx.count("pairs_index_%s" % ("0" if idx == 0 else "1-7" if idx < 8 else "8-63" if idx < 64 else "64-127" if idx < 128 else "128-255"), pairs)


def run_case(case, ctx):
    kind = case["kind"]
    if kind == "tables":
        return _run_tables(case, ctx)
    if kind == "matrix":
        return _run_matrix(case, ctx)
    if kind == "lqgen":
        return _run_lqgen(case, ctx)
    idx = case["index"]
    qf = R.factor(idx)
    if kind == "exh":
        xs = range(case["lo"], case["hi"] + 1)
        n, nt = _judge_pairs(ctx, idx, xs, kind)
        ctx.count("negative_x", max(0, min(case["hi"], -1) - case["lo"] + 1))
        _account(ctx, [kind, idx, case["lo"], case["hi"]], kind, idx, n, nt)
    elif kind == "win":
        E = case["E"]
        m0, m1 = case["m0"], case["m1"]
        last = E if m0 == 0 else max(E, ((m0 - 1) * qf) // 4 + 3)
        pos = []
        for m in range(m0, m1):
            base = (m * qf) // 4
            for x in range(max(base - 2, last + 1), base + 4):
                pos.append(x)
            if base + 3 > last:
                last = base + 3
        xs = pos + [-x for x in pos]
        n, nt = _judge_pairs(ctx, idx, xs, kind)
        if pos:
            ctx.maxi("max_bits_win", pos[-1].bit_length())
        _account(ctx, [kind, idx, m0, m1], kind, idx, n, nt)
    elif kind == "bnd":
        xs = sorted(_bnd_values(qf, _win_max(qf, case["M"], case["E"])))
        n, nt = _judge_pairs(ctx, idx, xs, kind)
        ctx.maxi("max_bits_bnd", max(abs(x) for x in xs).bit_length())
        _account(ctx, [kind, idx], kind, idx, n, nt)
    elif kind == "rnd":
        rng = random.Random(case["seed"])
        wmax = _win_max(qf, case["M"], case["E"])
        bset = _bnd_values(qf, wmax)
        nb, b = case["nb"], case["batch"]
        lo_bits = (wmax + nb).bit_length() + 1
        xs = set()
        over = 0
        for _ in range(case["n"]):
            r = rng.random()
            if r < 0.45:
                bits = 256
            elif r < 0.95:
                bits = rng.randrange(lo_bits, 257) if lo_bits < 257 else lo_bits
            else:
                bits = rng.randrange(257, 601)
                over += 1
            x = rng.getrandbits(bits) | (1 << (bits - 1))
            x = x - (x % nb) + b  # batches of one index are disjoint by construction
            if x in bset:
                continue
            xs.add(-x if rng.random() < 0.5 else x)
        ctx.count("random_beyond_256_bits", over)
        ctx.maxi("max_bits_rnd", max(abs(x) for x in xs).bit_length())
        ctx.count("negative_x", sum(1 for x in xs if x < 0))
        n, nt = _judge_pairs(ctx, idx, sorted(xs), kind)
        _account(ctx, [kind, idx, b], kind, idx, n, nt)
    elif kind == "dq":
        _run_dq(case, ctx)
    else:
        raise ValueError(kind)
    if idx in (0, 1, 7, 255) and kind == "exh" and case["lo"] <= 0 <= case["hi"]:
        ctx.sample({"kind": kind, "index": idx, "x_range": [case["lo"], case["hi"]],
                    "example": [[x, _real()["fq"](x, idx), _real()["iq"](_real()["fq"](x, idx), idx)] for x in (-9, -1, 0, 5, 1000)]})


def _run_dq(case, ctx):
    """inverse_quant on arbitrary quantised values (not only forward results)."""
    idx = case["index"]
    iq = _real()["iq"]
    rng = random.Random(case["seed"])
    qs = set(range(-300, 301))
    while len(qs) < 601 + case["n"]:
        bits = rng.choice([9, 10, 12, 16, 24, 32, 33, 64, 65, 128, 256, 300])
        v = rng.getrandbits(bits) | (1 << (bits - 1))
        qs.add(-v if rng.random() < 0.5 else v)
    bad = 0
    for q in sorted(qs):
        try:
            y = iq(q, idx)
        except Exception as e:
            ctx.violation("quant:exception:" + type(e).__name__, "inverse_quant(%d, %d) raised %r" % (q, idx, e), detail={"index": idx, "q": q})
            continue
        ey = R.inverse(q, idx)
        if y == ey and (y == 0) == (q == 0) and (q <= 0 or y > 0) and (q >= 0 or y < 0):
            continue
        bad += 1
        det = {"index": idx, "q": q, "inverse": y, "reference": ey}
        if y != ey:
            ctx.violation("quant:inverse-differs-from-13.3.1", "inverse_quant(%d, %d) = %d, (13.3.1) gives %d" % (q, idx, y, ey), detail=det)
        if (q > 0 and y < 0) or (q < 0 and y > 0):
            ctx.violation("quant:sign-flipped", "inverse_quant(%d, %d) = %d" % (q, idx, y), detail=det)
    ctx.count("dq_values", len(qs))
    ctx.count("dq_negative", sum(1 for q in qs if q < 0))
    ctx.note("dq_indices", idx)
    ctx.seen(["dq", idx], nontrivial=True, n=len(qs))
    ctx.count("distinct_nontrivial_pairs", len(qs) - 1)  # q = 0 is the trivial one
    ctx.count("batches")


def _run_tables(case, ctx):
    f = _real()
    qf, qo, iq = f["qf"], f["qo"], f["iq"]
    lo, hi = case["lo"], case["hi"]
    try:
        MDQ = _lq_module().MINIMUM_DISTINCT_QINDEX
    except Exception as e:
        ctx.inconclusive_note("cannot import MINIMUM_DISTINCT_QINDEX: %r" % (e,))
        MDQ = None
    ctx.note("MINIMUM_DISTINCT_QINDEX", MDQ)
    for i in range(lo, hi):
        try:
            a, b = qf(i), qf(i + 1)
            o = qo(i)
            d0, d1 = iq(1, i), iq(1, i + 1)
        except Exception as e:
            ctx.violation("quant:exception:" + type(e).__name__, "table walk at index %d raised %r" % (i, e), detail={"index": i})
            continue
        if not R.tracks_power_of_two(i, R.factor(i)):
            ctx.inconclusive_note("reference quant factor for index %d does not track 4*2^(index/4)" % i)
        ctx.count("reference_selfcheck_indices")
        if a != R.factor(i):
            ctx.violation("quant:factor-differs-from-13.3.2", "quant_factor(%d) = %d, (13.3.2) gives %d" % (i, a, R.factor(i)), detail={"index": i})
        if o != R.offset(i):
            ctx.violation("quant:offset-differs-from-13.3.2", "quant_offset(%d) = %d, (13.3.2) gives %d" % (i, o, R.offset(i)), detail={"index": i})
        if not a < b:
            ctx.violation("quant:factor-not-increasing", "quant_factor(%d) = %d, quant_factor(%d) = %d" % (i, a, i + 1, b), detail={"index": i})
        ctx.count("factor_steps_walked")
        if i >= 7:
            ctx.count("dequantised_one_steps_walked")
            if not d0 < d1:
                ctx.violation("quant:dequantised-one-not-increasing-from-7",
                              "inverse_quant(1, %d) = %d, inverse_quant(1, %d) = %d" % (i, d0, i + 1, d1), detail={"index": i})
        elif d0 >= d1:
            ctx.note("dequantised_one_ties_below_7", "%d,%d" % (i, i + 1))
        if MDQ is not None and MDQ <= i < 7 and not d0 < d1:
            ctx.violation("quant:dequantised-one-not-distinct-from-MINIMUM_DISTINCT_QINDEX",
                          "MINIMUM_DISTINCT_QINDEX = %d but inverse_quant(1, %d) = %d and inverse_quant(1, %d) = %d" % (MDQ, i, d0, i + 1, d1),
                          detail={"index": i, "MINIMUM_DISTINCT_QINDEX": MDQ})
        ctx.note("table_index_bits", (i.bit_length()))
    ctx.maxi("max_table_index", hi)
    ctx.seen(["tables", lo, hi], nontrivial=True, n=hi - lo)
    ctx.count("distinct_nontrivial_pairs", hi - lo)
    ctx.count("batches")
    if lo == 0:
        ctx.sample({"kind": "tables", "quant_factor_0_15": [qf(i) for i in range(16)], "quant_offset_0_15": [qo(i) for i in range(16)],
                    "inverse_quant_1_0_15": [iq(1, i) for i in range(16)]})


def _run_matrix(case, ctx):
    iq = _real()["iq"]
    try:
        LQ = _lq_module()
        compute = LQ.compute_qindex_with_distinct_quant_factors
        MDQ = LQ.MINIMUM_DISTINCT_QINDEX
    except Exception as e:
        ctx.inconclusive_note("cannot import lossless_quantization: %r" % (e,))
        return
    rng = random.Random(case["seed"])
    seen = set()
    for _ in range(case["n"]):
        depth = rng.randrange(0, 5)
        ho = rng.randrange(0, 5)
        top = rng.choice([0, 1, 3, 8, 20, 60, 120, 248])
        m = {0: {("LL" if ho == 0 else "L"): rng.randrange(0, top + 1)}}
        for lvl in range(1, ho + 1):
            m[lvl] = {"H": rng.randrange(0, top + 1)}
        for lvl in range(ho + 1, ho + depth + 1):
            m[lvl] = {o: rng.randrange(0, top + 1) for o in ("HL", "LH", "HH")}
        values = sorted(set(v for lv in m.values() for v in lv.values()))
        key = (depth, ho, tuple(sorted((l, o, v) for l, d in m.items() for o, v in d.items())))
        try:
            qi = compute(m)
            outs = [iq(1, max(0, qi - v)) for v in values]
        except Exception as e:
            ctx.violation("quant:exception:" + type(e).__name__, "compute_qindex_with_distinct_quant_factors raised %r" % (e,), detail={"matrix": repr(m)})
            continue
        if any(qi - v < 7 for v in values) or len(set(outs)) != len(values) or outs != sorted(outs, reverse=True):
            ctx.violation("quant:lossless-test-qindex-not-distinct",
                          "matrix values %r give qindex %d; inverse_quant(1, qindex - v) = %r is not distinct/decreasing in v" % (values, qi, outs),
                          detail={"matrix": repr(m), "qindex": qi, "MINIMUM_DISTINCT_QINDEX": MDQ})
        ctx.count("matrices")
        if len(values) > 1:
            ctx.count("matrices_with_distinct_entries")
        seen.add(key)
        ctx.maxi("max_matrix_qindex", qi)
    nt = sum(1 for k in seen if len(set(v for _, _, v in k[2])) > 1)
    ctx.seen(["matrix", case["seed"]], nontrivial=nt > 0, n=case["n"])
    ctx.count("distinct_nontrivial_pairs", nt)
    ctx.count("batches")


def _run_lqgen(case, ctx):
    """The lossless-quantisation *test case generator* itself: whenever it emits a test case, the qindex it chose must
    make coefficient value 1 dequantise differently for different matrix entries (that is what the test case relies on),
    judged with the reference quantiser on the effective indices qindex - matrix entry found in the emitted description."""
    from vc2_conformance.test_cases.decoder.lossless_quantization import lossless_quantization
    from vc2_data_tables import QUANTISATION_MATRICES, WaveletFilters
    from vlib.gen import configs
    from vlib.ref import rq

    rng = random.Random(case["seed"])
    for _ in range(case["n"]):
        wi = rng.choice([1, 3, 4])
        d = rng.choice([1, 2])
        r = dict(base=0, cdf=rng.choice([0, 1, 2]), pcm=0, ss=0, tff=True, w=8, h=8, fr=None, par=None, prim=None, mat=None, tf=None,
                 profile=3, lossless=True, wi=wi, wih=wi, d=d, dh=0, sx=rng.choice([1, 2]), sy=1, fsc=rng.choice([0, 0, 1]), pb=None,
                 level=0, pics={"n": 1, "class": "mid", "seed": 1, "nums": None})
        exc = rng.choice([8, 9, 12, 15, 31, 63, 255, 255, 1023, 65535])
        r["range"] = [0, exc, (exc + 1) // 2, exc]
        if rng.random() < 0.6:
            lo = rng.choice([0, 0, 1, 2, 4, 4, 120, 244, 247, 249, 250])
            r["qm"] = {"0": {"LL": lo + rng.randrange(0, 3)}}
            for l in range(1, d + 1):
                r["qm"][str(l)] = {"HL": lo + rng.randrange(0, 5), "LH": lo + rng.randrange(0, 5), "HH": lo + rng.randrange(0, 7)}
        else:
            r["qm"] = None
        cf = configs.build_cf(r)
        key = jsonx.key_hash(["lqgen", r])
        try:
            stream = lossless_quantization(cf)
        except Exception as e:
            # no test case was produced (e.g. the qindex needed does not fit its field): nothing to judge here
            ctx.count("lqgen_raised:" + type(e).__name__)
            ctx.seen(key, nontrivial=False)
            continue
        if stream is None:
            ctx.count("lqgen_omitted")
            ctx.seen(key, nontrivial=False)
            continue
        ctx.count("lqgen_emitted")
        ctx.seen(key)
        if r["qm"] is not None:
            entries = sorted(set(v for lv in r["qm"].values() for v in lv.values()))
        else:
            dm = QUANTISATION_MATRICES[(WaveletFilters(wi), WaveletFilters(wi), d, 0)]
            entries = sorted(set(v for lv in dm.values() for v in lv.values()))
        qs = set()
        for seq in stream["sequences"]:
            for du in seq["data_units"]:
                td = None
                if "picture_parse" in du:
                    td = du["picture_parse"]["wavelet_transform"]["transform_data"]
                elif "fragment_parse" in du and "fragment_data" in du["fragment_parse"]:
                    td = du["fragment_parse"]["fragment_data"]
                if td is not None:
                    for sl in td.get("hq_slices", []):
                        qs.add(sl["qindex"])
        for q in sorted(qs):
            vals = {}
            for m in entries:
                y = rq.inverse_quant(1, max(q - m, 0))
                if y in vals:
                    ctx.violation("quant:lossless-test-case-qindex-not-distinct",
                                  "lossless_quantization test case uses qindex %d with matrix entries %r: entries %d and %d both dequantise 1 to %d (effective indices %d, %d)"
                                  % (q, entries, vals[y], m, y, max(q - vals[y], 0), max(q - m, 0)), case={"kind": "lqgen", "n": 1, "seed": case["seed"]})
                    break
                vals[y] = m
            ctx.count("lqgen_qindices_checked")
        if len(entries) > 1:
            ctx.count("lqgen_emitted_with_distinct_entries")


def floor(agg, tier):
    p = _params(tier)
    c = agg["counters"]
    s = agg["sets"]
    miss = []
    for klass in ("exh", "win", "bnd", "rnd"):
        if len(s.get("bound_indices:" + klass, ())) != BOUND_INDICES:
            miss.append("class %s did not reach all %d indices (reached %d)" % (klass, BOUND_INDICES, len(s.get("bound_indices:" + klass, ()))))
        if c.get("nontrivial:" + klass, 0) < c.get("pairs:" + klass, 0) // 50 or c.get("nontrivial:" + klass, 0) == 0:
            miss.append("class %s: too few pairs with a non-zero quantised value" % klass)
    if c.get("pairs:exh", 0) != BOUND_INDICES * (2 * p["E"] + 1):
        miss.append("exhaustive range not complete: %d pairs, expected %d" % (c.get("pairs:exh", 0), BOUND_INDICES * (2 * p["E"] + 1)))
    if c.get("pairs:rnd", 0) < BOUND_INDICES * p["rnd"] * 9 // 10:
        miss.append("fewer random pairs than planned")
    if c.get("trivial_pairs_quantised_to_zero", 0) == 0:
        miss.append("no pair quantised to zero")
    if len(s.get("dq_indices", ())) != BOUND_INDICES or c.get("dq_negative", 0) == 0:
        miss.append("direct inverse_quant workload incomplete")
    if c.get("factor_steps_walked", 0) != p["mono_hi"] or c.get("dequantised_one_steps_walked", 0) != p["mono_hi"] - 7:
        miss.append("monotonicity walk incomplete (%d factor steps)" % c.get("factor_steps_walked", 0))
    if c.get("reference_selfcheck_indices", 0) != p["mono_hi"]:
        miss.append("reference self-check incomplete")
    if c.get("lqgen_emitted_with_distinct_entries", 0) < 60 or c.get("lqgen_qindices_checked", 0) < 60:
        miss.append("lossless_quantization generator stratum too thin (%d emitted with distinct entries)" % c.get("lqgen_emitted_with_distinct_entries", 0))
    if c.get("matrices_with_distinct_entries", 0) < 100:
        miss.append("fewer than 100 quantisation matrices with distinct entries")
    if c.get("max_bits_rnd", 0) < 500 or c.get("random_beyond_256_bits", 0) == 0:
        miss.append("no random value beyond 256 bits")
    if c.get("negative_x", 0) == 0:
        miss.append("no negative coefficient")
    for b in ("0", "1-7", "8-63", "64-127", "128-255"):
        if c.get("pairs_index_" + b, 0) == 0:
            miss.append("no pairs in index stratum " + b)
    if list(s.get("MINIMUM_DISTINCT_QINDEX", ())) in ([], [None]):
        miss.append("MINIMUM_DISTINCT_QINDEX not observed")
    return miss


def evidence_extra(agg, tier):
    c = agg["counters"]
    p = _params(tier)
    return {
        "distinct_nontrivial": c.get("distinct_nontrivial_pairs", 0),
        "distinct_batches_registered": len(agg["distinct"]),
        "exhaustive": False,
        "exhaustive_boxes": [
            "every (index, x) with index in 0..255 and |x| <= %d" % p["E"],
            "every index in 0..%d for quant_factor/quant_offset vs (13.3.2) and both monotonicity claims" % (p["mono_hi"] - 1),
        ],
        "parameters": {k: p[k] for k in ("E", "M", "rnd", "dq", "mono_hi", "matrices", "matrix_cases")},
    }
