"""C15 — every generated sequence header encodes exactly the requested video format.

Monitor: each header yielded by the real `iter_sequence_headers(cf)` is put in
a stream [sequence_header, end_of_sequence], serialised with autofill and run
through the real validator.  A hook rebound over the validator's
`sequence_header` function captures `state["video_parameters"]` and
`state["picture_coding_mode"]` at the moment the header has been parsed and
all its level constraints asserted.
"""
import copy

from vlib import jsonx, vc2util
from vlib.rebind import Rebind
from vlib.worker import OutOfScope

PROPERTY = "C15"
LEVEL = "exploration"
TECHNIQUE = "runtime monitoring: every header from the real iter_sequence_headers is serialised and validated; decoder state captured at a rebound sequence_header hook and compared with the requested format"
RULE = (
    "case = (base video format, 0-5 perturbed video-parameter fields, picture coding mode, level, profile); every header the "
    "generator yields for it (all of them, capped at 400) is one evaluation; real levels are exercised from each level "
    "column's own admitted base formats; distinct = distinct serialised header bytes; cases for which the generator yields "
    "no header (format not admitted by the level) are counted, not judged"
)
ASSUMPTIONS = [
    "frame sizes are regular (multiples of the subsampling factors; doubled vertically for interlaced sources or field coding)",
    "for levels whose data-unit ordering pattern forbids a picture-less sequence (64, 65, 66) acceptance is judged at the end of the header (hook), because a conformant 1080p/UHD picture is far outside the tier budgets; for all other levels the whole [header, end_of_sequence] stream must be accepted",
    "clean areas lie inside the frame",
    "30 % of the level-0 cases use an 8x8 frame and put real (mid-grey) pictures after every generated header so that the validator's end-of-sequence rules are exercised too",
]
CASE_TIMEOUT_S = 120


class _StopAfterHeader(BaseException):
    pass


_st = {}


def setup(ctx):
    import sys

    import vc2_conformance.decoder.stream  # noqa: F401

    SH = sys.modules["vc2_conformance.decoder.sequence_header"]

    cap = {}

    def factory(orig):
        def wrapped(state):
            r = orig(state)
            cap["video_parameters"] = copy.deepcopy(r)
            cap["picture_coding_mode"] = state["picture_coding_mode"]
            cap["calls"] = cap.get("calls", 0) + 1
            if cap.get("stop"):
                raise _StopAfterHeader()
            return r

        return wrapped

    _st["cap"] = cap
    _st["rb"] = Rebind(SH.sequence_header, factory).install()


def plan(tier, seed):
    n = 640 if tier == "quick" else 40000
    nsh = 16 if tier == "quick" else 64
    return [{"shard": i, "n": n // nsh, "nshards": nsh} for i in range(nsh)]


def _level_columns():
    """(level, base formats, picture_coding_modes, profiles) per real level column, read from the table in use"""
    from vc2_conformance.level_constraints import LEVEL_CONSTRAINTS

    cols = []
    for c in LEVEL_CONSTRAINTS:
        lv = sorted(c["level"].iter_values())
        if lv == [0] or not lv:
            continue
        try:
            bases = sorted(int(b) for b in c["base_video_format"].iter_values())
        except Exception:
            continue
        cols.append((int(lv[0]), bases))
    return cols


def cases(spec, ctx):
    from vc2_data_tables import (BaseVideoFormats, PRESET_FRAME_RATES, PRESET_PIXEL_ASPECT_RATIOS, PRESET_SIGNAL_RANGES,
                                 PresetColorMatrices, PresetColorPrimaries, PresetTransferFunctions, PRESET_COLOR_SPECS)

    rng = ctx.rng
    bases = [int(b) for b in BaseVideoFormats]
    from vc2_conformance.level_constraints import LEVEL_CONSTRAINTS

    ncols = len(LEVEL_CONSTRAINTS)
    for i in range(spec["n"]):
        real = rng.random() < 0.5 and ncols > 1
        if real:
            yield {"col": rng.randrange(1, ncols), "vseed": rng.randrange(1 << 30)}
            continue
        level = 0
        base = rng.choice(bases)
        k = rng.choice([0, 1, 2, 3, 4, 5])
        over = {}
        fields = rng.sample(["size", "cdf", "ss", "tff", "fr", "par", "clean", "range", "prim", "mat", "tf", "spec"], k)
        for f in fields:
            if f == "size":
                over["size"] = [4 * rng.randrange(1, 2000), 4 * rng.randrange(1, 1200)]
            elif f == "cdf":
                over["cdf"] = rng.choice([0, 1, 2])
            elif f == "ss":
                over["ss"] = rng.choice([0, 1])
            elif f == "tff":
                over["tff"] = rng.choice([True, False])
            elif f == "fr":
                if rng.random() < 0.6:
                    p = PRESET_FRAME_RATES[rng.choice(sorted(PRESET_FRAME_RATES))]
                    over["fr"] = [p.numerator, p.denominator]
                else:
                    over["fr"] = [rng.randrange(1, 100000), rng.randrange(1, 1002)]
            elif f == "par":
                if rng.random() < 0.6:
                    p = PRESET_PIXEL_ASPECT_RATIOS[rng.choice(sorted(PRESET_PIXEL_ASPECT_RATIOS))]
                    over["par"] = [p.numerator, p.denominator]
                else:
                    over["par"] = [rng.randrange(1, 200), rng.randrange(1, 200)]
            elif f == "clean":
                over["clean"] = [rng.random(), rng.random(), rng.random(), rng.random()]
            elif f == "range":
                if rng.random() < 0.6:
                    p = PRESET_SIGNAL_RANGES[rng.choice(sorted(PRESET_SIGNAL_RANGES))]
                    over["range"] = [p.luma_offset, p.luma_excursion, p.color_diff_offset, p.color_diff_excursion]
                else:
                    d = rng.randrange(1, 17)
                    over["range"] = [rng.randrange(0, 1 << d), rng.randrange(1, 1 << d), rng.randrange(0, 1 << d), rng.randrange(1, 1 << d)]
            elif f == "prim":
                over["prim"] = rng.choice([int(x) for x in PresetColorPrimaries])
            elif f == "mat":
                over["mat"] = rng.choice([int(x) for x in PresetColorMatrices])
            elif f == "tf":
                over["tf"] = rng.choice([int(x) for x in PresetTransferFunctions])
            elif f == "spec":
                p = PRESET_COLOR_SPECS[rng.choice(sorted(PRESET_COLOR_SPECS))]
                over["prim"], over["mat"], over["tf"] = int(p.color_primaries_index), int(p.color_matrix_index), int(p.transfer_function_index)
        with_picture = False
        if rng.random() < 0.3:
            # small frame so that a real picture can follow every header (the validator's end-of-sequence
            # checks, e.g. the minimal-version rule, only bite when the sequence holds pictures)
            over["size"] = [8, 8]
            over.pop("clean", None)
            with_picture = True
        case = {"base": base, "over": over, "pcm": rng.choice([0, 1]), "level": level,
                "profile": rng.choice([0, 3]), "with_picture": with_picture}
        yield case
        if rng.random() < 0.2 and over:
            # sibling format right after: the same case with one perturbed field dropped (back to the base's value)
            sb = dict(case, over=dict(over))
            drop = rng.choice(sorted(k for k in over if not (with_picture and k == "size")) or [None])
            if drop is not None:
                sb["over"].pop(drop)
                yield sb


def _pick(vs, candidates, rng):
    ok = [c for c in candidates if c in vs]
    return rng.choice(ok) if ok else None


def build_cf_from_column(case):
    """A configuration meant to be admitted by one column of the real level table:
    every value the column restricts is taken from the column itself."""
    import random
    from fractions import Fraction

    from vc2_conformance.codec_features import CodecFeatures
    from vc2_conformance.level_constraints import LEVEL_CONSTRAINTS
    from vc2_conformance.pseudocode.video_parameters import set_source_defaults
    from vc2_data_tables import (BaseVideoFormats, Levels, PictureCodingModes, Profiles, SourceSamplingModes, WaveletFilters,
                                 PRESET_FRAME_RATES, PRESET_PIXEL_ASPECT_RATIOS, QUANTISATION_MATRICES)

    rng = random.Random(case["vseed"])
    col = LEVEL_CONSTRAINTS[case["col"]]
    level = _pick(col["level"], [int(l) for l in Levels], rng)
    base = _pick(col["base_video_format"], [int(b) for b in BaseVideoFormats], rng)
    profile = _pick(col["profile"], [0, 3], rng)
    pcm = _pick(col["picture_coding_mode"], [0, 1], rng)
    wi = _pick(col["wavelet_index"], [int(w) for w in WaveletFilters], rng)
    d = _pick(col["dwt_depth"], [0, 1, 2, 3, 4], rng)
    sx = _pick(col["slices_x"], [1, 2, 80, 90, 120], rng)
    sy = _pick(col["slices_y"], [1, 2, 68, 90, 270], rng)
    if None in (level, base, profile, pcm, wi, d, sx, sy):
        return None
    vp = set_source_defaults(BaseVideoFormats(base))
    if False not in col["custom_dimensions_flag"] or (True in col["custom_dimensions_flag"] and rng.random() < 0.3):
        w = _pick(col["frame_width"], [720, 1440, 1920, vp["frame_width"]], rng)
        h = _pick(col["frame_height"], [480, 484, 486, 1080, vp["frame_height"]], rng)
        if w and h:
            vp["frame_width"], vp["frame_height"] = w, h
    if False not in col["custom_scan_format_flag"]:
        ss = _pick(col["source_sampling"], [0, 1], rng)
        if ss is not None:
            vp["source_sampling"] = SourceSamplingModes(ss)
    if True in col["custom_frame_rate_flag"] and rng.random() < 0.7:
        idx = _pick(col["frame_rate_index"], sorted(int(i) for i in PRESET_FRAME_RATES), rng)
        if idx:
            fr = PRESET_FRAME_RATES[idx]
            vp["frame_rate_numer"], vp["frame_rate_denom"] = fr.numerator, fr.denominator
    if False not in col["custom_pixel_aspect_ratio_flag"]:
        idx = _pick(col["pixel_aspect_ratio_index"], sorted(int(i) for i in PRESET_PIXEL_ASPECT_RATIOS), rng)
        if idx:
            pa = PRESET_PIXEL_ASPECT_RATIOS[idx]
            vp["pixel_aspect_ratio_numer"], vp["pixel_aspect_ratio_denom"] = pa.numerator, pa.denominator
    if False not in col["custom_clean_area_flag"]:
        for k, cands in (("clean_width", [720, 1440, 1920]), ("clean_height", [480, 1080]), ("left_offset", [0]), ("top_offset", [0])):
            v = _pick(col[k], cands, rng)
            if v is not None:
                vp[k] = v
    pb = 64 * sx * sy
    if profile == 0:
        num = _pick(col["slice_bytes_numerator"], [64, 243, 288, 729, 864, 972, 1152, 7], rng)
        den = _pick(col["slice_bytes_denominator"], [1, 5, 17], rng)
        if num is None or den is None:
            return None
        f = Fraction(num, den) * sx * sy
        if f.denominator != 1:
            return None
        pb = int(f)
    qm = None
    if (WaveletFilters(wi), WaveletFilters(wi), d, 0) not in QUANTISATION_MATRICES:
        return None
    return CodecFeatures(
        name="c15", level=Levels(level), profile=Profiles(profile), picture_coding_mode=PictureCodingModes(pcm),
        video_parameters=vp, wavelet_index=WaveletFilters(wi), wavelet_index_ho=WaveletFilters(wi), dwt_depth=d, dwt_depth_ho=0,
        slices_x=sx, slices_y=sy, fragment_slice_count=0, lossless=False, picture_bytes=pb, quantization_matrix=qm,
    )


def build_cf(case):
    if "col" in case:
        return build_cf_from_column(case)
    from vc2_conformance.codec_features import CodecFeatures
    from vc2_conformance.pseudocode.video_parameters import set_source_defaults
    from vc2_data_tables import (BaseVideoFormats, ColorDifferenceSamplingFormats, Levels, PictureCodingModes, PresetColorMatrices,
                                 PresetColorPrimaries, PresetTransferFunctions, Profiles, SourceSamplingModes, WaveletFilters)

    vp = set_source_defaults(BaseVideoFormats(case["base"]))
    o = case["over"]
    if "cdf" in o:
        vp["color_diff_format_index"] = ColorDifferenceSamplingFormats(o["cdf"])
    if "ss" in o:
        vp["source_sampling"] = SourceSamplingModes(o["ss"])
    if "tff" in o:
        vp["top_field_first"] = bool(o["tff"])
    if "size" in o:
        vp["frame_width"], vp["frame_height"] = o["size"]
        vp["clean_width"], vp["clean_height"] = o["size"]
        vp["left_offset"] = vp["top_offset"] = 0
    if "clean" in o:
        a, b, c, d = o["clean"]
        vp["left_offset"] = int(a * vp["frame_width"] / 2)
        vp["top_offset"] = int(b * vp["frame_height"] / 2)
        # (draws below 0.04 give an empty clean area: zero width or height is allowed by 11.4.8 and by the codec-features reader)
        vp["clean_width"] = 0 if c < 0.04 else max(1, int(c * (vp["frame_width"] - vp["left_offset"])))
        vp["clean_height"] = 0 if d < 0.04 else max(1, int(d * (vp["frame_height"] - vp["top_offset"])))
    if "fr" in o:
        vp["frame_rate_numer"], vp["frame_rate_denom"] = o["fr"]
    if "par" in o:
        vp["pixel_aspect_ratio_numer"], vp["pixel_aspect_ratio_denom"] = o["par"]
    if "range" in o:
        vp["luma_offset"], vp["luma_excursion"], vp["color_diff_offset"], vp["color_diff_excursion"] = o["range"]
    if "prim" in o:
        vp["color_primaries_index"] = PresetColorPrimaries(o["prim"])
    if "mat" in o:
        vp["color_matrix_index"] = PresetColorMatrices(o["mat"])
    if "tf" in o:
        vp["transfer_function_index"] = PresetTransferFunctions(o["tf"])
    return CodecFeatures(
        name="c15", level=Levels(case["level"]), profile=Profiles(case["profile"]),
        picture_coding_mode=PictureCodingModes(case["pcm"]), video_parameters=vp,
        wavelet_index=WaveletFilters.haar_with_shift, wavelet_index_ho=WaveletFilters.haar_with_shift, dwt_depth=1, dwt_depth_ho=0,
        slices_x=1, slices_y=1, fragment_slice_count=0, lossless=False, picture_bytes=64, quantization_matrix=None,
    )


NEEDS_PICTURES = (64, 65, 66)
MAX_HEADERS = 400


def run_case(case, ctx):
    import vc2_conformance.bitstream as B
    from vc2_conformance.encoder.sequence_header import iter_sequence_headers
    from vc2_data_tables import ParseCodes

    cf = build_cf(case)
    if cf is None:
        ctx.count("column_without_candidate_configuration")
        return
    case = dict(case, level=int(cf["level"]), pcm=int(cf["picture_coding_mode"]), over=case.get("over", {}))
    vp = cf["video_parameters"]
    cap = _st["cap"]
    # regular formats only (the standard cannot represent others, 11.6.2)
    xm = 2 if int(vp["color_diff_format_index"]) in (1, 2) else 1
    ym = (2 if int(vp["color_diff_format_index"]) == 2 else 1) * (2 if case["pcm"] == 1 else 1)
    if vp["frame_width"] % xm or vp["frame_height"] % ym:
        ctx.count("irregular_format_skipped")
        return
    n = 0
    try:
        headers = []
        for h in iter_sequence_headers(cf):
            headers.append(h)
            if len(headers) >= MAX_HEADERS:
                ctx.count("cases_capped_at_%d_headers" % MAX_HEADERS)
                break
    except Exception as e:
        ctx.violation("header-generator-crash:" + type(e).__name__, "iter_sequence_headers raised %r" % (e,))
        return
    kind = "real-level" if case["level"] else "level0"
    if not headers:
        ctx.count("no_header:" + kind)
        return
    ctx.count("cases_with_headers:" + kind)
    stop = case["level"] in NEEDS_PICTURES
    pic_units = None
    if case.get("with_picture"):
        from vc2_conformance.encoder import make_sequence
        from vc2_conformance.picture_generators import mid_gray

        full = make_sequence(cf, list(mid_gray(vp, cf["picture_coding_mode"])))
        pic_units = [du for du in full["data_units"] if "picture_parse" in du]
        ctx.count("cases_with_pictures")
    # one case in three uses the yielded header objects themselves, one after another, without copying them first (each
    # yielded header is its own description: serialising one must not change what the next one encodes)
    in_place = ctx.rng.random() < 0.34
    if in_place:
        ctx.count("cases_serialised_in_place")
    for hi, h in enumerate(headers):
        h_before = copy.deepcopy(h)  # as yielded (in-place serialisation fills in AUTO fields of h itself)
        seq = B.Sequence(data_units=[
            B.DataUnit(parse_info=B.ParseInfo(parse_code=ParseCodes.sequence_header), sequence_header=h if in_place else copy.deepcopy(h)),
        ] + (copy.deepcopy(pic_units) if pic_units else []) + [
            B.DataUnit(parse_info=B.ParseInfo(parse_code=ParseCodes.end_of_sequence)),
        ])
        if pic_units:
            ctx.count("headers_followed_by_pictures")
        try:
            data = vc2util.serialise([seq], in_place=in_place)
        except Exception as e:
            ctx.violation("header-not-serialisable:" + type(e).__name__, "header %d failed to serialise: %r" % (hi, e), detail=repr(h))
            continue
        ctx.seen(jsonx.key_hash(data))
        ctx.count("headers:" + kind)
        if hi:
            ctx.count("alternative_encodings")
        cap.clear()
        cap["stop"] = stop
        stopped = False
        try:
            v = vc2util.validate(data, keep_pictures=False)
        except _StopAfterHeader:
            stopped = True
            v = None
        finally:
            cap["stop"] = False
        if (not cap.get("calls") and v is not None and v.kind == "ce" and v.exc_class == "ValueNotAllowedInLevel"
                and getattr(v.exc, "key", None) == "major_version" and isinstance(v.exc.value, int)
                and all(x not in v.exc.allowed_values for x in range(0, v.exc.value + 1))):
            # The level column demands a major_version above the minimal one that autofill (correctly, per
            # 11.2.2) chose for this stream; a higher one would fail the minimality rule instead.  DESIGN D8.
            ctx.violation("level-requires-nonminimal-version",
                          "level %d admits only major_version %s but the stream's features need only %d"
                          % (case["level"], v.exc.allowed_values, v.exc.value))
            # still compare the decoded format: fix a version the level admits and stop at the header hook
            allowed = [x for x in (1, 2, 3) if x in v.exc.allowed_values]
            if allowed:
                if in_place:
                    # the description just serialised in place carries filled-in offsets: start again from the header as yielded
                    seq = B.Sequence(data_units=[
                        B.DataUnit(parse_info=B.ParseInfo(parse_code=ParseCodes.sequence_header), sequence_header=copy.deepcopy(h_before)),
                    ] + (copy.deepcopy(pic_units) if pic_units else []) + [
                        B.DataUnit(parse_info=B.ParseInfo(parse_code=ParseCodes.end_of_sequence)),
                    ])
                seq["data_units"][0]["sequence_header"]["parse_parameters"]["major_version"] = allowed[0]
                data = vc2util.serialise([seq])
                cap.clear()
                cap["stop"] = True
                stopped = False
                try:
                    v = vc2util.validate(data, keep_pictures=False)
                except _StopAfterHeader:
                    stopped = True
                    v = None
                finally:
                    cap["stop"] = False
                ctx.count("retried_with_level_version")
        if not cap.get("calls"):
            if v is not None and v.kind == "ce":
                ctx.violation("header-rejected:" + v.exc_class, "validator raised %s before/inside the header (level %d): %s"
                              % (v.exc_class, case["level"], _explain(v.exc)), detail=repr(h))
            elif v is not None and v.kind == "crash":
                ctx.violation("validator-crash:" + v.exc_class, "validator crashed on a generated header", detail=v.tb)
            else:
                ctx.inconclusive_note("sequence_header hook not reached")
            continue
        ctx.count("hook_calls")
        if not stopped:
            if v.kind == "ce":
                ctx.violation("header-stream-rejected:" + v.exc_class, "validator rejected [header, end_of_sequence] under level %d: %s"
                              % (case["level"], _explain(v.exc)), detail=repr(h))
                continue
            if v.kind != "ok":
                ctx.violation("validator-crash:" + str(v.exc_class), "validator crashed on a generated header", detail=v.tb)
                continue
            ctx.count("whole_stream_accepted")
        else:
            ctx.count("accepted_at_header_hook")
        got = cap["video_parameters"]
        if dict(got) != dict(vp):
            diff = sorted(k for k in set(got) | set(vp) if got.get(k) != vp.get(k))
            ctx.violation("decoded-format-differs:" + ",".join(diff),
                          "header %d decodes to different %s: %s" % (hi, diff, ", ".join("%s=%r (wanted %r)" % (k, got.get(k), vp.get(k)) for k in diff)),
                          detail=repr(h))
        if cap["picture_coding_mode"] != cf["picture_coding_mode"]:
            ctx.violation("decoded-picture-coding-mode-differs", "header %d decodes to mode %r" % (hi, cap["picture_coding_mode"]))
        ctx.note("bases_used", int(h["base_video_format"]))
        ctx.note("levels", case["level"])
    ctx.note("perturbed", ",".join(sorted(case["over"])))
    if ctx.rng.random() < 0.004:
        ctx.sample(case)


def _explain(e):
    try:
        return e.explain()[:500]
    except Exception as e2:
        return "explain() failed: %r" % (e2,)


def floor(agg, tier):
    c = agg["counters"]
    s = 1 if tier == "quick" else 30
    miss = []
    if c.get("headers:level0", 0) < 4000 * s:
        miss.append("fewer than %d headers under level 0 (%d)" % (4000 * s, c.get("headers:level0", 0)))
    if c.get("headers:real-level", 0) < 60 * s:
        miss.append("fewer than %d headers under real levels (%d)" % (60 * s, c.get("headers:real-level", 0)))
    if c.get("alternative_encodings", 0) < 3000 * s:
        miss.append("too few alternative encodings")
    if c.get("hook_calls", 0) < 4000 * s:
        miss.append("sequence_header hook reached too rarely")
    if c.get("headers_followed_by_pictures", 0) < 1000 * s:
        miss.append("too few headers validated with pictures following")
    if len(agg["sets"].get("levels", ())) < 8:
        miss.append("fewer than 8 distinct levels exercised")
    if len(agg["sets"].get("bases_used", ())) < 20:
        miss.append("fewer than 20 base video formats used by generated headers")
    return miss
