"""C02 — the validator terminates with a verdict on any in-scope byte string.

Monitor: the real `vc2_conformance.decoder.parse_stream` is run on generated
hostile byte strings under a harness-side size guard.  Observed: the exception
escaping it (type, innermost repository frame), the four reporting methods of
every ConformanceError, the number of repository function entries the case
consumed (sys.monitoring) against an analytic budget, and `bits_left >= 0` at
entry of the decoder's bounded-block readers.
"""
import ast
import glob
import os
import re
import sys

from vlib import jsonx, vc2util, worker
from vlib.gen import corpus as corpus_mod
from vlib.gen import mutate

PROPERTY = "C02"
LEVEL = "exploration"
TECHNIQUE = (
    "runtime monitoring: the real validator on byte-, field- and unit-level mutations, truncations and random bytes "
    "under a size guard; exception-type / reporting-method monitor, logical step counter vs analytic budget, "
    "bits_left invariant hook"
)
RULE = (
    "case = one byte string: (a) every seed stream of the corpus (valid streams of ~65 configurations/variants built with "
    "the real encoder), (b) prefixes of every seed (thorough: every prefix; quick: every prefix of seeds <= 300 bytes, "
    "else first 64 bytes, +-8 bytes around every data unit boundary and every 7th byte), (c) vlib.gen.mutate.random_case: "
    "(incl. runs of >= 3572 zero bytes in sequence header fields, i.e. integers of > 4300 digits) "
    "stacked byte-level operators, field-level edits of the deserialised description re-serialised without autofill, "
    "coordinated unit-interaction operators, pure random bytes, random bytes after a valid sequence header; "
    "distinct = distinct byte string; cases rejected at the very first parse_info are trivial; out-of-scope "
    "(size guard) cases are counted separately and are not evaluations"
)
ASSUMPTIONS = [
    "'modest bounds' (DESIGN section 3/7.7): dwt_depth, dwt_depth_ho <= 4; slices_x, slices_y <= 16; slice_prefix_bytes, "
    "slice_size_scaler <= 64; slice_bytes_numerator <= 2^14; excursions <= 2^20; frame_width, frame_height <= 256; "
    "luma_width*luma_height <= 4096; sample depth <= 21 bits -- anything declaring more is out of scope",
    "termination is decided on logical steps (repository function entries), never on wall-clock: budget = "
    "400 * (8*len(data) + 2*(coefficients declared by the pictures initialised so far) + 2000); the design's form "
    "50*(8*len + coefficients per picture * parse_infos) was replaced by the sum over initialised pictures, which is never larger",
    "a ConformanceError is well reported when explain(), str(), offending_offset() and "
    "bitstream_viewer_hint().format(cmd=,file=,offset=) return without raising and with the documented types",
]
CASE_TIMEOUT_S = 120
STEP_BUDGET = 150000000  # re-decision of soft-timed-out cases (runner stage 2)

# Analytic budget: STEP_K * unit, unit = 8*len(data) + 2*(declared coefficients) + 2000.
# Calibration on the unchanged tree: a valid stream costs ~7 entries per input bit;
# a declared coefficient costs 12-24 entries (bounded-block read, inverse
# quantisation, IDWT; worst measured: LD, 4+4 levels, 16x256 -> 256x256 padded, 133
# byte stream: 23.6 per coefficient = 11.7 per unit); fixed overhead (State, Matcher,
# explain()) ~2500 entries.  Largest steps/unit seen over seeds 0..5, both tiers and
# the hand-made worst cases above: < 12.  STEP_K = 400 is > 33x that; floor()
# reports the run inconclusive if the observed headroom ever drops below 20x.
STEP_K = 400
UNIT_BASE = 2000
UNIT_PER_COEFF = 2

N_RANDOM = {"quick": 36000, "thorough": 480000}
N_SHARDS = {"quick": 16, "thorough": 64}

_MON = {"ctx": None, "guard": None, "rebinds": {}, "sc": None, "coeffs": 0, "iwd_calls": 0, "parse_infos": 0,
        "len": 0, "bits_left_bad": None}


# --------------------------------------------------------------------------
# setup: guard + hooks
# --------------------------------------------------------------------------
class _Counter(worker.StepCounter):
    TOOL = 3  # (worker.StepCounter uses 4)


def _unit():
    return 8 * _MON["len"] + UNIT_PER_COEFF * _MON["coeffs"] + UNIT_BASE


def _budget():
    return STEP_K * _unit()


def setup(ctx):
    from vlib.rebind import Rebind
    import vc2_conformance.decoder  # noqa: F401
    from vc2_conformance.decoder import io as dio
    from vc2_conformance.decoder import stream as dstream
    from vc2_conformance.decoder import transform_data_syntax as tds

    _MON["ctx"] = ctx
    _MON["guard"] = vc2util.SizeGuard().install()

    def bits_left_checker(name):
        def factory(orig):
            def checked(state):
                bl = state.get("bits_left")
                if bl is None or bl < 0:
                    if _MON["bits_left_bad"] is None:
                        _MON["bits_left_bad"] = (name, bl)
                return orig(state)

            return checked

        return factory

    def pi_factory(orig):
        def counted_parse_info(state):
            _MON["parse_infos"] += 1
            return orig(state)

        return counted_parse_info

    def iwd_factory(orig):
        def measured(state, comp):
            out = orig(state, comp)
            _MON["iwd_calls"] += 1
            # every picture needs at least a 13 byte parse_info: the number of
            # initialisations that may raise the budget is bounded by the input
            if _MON["iwd_calls"] <= 3 * (_MON["len"] // 13 + 1):
                n = 0
                for level in out.values():
                    for band in level.values():
                        if band:
                            n += len(band) * len(band[0])
                _MON["coeffs"] += n
                sc = _MON["sc"]
                if sc is not None:
                    sc.budget = _budget()
            return out

        return measured

    rb = _MON["rebinds"]
    rb["read_bitb"] = Rebind(dio.read_bitb, bits_left_checker("read_bitb")).install()
    rb["flush_inputb"] = Rebind(dio.flush_inputb, bits_left_checker("flush_inputb")).install()
    rb["parse_info"] = Rebind(dstream.parse_info, pi_factory).install()
    rb["initialize_wavelet_data"] = Rebind(tds.initialize_wavelet_data, iwd_factory).install()


def teardown(ctx):
    g = _MON["guard"]
    if g is not None:
        ctx.count("guard_calls", g.calls)
    for name, r in _MON["rebinds"].items():
        ctx.count("hook_calls:" + name, r.calls)
    for k, v in corpus_mod.STATS.items():
        ctx.count("corpus_" + k, v)
    for k, v in mutate.STATS.items():
        ctx.count("mutate_" + k, v)


# --------------------------------------------------------------------------
# plan / cases
# --------------------------------------------------------------------------
def plan(tier, seed):
    nsh = N_SHARDS[tier]
    return [{"shard": i, "nshards": nsh, "n_random": N_RANDOM[tier] // nsh} for i in range(nsh)]


def _quick_prefix_lengths(data):
    n = len(data)
    if n <= 300:
        return range(n)
    keep = set(range(min(64, n)))
    keep.update(range(0, n, 7))
    try:
        for u in vc2util.framing(data, strict=False):
            for d in range(-8, 9):
                p = u.offset + d
                if 0 <= p < n:
                    keep.add(p)
                p = u.offset + 13 + d
                if 0 <= p < n:
                    keep.add(p)
    except Exception:
        pass
    return sorted(keep)


ABORT_AFTER_BUDGET_VIOLATIONS = 10


def _abort(ctx):
    """A tree on which the validator keeps running past its budget costs seconds
    per case: after 10 such violations (never on the unchanged tree) the shard
    stops generating cases -- the verdict is 'violated' either way."""
    if ctx.violation_counts.get("no-result-within-logical-budget", 0) >= ABORT_AFTER_BUDGET_VIOLATIONS:
        if not ctx.counters.get("shard_aborted_after_budget_violations"):
            ctx.count("shard_aborted_after_budget_violations")
        return True
    return False


def cases(spec, ctx):
    tier = spec.get("tier", ctx.tier)
    # (the seeds are validated here, as cases under the step counter, not by the builder)
    corp = corpus_mod.seed_corpus(ctx.seed, "quick" if tier == "quick" else "thorough", validate=False)
    shard, nsh = spec["shard"], spec["nshards"]
    arm_all = tier != "quick"
    k = 0

    def armed(i):
        # thorough: every case; quick: a fixed 20 % sample; after a soft time-out or a
        # budget violation in this shard (never on the unchanged tree): every case, so
        # that a tree that hangs is decided in budget-time rather than watchdog-time
        return (arm_all or i % 5 == 0 or ctx.counters.get("soft_timeouts", 0) >= 1
                or ctx.violation_counts.get("no-result-within-logical-budget", 0) >= 1)

    # (a) the seeds themselves
    for j, (label, data) in enumerate(corp):
        if j % nsh == shard:
            if _abort(ctx):
                return
            yield {"data": data, "op": "seed", "seed": label, "armed": True}
            k += 1
    # (b) truncation sweep
    g = 0
    for label, data in corp:
        lengths = range(len(data)) if tier != "quick" else _quick_prefix_lengths(data)
        for n in lengths:
            if g % nsh == shard:
                if _abort(ctx):
                    return
                # always under the step counter: short, cheap, and where a reader that
                # no longer raises at end of input shows up first
                yield {"data": data[:n], "op": "truncation", "seed": label, "armed": True}
                k += 1
            g += 1
    # (c) mutations
    for i in range(spec["n_random"]):
        if _abort(ctx):
            return
        c = mutate.random_case(corp, ctx.rng)
        c["armed"] = armed(k)
        k += 1
        yield c


# --------------------------------------------------------------------------
# classification
# --------------------------------------------------------------------------
_KEY_RE = re.compile(r"[^A-Za-z0-9_.-]+")


def crash_signature(v):
    """validator-crash:<module.function>:<ExceptionClass>[:<what>] from the innermost
    repository frame, without line numbers; the three mechanisms known from the
    design round get the design's names."""
    site = v.site or "?:?:0"
    parts = site.split(":")
    fname = os.path.splitext(os.path.basename(parts[0]))[0]
    func = parts[1] if len(parts) > 1 else "?"
    exc = v.exc
    cls = v.exc_class
    arg = ""
    if isinstance(exc, KeyError) and exc.args:
        arg = str(exc.args[0])
    elif isinstance(exc, UnboundLocalError):
        m = re.search(r"'([A-Za-z_0-9]+)'", str(exc))
        arg = m.group(1) if m else ""
    elif isinstance(exc, (AttributeError, NameError)):
        m = re.findall(r"'([A-Za-z_0-9.]+)'", str(exc))
        arg = m[-1] if m else ""
    if func == "parse_info" and cls == "UnboundLocalError" and arg == "true_parse_offset":
        return "validator-crash:parse_info:unbound-true_parse_offset"
    if func == "fragment_header" and cls == "KeyError" and arg == "_last_picture_number":
        return "validator-crash:fragment_header:no-first-fragment"
    if func == "fragment_header" and cls == "KeyError" and arg == "_picture_initial_fragment_offset":
        return "validator-crash:fragment_header:slice-fragment-after-unfragmented-picture"
    if cls == "ValueError" and ("Exceeds the limit" in str(exc) or "integer string conversion" in str(exc)):
        return "validator-crash:int-max-str-digits"
    sig = "validator-crash:%s.%s:%s" % (fname, func, cls)
    if arg:
        sig += ":" + _KEY_RE.sub("_", arg)[:40]
    return sig


def _count_ops(op, ctx):
    """op strings: 'seed', 'truncation', 'b:x+y', 'f:key1+key2[~tol|~unser]', 'c:name', joined by '|' when stacked"""
    for part in op.split("|"):
        if part.startswith("b:"):
            ctx.count("opfam:b")
            for sub in part[2:].split("+"):
                ctx.count("op:b:" + sub)
        elif part.startswith("f:"):
            ctx.count("opfam:f")
            mode = "~tol" if part.endswith("~tol") else ("~unser" if part.endswith("~unser") else "")
            ctx.count("op:f" + mode)
            for sub in part[2:].replace("~tol", "").replace("~unser", "").split("+"):
                ctx.note("fields_edited", sub)
        elif part.startswith("c:"):
            ctx.count("opfam:c")
            ctx.count("op:" + part)
        else:
            ctx.count("opfam:" + part)
            ctx.count("op:" + part)


# --------------------------------------------------------------------------
# run
# --------------------------------------------------------------------------
def run_case(case, ctx):
    data = case["data"]
    op = case.get("op", "?")
    _MON["coeffs"] = 0
    _MON["iwd_calls"] = 0
    _MON["parse_infos"] = 0
    _MON["len"] = len(data)
    _MON["bits_left_bad"] = None
    _MON["sc"] = None
    ctx.count("cases")

    steps = None
    exceeded = False
    # own tool id, so that the analytic budget also applies when the runner re-decides a
    # soft-timed-out case under its (much larger) fixed STEP_BUDGET -- then always armed
    redeciding = sys.monitoring.get_tool(worker.StepCounter.TOOL) is not None
    use_counter = (bool(case.get("armed")) or redeciding) and sys.monitoring.get_tool(_Counter.TOOL) is None
    if use_counter:
        sc = _Counter(_budget())
        _MON["sc"] = sc
        try:
            with sc:
                v = vc2util.validate(data, check_reporting=True, keep_pictures=False)
        except worker.StepBudgetExceeded:
            exceeded = True
            v = None
        finally:
            _MON["sc"] = None
        steps = sc.steps
        ctx.count("armed_cases")
    else:
        v = vc2util.validate(data, check_reporting=True, keep_pictures=False)

    _count_ops(op, ctx)

    if exceeded:
        ctx.note("verdict_classes", "no-result-within-budget")
        ctx.violation(
            "no-result-within-logical-budget",
            "validator consumed more than %d repository function entries (budget %d x (8*%d bytes + %d*%d declared coefficients + %d)) "
            "without a verdict" % (steps, STEP_K, len(data), UNIT_PER_COEFF, _MON["coeffs"], UNIT_BASE),
            detail={"op": op, "seed": case.get("seed")},
        )
        ctx.seen(jsonx.key_hash(data))
        return

    if v.kind == "oos":
        ctx.count("out_of_scope")
        ctx.note("verdict_classes", "out-of-scope(not an evaluation)")
        return

    if steps is not None:
        unit = _unit()
        ctx.maxi("max_steps", steps)
        ctx.maxi("max_steps_per_unit_x1000", int(1000.0 * steps / unit))

    if _MON["bits_left_bad"] is not None:
        name, bl = _MON["bits_left_bad"]
        ctx.violation("bits_left-negative:" + name, "state['bits_left'] was %r at entry of decoder %s" % (bl, name),
                      detail={"op": op, "seed": case.get("seed")})

    trivial = False
    if v.kind == "ok":
        ctx.count("accepted")
        ctx.note("verdict_classes", "accepted")
        if op == "seed":
            ctx.count("seeds_accepted")
    elif v.kind == "ce":
        ctx.count("rejected")
        ctx.note("verdict_classes", "conformance-error")
        ctx.note("ce_classes", v.exc_class)
        ctx.note("raise_sites", v.site or "?")
        ctx.count("reporting_checked")
        if _MON["parse_infos"] <= 1:
            trivial = True
        if v.report_error is not None:
            ctx.note("verdict_classes", "report-crash")
            sig = "report-crash:" + v.exc_class
            if "Exceeds the limit" in v.report_error or "integer string conversion" in v.report_error:
                # CPython >= 3.11 refuses int -> str beyond 4300 digits: one mechanism
                # whatever ConformanceError class carries the huge value
                sig = "report-crash:int-max-str-digits"
                ctx.count("int_max_str_digits_reports")
            ctx.violation(sig,
                          "%s raised by the validator could not be reported: %s" % (v.exc_class, v.report_error),
                          detail={"op": op, "seed": case.get("seed"), "raise_site": v.site})
        if op == "seed":
            # not this property's business (C01/C03), but the workload is not what RULE says: floor() reports it
            ctx.count("seeds_rejected")
            ctx.note("seeds_rejected", "%s:%s" % (case.get("seed"), v.exc_class))
    else:  # crash
        ctx.count("crashed")
        ctx.note("verdict_classes", "crash")
        sig = crash_signature(v)
        ctx.violation(sig, "validator raised %s (%s) at %s instead of accepting or reporting a conformance error"
                      % (v.exc_class, str(v.exc)[:120], v.site),
                      detail={"op": op, "seed": case.get("seed"), "traceback": v.tb})
    ctx.seen(jsonx.key_hash(data), nontrivial=not trivial)
    if v.kind != "ok" and ctx.rng.random() < 0.0005:
        ctx.sample({"op": op, "seed": case.get("seed"), "verdict": v.exc_class, "data": data[:200]})


# --------------------------------------------------------------------------
# floor / evidence
# --------------------------------------------------------------------------
def floor(agg, tier):
    c = agg["counters"]
    s = agg["sets"]
    miss = []
    q = tier == "quick"
    need_acc, need_rej = (2000, 15000) if q else (40000, 300000)
    if c.get("accepted", 0) < need_acc:
        miss.append("fewer than %d accepted streams (%d)" % (need_acc, c.get("accepted", 0)))
    if c.get("rejected", 0) < need_rej:
        miss.append("fewer than %d rejected streams (%d)" % (need_rej, c.get("rejected", 0)))
    nce = len(s.get("ce_classes", ()))
    need_ce = 40 if q else 48
    if nce < need_ce:
        miss.append("only %d ConformanceError subclasses raised (< %d)" % (nce, need_ce))
    if c.get("guard_calls", 0) == 0:
        miss.append("size guard never called")
    for h in ("read_bitb", "flush_inputb", "parse_info", "initialize_wavelet_data"):
        if c.get("hook_calls:" + h, 0) == 0:
            miss.append("hook %s never called" % h)
    if c.get("armed_cases", 0) < (4000 if q else 400000):
        miss.append("too few cases ran under the step counter (%d)" % c.get("armed_cases", 0))
    if c.get("seeds_accepted", 0) < 50:
        miss.append("fewer than 50 corpus seeds validated (%d)" % c.get("seeds_accepted", 0))
    if c.get("seeds_rejected", 0):
        miss.append("%d corpus seed(s) built by the real encoder were rejected by the validator: %s"
                    % (c["seeds_rejected"], sorted(agg["sets"].get("seeds_rejected", ()))[:5]))
    for fam in ("b", "f", "c", "truncation", "seed"):
        if c.get("opfam:" + fam, 0) == 0:
            miss.append("mutator family %s never used" % fam)
    for op in ("b:long-zero-run", "c:zero-next+wrong-prev", "c:slice-fragment-without-first", "c:fragment-after-picture-same-number",
               "b:random", "b:hdr-then-random", "b:truncate", "b:unit-swap", "f~tol"):
        if c.get("op:" + op, 0) == 0:
            miss.append("operator %s never used" % op)
    ratio = c.get("max_steps_per_unit_x1000", 0) / 1000.0
    if ratio * 20 > STEP_K:
        miss.append("step budget headroom below 20x (largest steps/unit observed %.1f, K=%d)" % (ratio, STEP_K))
    if c.get("reporting_checked", 0) != c.get("rejected", 0):
        miss.append("reporting methods not checked on every rejection")
    return miss


def _static_raise_sites():
    import vc2_conformance

    root = os.path.join(os.path.dirname(os.path.abspath(vc2_conformance.__file__)), "decoder")
    sites = set()
    for path in sorted(glob.glob(os.path.join(root, "*.py"))):
        with open(path) as f:
            tree = ast.parse(f.read())
        # map line -> enclosing function
        for fn in ast.walk(tree):
            if isinstance(fn, (ast.FunctionDef, ast.AsyncFunctionDef)):
                for node in ast.walk(fn):
                    if isinstance(node, ast.Raise) and node.exc is not None:
                        # a multi-line raise is reported by the traceback at any of its lines
                        sites.add(("decoder/" + os.path.basename(path), node.lineno, getattr(node, "end_lineno", node.lineno)))
    return sites


def evidence_extra(agg, tier):
    import vc2_conformance.decoder.exceptions as E

    allc = sorted(n for n, o in vars(E).items()
                  if isinstance(o, type) and issubclass(o, E.ConformanceError) and o is not E.ConformanceError)
    seen = set(agg["sets"].get("ce_classes", ()))
    static = _static_raise_sites()
    reached = set()
    for s in agg["sets"].get("raise_sites", ()):
        parts = str(s).split(":")
        try:
            fname, line = parts[0], int(parts[-1])
        except ValueError:
            continue
        for (f, lo, hi) in static:
            if f == fname and lo <= line <= hi:
                reached.add((f, lo))
    c = agg["counters"]
    ratio = c.get("max_steps_per_unit_x1000", 0) / 1000.0
    return {
        "in_scope_cases": agg["evaluations"],
        "out_of_scope_cases": c.get("out_of_scope", 0),
        "conformance_error_classes": "%d/%d" % (len(seen & set(allc)), len(allc)),
        "conformance_error_classes_never_raised": sorted(set(allc) - seen),
        "raise_sites_reached": "%d/%d raise statements in decoder/*.py" % (len(reached), len(static)),
        "step_budget": {"K": STEP_K, "max_steps_per_unit_observed": ratio, "headroom": (STEP_K / ratio) if ratio else None,
                        "armed_cases": c.get("armed_cases", 0)},
    }
