"""C21 — the serialiser/deserialiser framework round-trips arbitrary description programs.

Monitor shape: history + model.  A random serdes *program* (vlib/gen/serdes_programs.py)
is interpreted against the real ``Serialiser`` with a description built from a
plain model, the bytes are compared with the R-bits rendering of the model, then
the same program is interpreted against the real ``Deserialiser`` and the
resulting description compared with the model (values, list shapes, computed
values, the fixeddict type of every context).  While the programs run, after every
``set_context_type`` / ``subcontext_enter`` the object reachable from
``serdes.context`` along the path of targets must *be* ``serdes.cur_context``.
Negative variants derived from the same program must fail with the documented
error class.
"""
import io
import random

from vlib import jsonx
from vlib.gen import serdes_programs as SP

PROPERTY = "C21"
LEVEL = "exploration"
TECHNIQUE = (
    "runtime monitoring: random serdes programs interpreted against the real Serialiser/Deserialiser vs an independent "
    "interpreter over plain dicts and a list-of-bits model; tree identity checked at every context change; negative variants"
)
RULE = (
    "case = (program, description, variant seed). program: <= 25 operations, nesting depth <= 4, lists <= 5: primitive fields "
    "of every kind (bool, nbits 0-20, uint_lit 0-3, bitarray 0-12, bytes 0-3, uint, sint), declare_list + repeated use (also "
    "heterogeneous, last use deferred to the end of the context, lists of computed values), nested subcontexts, lists of "
    "subcontexts each with its own sub-program, set_context_type with freshly made fixeddict types at the start or in the middle "
    "of any context (top, nested, list element; sometimes a second type change), bounded_block with 0-13 trailing padding bits "
    "or cutting into the trailing 1-bits of its content, byte_align, computed_value (with or without a stale input value). "
    "Each case runs the round trip (Serialiser or MonitoredSerialiser, context managers or explicit enter/leave calls; input "
    "contexts at set_context_type positions are plain dicts, instances of the declared type, or instances of a fresh proper "
    "subclass of it - OrderedDict / a dict subclass where the declared type is dict itself) and a random half of the negative variants: extra key in a random context, extra element in a random list, "
    "missing key (without defaults / with a default under the right type plus decoys under other types / with decoys only), "
    "missing last list element (same three), target reuse by an inserted bool/nbits/declare_list/computed_value/subcontext "
    "(Serialiser and Deserialiser), unclosed subcontext / bounded block, a non-list value (falsy: 0 False None b'' bitarray() '' / "
    "truthy: 1 b'x' dict str bitarray('1') 7) supplied for a declared list target that is used zero times / has defaults for its "
    "elements / is used normally. distinct = distinct program; programs with fewer than "
    "3 operations are trivial."
)
ASSUMPTIONS = [
    "a 'complete description' supplies bytes/bitarray values of exactly the declared length (shorter ones are zero padded by "
    "the writer and cannot compare equal after a round trip)",
    "equality of descriptions is Python equality of values plus identity of the fixeddict type of every context on which the "
    "program called set_context_type; True == 1 is accepted",
    "a missing key must raise KeyError (any subclass), a missing list element ListTargetExhaustedError; a default is looked up "
    "under type(current context) at the time of use: the type given to the last set_context_type in that context, else the type "
    "of the input dictionary",
    "after set_context_type(T) the current context has exactly type T (type(x) is T), also when the supplied dictionary was an "
    "instance of a subclass of T (the method's documentation: a context 'of a different type' is passed to T's constructor)",
    "after ReusedTargetError only the value stored by the first use is inspected (the rest of the state is unspecified)",
    "a non-list value supplied for a declared list target is a provided value that cannot be used: serialisation must raise "
    "(ListTargetContainsNonListError is documented; any of the serdes target errors is accepted, success never)",
    "when both a subcontext and a bounded block are left open either Unclosed* error is accepted",
    "the Monitored* classes are exercised as SerDes implementations; their callbacks are counted, not judged",
    "tree consistency is observed through public attributes only: walking serdes.context along the targets entered so far must "
    "arrive at the very object serdes.cur_context",
]
# a case needs <= 20 ms of CPU and < 5*10^4 repository function entries; the watchdog is wall-clock, hence generous
CASE_TIMEOUT_S = 120
STEP_BUDGET = 5000000


def plan(tier, seed):
    if tier == "quick":
        nsh, programs = 16, 48000
    else:
        nsh, programs = 64, 1200000
    return [{"shard": s, "nshards": nsh, "programs": programs // nsh} for s in range(nsh)]


def cases(spec, ctx):
    for i in range(spec["programs"]):
        if ctx.counters.get("soft_timeouts", 0) >= 3:
            ctx.count("shards_abandoned_after_timeouts")
            return
        key = "%s/C21/%d/%d" % (ctx.seed, spec["shard"], i)
        rng = random.Random(key)
        program, model = SP.gen_program(rng, max_depth=4, max_ops=25, max_list=5)
        yield {"program": program, "model": model, "vseed": key + "/v"}


# ------------------------------------------------------------------- real code
_REAL = None


def real():
    global _REAL
    if _REAL is None:
        from bitarray import bitarray
        from vc2_conformance.bitstream.io import BitstreamReader, BitstreamWriter
        from vc2_conformance.bitstream import serdes
        from vc2_conformance.bitstream import exceptions as exc
        from vc2_conformance.fixeddict import fixeddict

        class R(object):
            pass

        r = R()
        r.bitarray = bitarray
        r.Reader = BitstreamReader
        r.Writer = BitstreamWriter
        r.Serialiser = serdes.Serialiser
        r.Deserialiser = serdes.Deserialiser
        r.MonitoredSerialiser = serdes.MonitoredSerialiser
        r.MonitoredDeserialiser = serdes.MonitoredDeserialiser
        r.exc = exc
        r.fixeddict = fixeddict
        _REAL = r
    return _REAL


def make_types(R, spec):
    """keys None: the declared type is the builtin dict itself."""
    return {name: (dict if keys is None else R.fixeddict(name, *keys)) for name, keys in sorted(spec.items())}


def make_subclasses(types, rng):
    """A fresh proper subclass of every declared type (for dict also OrderedDict)."""
    import collections

    out = {}
    for name, T in sorted(types.items()):
        if T is dict and rng.random() < 0.5:
            out[name] = collections.OrderedDict
        else:
            out[name] = type(name + "Sub", (T,), {})
    return out


class Run(object):
    pass


def do_ser(R, ops, model, types, pretype=None, defaults=None, monitored=False, explicit=False, build_types=None):
    out = Run()
    out.err = None
    out.calls = 0
    out.stats = {}
    ctx_in = SP.build_context(model, build_types or types, pretype, R.bitarray)
    f = io.BytesIO()
    w = R.Writer(f)
    kw = {} if defaults is None else {"default_values": defaults}

    def mon(serdes, target, value):
        out.calls += 1

    ser = R.MonitoredSerialiser(mon, w, ctx_in, **kw) if monitored else R.Serialiser(w, ctx_in, **kw)
    out.serdes = ser
    try:
        if explicit:
            SP.run_ops(ser, ops, types, explicit=True, stats=out.stats)
            ser.verify_complete()
        else:
            with ser:
                SP.run_ops(ser, ops, types, explicit=False, stats=out.stats)
        w.flush()
    except Exception as e:
        out.err = e
    out.data = f.getvalue()
    return out


def do_des(R, ops, data, types, monitored=False, explicit=False):
    out = Run()
    out.err = None
    out.calls = 0
    out.stats = {}
    r = R.Reader(io.BytesIO(data))

    def mon(serdes, target, value):
        out.calls += 1

    des = R.MonitoredDeserialiser(mon, r) if monitored else R.Deserialiser(r)
    out.serdes = des
    out.reader = r
    try:
        if explicit:
            SP.run_ops(des, ops, types, explicit=True, stats=out.stats)
            des.verify_complete()
        else:
            with des:
                SP.run_ops(des, ops, types, explicit=False, stats=out.stats)
    except Exception as e:
        out.err = e
    return out


def where_of(path):
    if not path:
        return "top"
    return "list-element" if path[-1][1] is not None else "nested"


def ops_at(ops, path):
    """The op list of the context at `path` inside a program."""
    cur = ops
    for target, idx in path:
        found = None
        n = 0

        def scan(lst):
            nonlocal found, n
            for op in lst:
                if found is not None:
                    return
                if op[0] == "sub" and op[1] == target:
                    if idx is None or n == idx:
                        found = op[2]
                        return
                    n += 1
                elif op[0] == "block":
                    scan(op[3])

        # list positions count every use of the target, but only subs use "s"/"sl" targets
        scan(cur)
        if found is None:
            raise AssertionError("harness: path %r not found" % (path,))
        cur = found
    return cur


def _short(e):
    return "%s: %s" % (type(e).__name__, str(e)[:160])


# --------------------------------------------------------------------- run_case
def run_case(case, ctx):
    R = real()
    E = R.exc
    prog, model = case["program"], case["model"]
    vr = random.Random(case["vseed"])
    types = make_types(R, prog["types"])
    M = SP.ModelRun(prog, model)
    monitored = vr.random() < 0.3
    explicit = vr.random() < 0.5
    # input contexts at set_context_type positions: plain dicts / already of the
    # declared type / instances of a fresh proper subclass of the declared type
    # (OrderedDict or a dict subclass where the declared type is dict)
    input_mode = vr.choice(["plain"] * 5 + ["exact"] * 2 + ["subclass"] * 3)
    pretyped = input_mode != "plain"
    pretype = M.first_types_at if pretyped else None
    sub_types = make_subclasses(types, vr) if input_mode == "subclass" else None
    build_types = sub_types
    size = SP.program_size(prog["ops"])
    detail = {"program": prog, "model": model, "monitored": monitored, "explicit": explicit, "input_mode": input_mode}

    def vio(sig, what):
        ctx.violation(sig, what, detail=detail)

    def outcome(run, side):
        """Classify an unexpected exception of a run that had to succeed."""
        e = run.err
        if isinstance(e, SP.TreeInconsistent):
            vio("tree:%s:%s" % (e.kind, side), str(e))
        else:
            vio("roundtrip:%s-raised:%s" % (side, type(e).__name__), "%s of a complete description raised %s" % (side, _short(e)))

    ctx.count("programs")
    ctx.maxi("max_depth", M.max_depth)
    ctx.maxi("max_ops", size)
    for k in M.kinds:
        ctx.count("programs_with:" + k)
    ctx.count("primitive_fields", M.n_prims)
    ctx.count("contexts", len(M.frames))
    ctx.seen(jsonx.key_hash([prog, model]), nontrivial=size >= 3)
    if ctx.rng.random() < 0.0005:
        ctx.sample({"program": prog, "model": model})

    # ---------------------------------------------------------------- round trip
    ser = do_ser(R, prog["ops"], model, types, pretype, None, monitored, explicit, build_types)
    ctx.count("set_context_type_calls", ser.stats.get("set_type", 0))
    ctx.count("set_context_type_in_list_element", ser.stats.get("set_type_in_list", 0))
    ctx.count("monitor_callbacks", ser.calls)
    if ser.err is not None:
        outcome(ser, "serialise")
        return
    want = M.bits.to_bytes()
    if ser.data != want:
        vio("roundtrip:bytes-differ", "serialised %s, model %s" % (ser.data.hex(), want.hex()))
        return
    d = SP.compare(ser.serdes.context, M.expected, types, M.types_at, True, R.bitarray)
    if d:
        vio("roundtrip:serialiser-context:" + d[0], "after serialising: " + d[1])
    des = do_des(R, prog["ops"], ser.data, types, monitored, not explicit)
    ctx.count("monitor_callbacks", des.calls)
    if des.err is not None:
        outcome(des, "deserialise")
        return
    d = SP.compare(des.serdes.context, M.expected, types, M.types_at, True, R.bitarray)
    if d:
        vio("roundtrip:deserialised-context:" + d[0], "after deserialising: " + d[1])
        return
    if des.reader.tell() != M.bits.tell():
        vio("roundtrip:deserialiser-position", "deserialiser stopped at %r, model %r" % (des.reader.tell(), M.bits.tell()))
    ctx.count("roundtrips_ok")
    if input_mode == "exact":
        ctx.count("roundtrips_pretyped_input")
    if input_mode == "subclass" and M.first_types_at:
        ctx.count("roundtrips_subclass_input")
        for pth, tn in M.first_types_at.items():
            ctx.count("subclass_input_contexts:" + where_of(pth))
            if types[tn] is dict:
                ctx.count("subclass_input_contexts_declared_dict")
                ctx.note("dict_subclasses_supplied", sub_types[tn].__name__ if sub_types[tn].__name__ == "OrderedDict" else "fresh dict subclass")

    # ----------------------------------------------------------- negative variants
    def expect_error(run, classes, variant, where):
        ctx.count("neg:" + variant)
        e = run.err
        if e is None:
            vio("neg:%s:not-detected:%s" % (variant, where), "%s variant was accepted" % variant)
            return False
        if isinstance(e, SP.TreeInconsistent):
            vio("tree:%s:%s" % (e.kind, variant), str(e))
            return False
        if not isinstance(e, classes):
            vio("neg:%s:wrong-error:%s" % (variant, type(e).__name__), "%s variant raised %s" % (variant, _short(e)))
            return False
        ctx.count("neg_ok:" + variant)
        ctx.count("neg_ok_where:" + where)
        ctx.note("negative_error_classes_seen", type(e).__name__)
        ctx.count("neg_error:" + type(e).__name__)
        return True

    frames = M.frames
    nested = [f for f in frames if f.path]

    def pick_frame(cands):
        deep = [f for f in cands if f.path]
        if deep and vr.random() < 0.7:
            return vr.choice(deep)
        return vr.choice(cands)

    # A: extra key
    if vr.random() < 0.5:
        fr = pick_frame(frames)
        m2 = SP.clone(model)
        # the unused value may be of any kind, a sub-description or list included
        extra = vr.choice([1, 1, None, {}, {"zz_extra": 2}, [], [0], b"x", {"__ba": "01"}])
        # the surplus key under several spellings (a serialiser that is lenient towards, say, private-looking names
        # would otherwise go unnoticed)
        ename = vr.choice(["zz_extra", "zz_extra", "_zz_extra", "_", "__extra__", "0", ""])
        SP.node_at(m2, fr.path)[ename] = extra
        ctx.count("extra_key_name:" + (ename or "<empty>"))
        ctx.count("extra_key_value:" + ("scalar" if not isinstance(extra, (dict, list)) else type(extra).__name__))
        run = do_ser(R, prog["ops"], m2, types, pretype, None, False, explicit, build_types)
        expect_error(run, E.UnusedTargetError, "extra-key", where_of(fr.path))

    # B: extra list element
    cands = [(f, t) for f in frames for t in f.lists if not t.startswith("_cl")]
    if cands and vr.random() < 0.5:
        deep = [c for c in cands if c[0].path]
        fr, t = vr.choice(deep) if deep and vr.random() < 0.7 else vr.choice(cands)
        m2 = SP.clone(model)
        lst = SP.node_at(m2, fr.path)[t]
        if lst:
            lst.append(SP.clone(lst[-1]))
        else:
            lst.append({} if t.startswith("sl") else 0)
        run = do_ser(R, prog["ops"], m2, types, pretype, None, False, explicit, build_types)
        expect_error(run, E.UnusedTargetError, "extra-list-element", where_of(fr.path))

    # G: a non-list value supplied for a declared list target.  The supplied value
    # can never be used, so serialisation must fail (ListTargetContainsNonListError
    # is the documented error) - also when the list is used zero times or when
    # defaults could stand in for the elements.
    cands = [(f, t) for f in frames for t in f.lists]
    if cands and vr.random() < 0.6:
        zero = [(f, t) for f, t in cands if not any(p[0] == t for p in f.prims) and not SP.node_at(M.expected, f.path)[t]]
        if zero and vr.random() < 0.45:
            fr, t = vr.choice(zero)
        else:
            deep = [c for c in cands if c[0].path]
            fr, t = vr.choice(deep) if deep and vr.random() < 0.6 else vr.choice(cands)
        uses = [p for p in fr.prims if p[0] == t]
        n_used = len(SP.node_at(M.expected, fr.path)[t])
        falsy = vr.random() < 0.65
        if falsy:
            bad = vr.choice([0, False, None, b"", {"__ba": ""}, ""])
        else:
            bad = vr.choice([1, b"x", {"a": 1}, "text", {"__ba": "1"}, 7])
        m2 = SP.clone(model)
        SP.node_at(m2, fr.path)[t] = bad
        dv = None
        if n_used == 0:
            usage = "zero-uses"
        elif uses and len(uses) == n_used and vr.random() < 0.6:
            usage = "with-defaults"
            dv = {}
            for p_ in uses:
                T = None
                if p_[5] is not None:
                    T = types[p_[5]]
                elif pretyped and fr.first_type is not None:
                    T = (sub_types or types)[fr.first_type]
                else:
                    T = dict
                elem = SP.node_at(model, fr.path)[t][p_[3]]
                dv.setdefault(T, {})[t] = SP.build_context(elem, ba=R.bitarray)
        else:
            usage = "normal"
        ctx.count("non_list_value_kind:" + ("falsy:" if falsy else "truthy:") + (type(bad).__name__ if not isinstance(bad, dict) else ("bitarray" if "__ba" in bad else "dict")))
        run = do_ser(R, prog["ops"], m2, types, pretype, dv, False, explicit, build_types)
        serdes_errors = (E.ListTargetContainsNonListError, E.UnusedTargetError, E.ReusedTargetError, E.ListTargetExhaustedError)
        expect_error(run, serdes_errors, "non-list-for-list-%s-%s" % ("falsy" if falsy else "truthy", usage), where_of(fr.path))

    def cur_type(fr, tname):
        if tname is not None:
            return types[tname]  # exactly the declared type after set_context_type
        if pretyped and fr.first_type is not None:
            return (sub_types or types)[fr.first_type]  # the type of the supplied dictionary
        return dict

    def decoys(right, target, kind, arg, orig):
        out = {}
        for T in [dict] + list(types.values()):
            if T is right:
                continue
            out[T] = {target: SP.build_context(SP.same_size_value(vr, kind, arg, orig), ba=R.bitarray)}
        return out

    def default_variant(variant, fr, target, kind, arg, tname, orig, m2, err_classes, in_block):
        """m2 lacks one needed value.  mode 0: no defaults -> error; mode 1: default under
        the right type (+ decoys) -> default written; mode 2: decoys only -> error."""
        mode = vr.randrange(3)
        right = cur_type(fr, tname)
        where = where_of(fr.path)
        if mode == 0:
            run = do_ser(R, prog["ops"], m2, types, pretype, None, False, explicit, build_types)
            expect_error(run, err_classes, variant, where)
            return
        if mode == 2:
            dv = decoys(right, target, kind, arg, orig)
            if vr.random() < 0.5:
                dv[right] = {"zz_other": 1}
            run = do_ser(R, prog["ops"], m2, types, pretype, dv, False, explicit, build_types)
            expect_error(run, err_classes, variant + "-default-for-other-type", where)
            return
        # inside a bounded block the content may run past the end, where only
        # 1-bits are legal: keep the original value there
        dval = orig if in_block else SP.same_size_value(vr, kind, arg, orig)
        dv = decoys(right, target, kind, arg, dval)
        dv[right] = {target: SP.build_context(dval, ba=R.bitarray), "zz_other": 3}
        name = variant + "-with-default"
        ctx.count("neg:" + name)
        run = do_ser(R, prog["ops"], m2, types, pretype, dv, False, explicit, build_types)
        if run.err is not None:
            if isinstance(run.err, SP.TreeInconsistent):
                vio("tree:%s:%s" % (run.err.kind, name), str(run.err))
            else:
                vio("default:not-used:%s:%s" % (variant, where), "a default for (%s, %r) was supplied but serialisation raised %s"
                    % (right.__name__, target, _short(run.err)))
            return
        M2 = SP.ModelRun(prog, m2, defaults={(tname, target): dval})
        if run.data != M2.bits.to_bytes():
            sig = "default:wrong-value-written:%s:%s" % (variant, where)
            vio(sig, "default %r for (%s, %r): serialised %s, model %s" % (dval, right.__name__, target, run.data.hex(), M2.bits.to_bytes().hex()))
            return
        des2 = do_des(R, prog["ops"], run.data, types, False, explicit)
        if des2.err is not None:
            vio("default:deserialise-raised:" + type(des2.err).__name__, _short(des2.err))
            return
        d2 = SP.compare(des2.serdes.context, M2.expected, types, M2.types_at, True, R.bitarray)
        if d2:
            vio("default:deserialised-context:" + d2[0], d2[1])
            return
        ctx.count("neg_ok:" + name)
        ctx.count("defaults_used")
        ctx.count("defaults_used_where:" + where)
        if input_mode == "subclass" and fr.first_type is not None:
            ctx.count("defaults_used_subclass_input" + (":after-set-type" if tname is not None else ":before-set-type"))

    # C: missing key
    cands = [(f, p) for f in frames for p in f.prims if p[3] is None]
    if cands and vr.random() < 0.6:
        deep = [c for c in cands if c[0].path]
        fr, p = vr.choice(deep) if deep and vr.random() < 0.7 else vr.choice(cands)
        target, kind, arg, _, in_block, tname = p
        m2 = SP.clone(model)
        node = SP.node_at(m2, fr.path)
        orig = node.pop(target)
        default_variant("missing-key", fr, target, kind, arg, tname, orig, m2, KeyError, in_block)

    # H: one needed value is missing but has a default, and the same context holds one surplus value: the default makes
    # the serialisation possible, the surplus value must still be reported (as many defaulted as stray values)
    cands = [(f, p) for f in frames for p in f.prims if p[3] is None]
    if cands and vr.random() < 0.35:
        deep = [c for c in cands if c[0].path]
        fr, p = vr.choice(deep) if deep and vr.random() < 0.8 else vr.choice(cands)
        target, kind, arg, _, in_block, tname = p
        m2 = SP.clone(model)
        node = SP.node_at(m2, fr.path)
        orig = node.pop(target)
        node[vr.choice(["zz_extra", "zz_open", "_zz_extra"])] = vr.choice([1, 0, None, b"x"])
        right = cur_type(fr, tname)
        dv = decoys(right, target, kind, arg, orig)
        dv[right] = {target: SP.build_context(orig, ba=R.bitarray)}
        run = do_ser(R, prog["ops"], m2, types, pretype, dv, False, explicit, build_types)
        expect_error(run, E.UnusedTargetError, "extra-key-with-default", where_of(fr.path))

    # I: a value that does not fit its fixed-width field (2**n or more in an n-bit field, a 2 in a bool ...): the
    # serialiser must refuse it (OutOfRangeError), not write other bits
    cands = [(f, p) for f in frames for p in f.prims if p[1] in ("nbits", "uint_lit") and not p[4]]
    if cands and vr.random() < 0.3:
        fr, p = vr.choice(cands)
        target, kind, arg, idx, in_block, tname = p
        width = arg if kind == "nbits" else 8 * arg
        m2 = SP.clone(model)
        node = SP.node_at(m2, fr.path)
        big = (1 << width) + vr.choice([0, 0, 1, (1 << width) - 1, vr.randrange(1 << (width + 3))])
        if idx is None:
            node[target] = big
        else:
            node[target][idx] = big
        run = do_ser(R, prog["ops"], m2, types, pretype, None, False, explicit, build_types)
        expect_error(run, (E.OutOfRangeError,), "value-too-wide-" + kind, where_of(fr.path))

    # D: missing last list element
    cands = []
    for f in frames:
        last = {}
        for p in f.prims:
            if p[3] is not None:
                last[p[0]] = p
        cands.extend((f, p) for p in last.values())
    if cands and vr.random() < 0.6:
        deep = [c for c in cands if c[0].path]
        fr, p = vr.choice(deep) if deep and vr.random() < 0.7 else vr.choice(cands)
        target, kind, arg, idx, in_block, tname = p
        m2 = SP.clone(model)
        lst = SP.node_at(m2, fr.path)[target]
        assert len(lst) == idx + 1
        orig = lst.pop()
        default_variant("missing-list-element", fr, target, kind, arg, tname, orig, m2, E.ListTargetExhaustedError, in_block)

    # E: target reuse
    cands = [(f, t) for f in frames for t in f.used]
    if cands and vr.random() < 0.6:
        deep = [c for c in cands if c[0].path]
        fr, t = vr.choice(deep) if deep and vr.random() < 0.7 else vr.choice(cands)
        p2 = SP.clone(prog)
        lst = ops_at(p2["ops"], fr.path)
        first = None
        for i, op in enumerate(lst):
            if t in set(SP._frame_targets([op])):
                first = i
                break
        assert first is not None
        how = vr.choice(["bool", "nbits", "declare_list", "computed", "sub"])
        new = {
            "bool": ["prim", "bool", t, None],
            "nbits": ["prim", "nbits", t, 3],
            "declare_list": ["declare_list", t],
            "computed": ["computed", t, 424242],
            "sub": ["sub", t, []],
        }[how]
        lst.insert(vr.randrange(first + 1, len(lst) + 1), new)
        where = where_of(fr.path)
        exp_node = SP.node_at(M.expected, fr.path)
        vpath = fr.path + ((t, None),)
        run = do_ser(R, p2["ops"], model, types, pretype, None, False, explicit, build_types)
        if expect_error(run, E.ReusedTargetError, "reuse-serialiser-" + how, where):
            try:
                got = SP.node_at(run.serdes.context, fr.path)[t]
                d3 = SP.compare(got, exp_node[t], types, M.types_at, False, R.bitarray, vpath)
            except Exception as e:
                d3 = ("lost", _short(e))
            if d3:
                vio("neg:reuse:serialiser-first-value-changed:" + how, d3[1])
        run = do_des(R, p2["ops"], ser.data + b"\xff" * 8, types, False, explicit)
        if expect_error(run, E.ReusedTargetError, "reuse-deserialiser-" + how, where):
            try:
                got = SP.node_at(run.serdes.context, fr.path)[t]
                d3 = SP.compare(got, exp_node[t], types, M.types_at, False, R.bitarray, vpath)
            except Exception as e:
                d3 = ("lost", _short(e))
            if d3:
                vio("neg:reuse:deserialiser-first-value-changed:" + how, d3[1])
            else:
                ctx.count("first_value_intact_checks")

    # F: unbalanced nesting
    if vr.random() < 0.5:
        shape = vr.choice(["enter", "enter2", "enter+sub", "begin", "begin0", "both"])
        tail = {
            "enter": [["enter_only", "zz_open"]],
            "enter2": [["enter_only", "zz_open"], ["enter_only", "zz_open2"]],
            "enter+sub": [["enter_only", "zz_open"], ["sub", "zz_open2", []]],
            "begin": [["begin_only", vr.choice([1, 5, 13, 64])]],
            "begin0": [["begin_only", 0]],
            "both": [["enter_only", "zz_open"], ["begin_only", vr.choice([0, 3])]],
        }[shape]
        if shape.startswith("enter"):
            classes, name = E.UnclosedNestedContextError, "unclosed-subcontext"
        elif shape.startswith("begin"):
            classes, name = E.UnclosedBoundedBlockError, "unclosed-bounded-block"
        else:
            classes, name = (E.UnclosedNestedContextError, E.UnclosedBoundedBlockError), "unclosed-both"
        ops2 = SP.clone(prog["ops"]) + tail
        side = vr.random() < 0.5
        if side:
            run = do_ser(R, ops2, model, types, pretype, None, False, explicit, build_types)
        else:
            run = do_des(R, ops2, ser.data, types, False, explicit)
        expect_error(run, classes, name + ("-serialiser" if side else "-deserialiser"), shape)


# ------------------------------------------------------------- floor / evidence
NEG_VARIANTS = [
    "extra-key", "extra-key-with-default", "value-too-wide-nbits", "value-too-wide-uint_lit",
    "extra-list-element",
    "missing-key",
    "missing-key-default-for-other-type",
    "missing-key-with-default",
    "missing-list-element",
    "missing-list-element-default-for-other-type",
    "missing-list-element-with-default",
    "unclosed-subcontext-serialiser",
    "unclosed-subcontext-deserialiser",
    "unclosed-bounded-block-serialiser",
    "unclosed-bounded-block-deserialiser",
    "unclosed-both-serialiser",
    "unclosed-both-deserialiser",
] + ["non-list-for-list-%s-%s" % (f, u) for f in ("falsy", "truthy") for u in ("zero-uses", "with-defaults", "normal")] + ["reuse-%s-%s" % (s, h) for s in ("serialiser", "deserialiser") for h in ("bool", "nbits", "declare_list", "computed", "sub")]

ERROR_CLASSES = [
    "UnusedTargetError",
    "KeyError",
    "ListTargetExhaustedError",
    "ReusedTargetError",
    "UnclosedNestedContextError",
    "UnclosedBoundedBlockError",
    "ListTargetContainsNonListError",
]

OP_STRATA = [
    "bool", "nbits", "uint_lit", "bitarray", "bytes", "uint", "sint", "computed", "set_type", "sub", "sub_in_list",
    "block", "block_with_padding", "block_dangling", "align", "align_nonempty",
]


def floor(agg, tier):
    c = agg["counters"]
    q = tier == "quick"
    miss = []

    def need(name, n):
        if c.get(name, 0) < n:
            miss.append("%s = %d < %d" % (name, c.get(name, 0), n))

    need("programs", 40000 if q else 1000000)
    need("roundtrips_ok", 40000 if q else 1000000)
    need("roundtrips_pretyped_input", 3000)
    need("roundtrips_subclass_input", 5000)
    for w in ("top", "nested", "list-element"):
        need("subclass_input_contexts:" + w, 1500)
    need("subclass_input_contexts_declared_dict", 500)
    need("defaults_used_subclass_input:after-set-type", 100)
    need("defaults_used_subclass_input:before-set-type", 20)
    if len(agg["sets"].get("dict_subclasses_supplied", ())) < 2:
        miss.append("OrderedDict and a fresh dict subclass were not both supplied where dict is declared")
    for k in OP_STRATA:
        need("programs_with:" + k, 2000)
    need("set_context_type_calls", 20000)
    need("set_context_type_in_list_element", 3000)
    need("monitor_callbacks", 10000)
    for v in NEG_VARIANTS:
        need("neg_ok:" + v, 300)
    for e in ERROR_CLASSES:
        need("neg_error:" + e, 1000)
    for w in ("top", "nested", "list-element"):
        need("neg_ok_where:" + w, 2000)
        need("defaults_used_where:" + w, 200)
    need("first_value_intact_checks", 3000)
    for k in ("scalar", "dict", "list"):
        need("extra_key_value:" + k, 1000)
    if c.get("max_depth", 0) < 4:
        miss.append("nesting depth 4 never reached")
    return miss


def evidence_extra(agg, tier):
    c = agg["counters"]
    return {
        "exhaustive": False,
        "programs_by_feature": {k[14:]: v for k, v in sorted(c.items()) if k.startswith("programs_with:")},
        "negative_variants_run": {k[4:]: v for k, v in sorted(c.items()) if k.startswith("neg:")},
        "negative_variants_rejected_as_documented": {k[7:]: v for k, v in sorted(c.items()) if k.startswith("neg_ok:")},
        "negative_variants_by_error_class": {k[10:]: v for k, v in sorted(c.items()) if k.startswith("neg_error:")},
        "negative_variants_by_position": {k[13:]: v for k, v in sorted(c.items()) if k.startswith("neg_ok_where:")},
    }
