"""C20 — bit-level readers and writers agree on every primitive.

Monitor shape: history + model, lock-step readers.

* random *write programs* are executed on the real ``BitstreamWriter`` and, in
  lock-step, on the R-bits list-of-bits model (``vlib/ref/bits.py``):
  ``tell()`` is compared before every operation, the bytes produced are compared
  with the model's rendering, then the program is read back by
  ``BitstreamReader`` *and* by the validator's ``decoder.io`` read functions,
  comparing value and position after every operation with the model and with
  each other;
* exhaustive boxes: every bit string up to a length bound x every bounded-block
  length 0..len+2 (and negative lengths for ``bitstream/io`` only) for
  ``read_uint``/``read_sint`` inside and after the block; every small value
  through write/read with and without a block.
"""
import io
import random

from vlib import jsonx
from vlib.ref import bits as RB

PROPERTY = "C20"
LEVEL = "exploration"
TECHNIQUE = (
    "runtime monitoring: random write programs on the real BitstreamWriter in lock-step with a list-of-bits model, "
    "read back by BitstreamReader and the decoder's read functions in lock-step; exhaustive bit strings x block lengths"
)
RULE = (
    "three case kinds. (1) program = 1-16 operations drawn from write bit / nbits / uint_lit / bytes / bitarray (short values "
    "are zero padded) / unsigned and signed exp-Golomb (value classes 0..8, 2^k-2..2^k+1 for k<90, <5000, up to 2^200), "
    "byte alignment padding, flush, bounded block (length 0-60 that fits with padding, cuts the content, or is 0; all-ones "
    "tails past the end; trailing padding), negative-length block (bitstream/io only), out-of-range probe (nbits/uint_lit "
    "value >= 2^n or < 0, negative uint, over-long bytes/bitarray, negative exp_golomb_length), a terminal 0-past-block-end "
    "probe, seek back to a byte-aligned earlier operation and overwrite with same-length values, reader seek-and-reread, and a "
    "final seek to an arbitrary (byte, bit) position followed by a short write; distinct = distinct program; programs with "
    "fewer than 2 bit-producing operations are trivial. (2) EXHAUSTIVE box: every bit string of length 0..N (N=12 quick, 16 "
    "thorough; followed by 1-bits) x every block length 0..len+2 x {uint, sint}: three reads inside the block, block end, one "
    "read after it, by BitstreamReader and by decoder.io read_uintb/read_sintb/flush_inputb/read_uint/read_sint vs R-bits "
    "(values, positions, bits left after every read); the same strings x lengths {-1,-3} for BitstreamReader only; read_nbits "
    "for every width 0..len. (3) EXHAUSTIVE box: every value 0..V-1 (V=4096 quick, 65536 thorough) as uint and +/- as sint: "
    "bits written == definition, length functions == bits written, read back by both readers; values 0..B-1 (B=512 quick, "
    "4096 thorough) x every block length 0..len+2 and -1..-3: accepted iff no 0 lies past the end, in-block bits == model, "
    "accepted values read back inside a block of the same length. distinct in (2),(3) = distinct (string|value, block length, kind)."
)
ASSUMPTIONS = [
    "lengths/counts of primitives (nbits, uint_lit, bytes, bitarray) are >= 0: the statement quantifies negative numbers only "
    "for bounded-block lengths; the known reader/writer asymmetry for negative byte counts (D6, roundtrip:negative-length-bytes) "
    "is C06's subject and is not generated here",
    "cross-reader agreement (BitstreamReader vs decoder.io) is demanded for block lengths >= 0 only (DESIGN section 7 item 1); "
    "negative block lengths are checked writer vs reader vs model within bitstream/io",
    "after a rejected write of a 0 past a block end the writer's state is not specified: the program ends there and only the "
    "bytes before the rejected operation are compared",
    "writer seeks happen outside bounded blocks; a byte the writer enters after a seek is replaced as a whole with unwritten "
    "bits 0 (documented in BitstreamWriter.seek); overwrite sessions start and end on byte boundaries so every other operation stays intact",
    "reader seeks are performed on BitstreamReader only (decoder.io has no seek) and outside bounded blocks",
    "reads beyond the physical end of the stream are not generated (EOFError/UnexpectedEndOfStream are not part of the statement)",
    "observation only: BitstreamReader is used through a subclass whose read_bit counts calls, and decoder.io's read_bit/read_bitb "
    "module globals are rebound to counting wrappers, so that an endless read loop is reported as a violation after a bit budget "
    "no correct read can reach (512 bits for a <= 7 byte stream; 64 x stream length for programs)",
]
# A typical case takes well under 0.1 s of CPU.  A realistic break can turn an
# exp-Golomb read into an endless loop (e.g. 0-bits past a block end); the
# bit-read guard in real() turns that into a prompt violation.  The soft watchdog
# is the backstop (generous, because it is wall-clock and the machine may be
# loaded): a shard stops after MAX_TIMEOUTS_PER_SHARD of them and the runner
# re-decides the timed-out cases on logical steps (the largest case needs < 10^5
# repository function entries; the budget is 100x that).
CASE_TIMEOUT_S = 120
STEP_BUDGET = 10000000
MAX_TIMEOUTS_PER_SHARD = 3

SIMPLE = ("bit", "nbits", "uint_lit", "bytes", "bitarray", "uint", "sint", "align")


# ------------------------------------------------------------------ plan / cases
def plan(tier, seed):
    if tier == "quick":
        nsh, programs, maxlen, vmax, bmax = 16, 24000, 12, 4096, 512
    else:
        nsh, programs, maxlen, vmax, bmax = 64, 1500000, 16, 65536, 4096
    return [
        {"shard": s, "nshards": nsh, "programs": programs // nsh, "maxlen": maxlen, "vmax": vmax, "bmax": bmax}
        for s in range(nsh)
    ]


def cases(spec, ctx):
    for case in _cases(spec, ctx):
        if ctx.counters.get("soft_timeouts", 0) >= MAX_TIMEOUTS_PER_SHARD:
            ctx.count("shards_abandoned_after_timeouts")
            return
        yield case


def _cases(spec, ctx):
    s, n = spec["shard"], spec["nshards"]
    # exhaustive strings: chunks of 256 strings, dealt round-robin to shards
    chunk_id = 0
    for length in range(spec["maxlen"] + 1):
        total = 1 << length
        step = 32
        for lo in range(0, total, step):
            if chunk_id % n == s:
                yield {"k": "exh", "n": length, "lo": lo, "hi": min(total, lo + step)}
            chunk_id += 1
    # exhaustive values
    chunk_id = 0
    for lo in range(0, spec["vmax"], 16):
        if chunk_id % n == s:
            yield {"k": "vals", "lo": lo, "hi": lo + 16, "blocks": lo < spec["bmax"]}
        chunk_id += 1
    # seeks inside bounded blocks: (prefix bits, block length, bits consumed) x every seek target around the block
    chunk_id = 0
    for prefix in range(0, 10 if spec["maxlen"] <= 12 else 18):
        for length in range(-2, 19 if spec["maxlen"] <= 12 else 35):
            if chunk_id % n == s:
                yield {"k": "blockseek", "prefix": prefix, "length": length}
            chunk_id += 1
    # random programs
    for i in range(spec["programs"]):
        rng = random.Random("%s/C20/%d/%d" % (ctx.seed, s, i))
        yield {"k": "prog", "prog": gen_program(rng)}


# ------------------------------------------------------------ program generator
def _uint_value(rng):
    c = rng.random()
    if c < 0.25:
        return rng.randrange(0, 9)
    if c < 0.55:
        k = rng.randrange(1, 90)
        return max(0, 2 ** k + rng.choice([-2, -1, 0, 1]))
    if c < 0.8:
        return rng.randrange(0, 5000)
    if c < 0.815:
        # very long codes (hundreds to thousands of data bits), at and around powers of two
        k = rng.choice([255, 256, 511, 512, 1000, 1023, 1024, 1025, 1600, 2048, 4095, 4097])
        return max(0, 2 ** k + rng.choice([-2, -1, 0, 1, rng.randrange(2 ** 64)]))
    return rng.randrange(0, 2 ** rng.choice([16, 32, 33, 64, 65, 128, 200]))


def _bitstr(rng, n):
    return "".join(rng.choice("01") for _ in range(n))


def _fixed_value(rng, nbits):
    if nbits == 0:
        return 0
    c = rng.random()
    if c < 0.15:
        return 0
    if c < 0.4:
        return 2 ** nbits - 1
    if c < 0.5:
        return 2 ** (nbits - 1)
    return rng.randrange(0, 2 ** nbits)


def _value_op(rng, ones=False):
    """One simple value operation.  ones=True: an operation whose bits end in 1s."""
    if ones:
        kind = rng.choice(["bit", "nbits", "uint", "sint", "bitarray", "uint", "sint"])
        if kind == "bit":
            return ["bit", 1]
        if kind == "nbits":
            n = rng.randrange(0, 6)
            return ["nbits", n, 2 ** n - 1]
        if kind == "uint":
            return ["uint", rng.choice([0, 0, 2, 6, 14])]  # 1, 011, 01011, 0101011
        if kind == "sint":
            return ["sint", rng.choice([0, -1, -3, -7, -2])]
        n = rng.randrange(0, 6)
        return ["bitarray", n, "1" * n]
    kind = rng.choice(["bit", "nbits", "nbits", "uint_lit", "bytes", "bitarray", "uint", "uint", "sint", "sint"])
    if kind == "bit":
        return ["bit", rng.randrange(2)]
    if kind == "nbits":
        n = rng.choice([0, 1, 2, 3, 7, 8, 9, 12, 15, 16, 17, 31, 32, 33, 64, rng.randrange(0, 71)])
        return ["nbits", n, _fixed_value(rng, n)]
    if kind == "uint_lit":
        n = rng.randrange(0, 6)
        return ["uint_lit", n, _fixed_value(rng, 8 * n)]
    if kind == "bytes":
        n = rng.randrange(0, 6)
        k = n if rng.random() < 0.6 else rng.randrange(0, n + 1)
        return ["bytes", n, bytes(rng.randrange(256) for _ in range(k))]
    if kind == "bitarray":
        n = rng.randrange(0, 24)
        k = n if rng.random() < 0.6 else rng.randrange(0, n + 1)
        return ["bitarray", n, _bitstr(rng, k)]
    if kind == "uint":
        return ["uint", _uint_value(rng)]
    v = _uint_value(rng)
    return ["sint", -v if rng.random() < 0.5 else v]


def op_bits(op):
    """R-bits rendering of one simple operation."""
    k = op[0]
    if k == "bit":
        return [1 if op[1] else 0]
    if k == "nbits":
        return RB.nbits_bits(op[1], op[2])
    if k == "uint_lit":
        return RB.nbits_bits(8 * op[1], op[2])
    if k == "bytes":
        return RB.bytes_bits(bytes(op[2]) + b"\x00" * (op[1] - len(op[2])))
    if k == "bitarray":
        return [int(c) for c in op[2]] + [0] * (op[1] - len(op[2]))
    if k == "align":
        return [int(c) for c in op[1]]
    if k == "uint":
        return RB.uint_bits(op[1])
    if k == "sint":
        return RB.sint_bits(op[1])
    raise AssertionError(op)


def op_value(op):
    """The value a reader must return for a simple operation (as JSON-able)."""
    k = op[0]
    if k == "bit":
        return op[1]
    if k in ("nbits", "uint_lit"):
        return op[2]
    if k == "bytes":
        return bytes(op[2]) + b"\x00" * (op[1] - len(op[2]))
    if k == "bitarray":
        return op[2] + "0" * (op[1] - len(op[2]))
    if k == "align":
        return op[1]
    return op[1]


def _same_length_op(rng, op):
    k = op[0]
    if k == "bit":
        return ["bit", rng.randrange(2)]
    if k == "nbits":
        return ["nbits", op[1], _fixed_value(rng, op[1])]
    if k == "uint_lit":
        return ["uint_lit", op[1], _fixed_value(rng, 8 * op[1])]
    if k == "bytes":
        return ["bytes", op[1], bytes(rng.randrange(256) for _ in range(op[1]))]
    if k == "bitarray":
        return ["bitarray", op[1], _bitstr(rng, op[1])]
    if k == "align":
        return ["align", _bitstr(rng, len(op[1]))]
    mag = abs(op[1])
    kbits = (RB.uint_length(mag) - 1) // 2  # mag+1 in [2^k, 2^(k+1))
    newmag = rng.randrange(2 ** kbits, 2 ** (kbits + 1)) - 1
    if k == "uint":
        return ["uint", newmag]
    if newmag == 0:
        return ["sint", 0]
    return ["sint", -newmag if rng.random() < 0.5 else newmag]


def _oor_probe(rng):
    kind = rng.choice(["nbits", "nbits", "uint_lit", "uint", "bytes", "bitarray", "golomb_len"])
    if kind in ("nbits", "uint_lit"):
        n = rng.randrange(0, 40) if kind == "nbits" else rng.randrange(0, 5)
        w = n if kind == "nbits" else 8 * n
        v = rng.choice([2 ** w, 2 ** w, 2 ** w + 1, 2 ** (w + 1) - 1, 2 ** (w + 3), 2 ** (w + 70), -1, -(2 ** w), -(2 ** 70)])
        return ["oor", kind, n, v]
    if kind in ("uint", "golomb_len"):
        return ["oor", kind, rng.choice([-1, -1, -2, -3, -255, -256, -(2 ** 31), -(2 ** 64), -(2 ** 100)])]
    if kind == "bytes":
        n = rng.randrange(0, 5)
        return ["oor", "bytes", n, bytes(rng.randrange(256) for _ in range(n + rng.choice([1, 1, 2, 5])))]
    n = rng.randrange(0, 20)
    return ["oor", "bitarray", n, _bitstr(rng, n + rng.choice([1, 1, 2, 9]))]


def _gen_block(rng):
    """Returns (op, terminal)."""
    inner = []
    for _ in range(rng.randrange(0, 6)):
        inner.append(_value_op(rng, ones=rng.random() < 0.35))
    total = sum(len(op_bits(o)) for o in inner)
    mode = rng.random()
    if mode < 0.45:
        length = total + rng.choice([0, 0, 1, 2, 3, 7, 8, 9, rng.randrange(0, 30)])
    elif mode < 0.9:
        length = rng.randrange(0, total + 1)
    else:
        length = 0
    m = RB.BitModel()
    m.begin_block(length)
    kept = []
    bad = None
    for o in inner:
        b = op_bits(o)
        if m.accepts(b):
            m.write_bits(b)
            kept.append(o)
            if rng.random() < 0.1:
                kept.append(_oor_probe(rng))
        else:
            if rng.random() < 0.5:
                bad = o
            break
    if bad is not None:
        return ["reject", length, kept, bad], True
    unused = m.end_block()
    return ["block", length, kept, _bitstr(rng, unused), rng.choice(["pad", "flush"])], False


def _gen_negblock(rng):
    length = -rng.choice([1, 1, 2, 3, 8, 9, 100])
    inner = [_value_op(rng, ones=True) for _ in range(rng.randrange(0, 4))]
    inner = [o for o in inner if all(op_bits(o))]
    return ["negblock", length, inner]


def apply_model(m, op):
    """Apply a (non-terminal) write-program operation to the model; used by the
    generator for position bookkeeping and by run_case as the oracle."""
    k = op[0]
    if k in SIMPLE:
        m.write_bits(op_bits(op))
    elif k == "block":
        m.begin_block(op[1])
        for o in op[2]:
            if o[0] != "oor":
                m.write_bits(op_bits(o))
        unused = m.end_block()
        assert unused == len(op[3])
        m.write_bits([int(c) for c in op[3]])
    elif k == "negblock":
        m.begin_block(op[1])
        for o in op[2]:
            m.write_bits(op_bits(o))
        m.end_block()
    elif k in ("flush", "oor"):
        pass
    else:
        raise AssertionError(op)


def gen_program(rng):
    ops = []
    log = []  # [op, start, end] of stream-order items
    m = RB.BitModel()
    terminal = False
    for _ in range(rng.randrange(1, 17)):
        c = rng.random()
        start = m.pos
        if c < 0.55:
            op = _value_op(rng)
        elif c < 0.62:
            op = ["align", _bitstr(rng, (-m.pos) % 8)]
        elif c < 0.67:
            op = ["flush"]
        elif c < 0.80:
            op, terminal = _gen_block(rng)
        elif c < 0.83:
            op = _gen_negblock(rng)
        elif c < 0.91:
            op = _oor_probe(rng)
        else:
            # overwrite session
            cands = [i for i, e in enumerate(log) if e[1] % 8 == 0 and e[0][0] in SIMPLE]
            if not cands:
                continue
            k = rng.choice(cands)
            j = k
            while j + 1 < len(log) and log[j + 1][0][0] in SIMPLE and rng.random() < 0.7:
                j += 1
            last = j == len(log) - 1
            if not last and not (log[j][2] % 8 == 0 and m.pos % 8 == 0):
                # extend to the end if possible, else give up
                if all(e[0][0] in SIMPLE for e in log[k:]):
                    j = len(log) - 1
                    last = True
                else:
                    continue
            new_ops = [_same_length_op(rng, e[0]) for e in log[k:j + 1]]
            end = m.pos
            op = ["rewrite", k, j, new_ops, None if last else end]
            ops.append(op)
            m.wseek(log[k][1])
            for i, o in enumerate(new_ops):
                assert m.pos == log[k + i][1]
                m.write_bits(op_bits(o))
                assert m.pos == log[k + i][2]
                log[k + i][0] = o
            if not last:
                m.wseek(end)
            assert m.pos == end
            continue
        ops.append(op)
        if terminal:
            break
        apply_model(m, op)
        if op[0] in SIMPLE or op[0] in ("block", "negblock"):
            log.append([op, start, m.pos])
    reseeks = []
    readable = [i for i, e in enumerate(log) if e[0][0] != "negblock"]
    if readable and not terminal:
        for _ in range(rng.choice([0, 0, 1, 2])):
            i = rng.choice(readable)
            j = rng.choice([x for x in readable if x <= i])
            reseeks.append([i, j])
    tail = None
    if not terminal and rng.random() < 0.3:
        pos = rng.randrange(0, m.pos + 1)
        tail = ["tailseek", pos, _bitstr(rng, rng.randrange(1, 13))]
    return {"ops": ops, "reseeks": reseeks, "tail": tail}


# ------------------------------------------------------------------- real code
_REAL = None


def real():
    global _REAL
    if _REAL is None:
        from bitarray import bitarray
        from vc2_conformance.bitstream.io import BitstreamReader, BitstreamWriter
        from vc2_conformance.bitstream.exp_golomb import exp_golomb_length, signed_exp_golomb_length
        from vc2_conformance.bitstream.exceptions import OutOfRangeError
        from vc2_conformance.pseudocode.state import State
        from vc2_conformance.decoder import io as dio

        class R(object):
            pass

        # Observation only: count every bit read so that an endless read loop in
        # the code under test becomes a prompt, deterministic violation instead
        # of a watchdog timeout.  guard = [bits still allowed, BitstreamReader
        # bit reads seen, decoder.io bit reads seen]
        guard = [1 << 60, 0, 0]

        class GuardedReader(BitstreamReader):
            def read_bit(self):
                guard[0] -= 1
                guard[1] += 1
                if guard[0] < 0:
                    raise Runaway("bitstream")
                return BitstreamReader.read_bit(self)

        def _guarded(orig):
            def guarded(state):
                guard[0] -= 1
                guard[2] += 1
                if guard[0] < 0:
                    raise Runaway("decoder")
                return orig(state)

            guarded.__name__ = orig.__name__
            return guarded

        # decoder.io's functions call each other through the module globals
        dio.read_bit = _guarded(dio.read_bit)
        dio.read_bitb = _guarded(dio.read_bitb)

        r = R()
        r.guard = guard
        r.bitarray = bitarray
        r.Reader = GuardedReader
        r.Writer = BitstreamWriter
        r.egl = exp_golomb_length
        r.segl = signed_exp_golomb_length
        r.OOR = OutOfRangeError
        r.State = State
        r.dio = dio
        _REAL = r
    return _REAL


class Runaway(BaseException):
    """More bits were consumed by one read than the case can possibly need."""


def _flush_guard_counts(R, ctx):
    ctx.count("bitstream_bit_reads_observed", R.guard[1])
    ctx.count("decoder_bit_reads_observed", R.guard[2])
    R.guard[1] = R.guard[2] = 0
    R.guard[0] = 1 << 60


def w_simple(R, w, op):
    k = op[0]
    if k == "bit":
        w.write_bit(op[1])
    elif k == "nbits":
        w.write_nbits(op[1], op[2])
    elif k == "uint_lit":
        w.write_uint_lit(op[1], op[2])
    elif k == "bytes":
        w.write_bytes(op[1], bytes(op[2]))
    elif k == "bitarray":
        w.write_bitarray(op[1], R.bitarray(op[2]))
    elif k == "align":
        w.write_bitarray(len(op[1]), R.bitarray(op[1]))
    elif k == "uint":
        w.write_uint(op[1])
    elif k == "sint":
        w.write_sint(op[1])
    else:
        raise AssertionError(op)


def r_simple(R, r, op):
    """Read one simple op with BitstreamReader; returns JSON-able value."""
    k = op[0]
    if k == "bit":
        return r.read_bit()
    if k == "nbits":
        return r.read_nbits(op[1])
    if k == "uint_lit":
        return r.read_uint_lit(op[1])
    if k == "bytes":
        return r.read_bytes(op[1])
    if k == "bitarray":
        return r.read_bitarray(op[1]).to01()
    if k == "align":
        return r.read_bitarray(len(op[1])).to01()
    if k == "uint":
        return r.read_uint()
    if k == "sint":
        return r.read_sint()
    raise AssertionError(op)


def d_simple(R, st, op, bounded, alt):
    """Read one simple op with the decoder's functions."""
    d = R.dio
    k = op[0]
    bit = d.read_bitb if bounded else d.read_bit
    if k == "bit":
        if alt:
            return 1 if (d.read_boolb(st) if bounded else d.read_bool(st)) else 0
        return bit(st)
    if k == "nbits":
        if bounded:
            v = 0
            for _ in range(op[1]):
                v = (v << 1) | d.read_bitb(st)
            return v
        return d.read_nbits(st, op[1])
    if k == "uint_lit":
        if bounded:
            v = 0
            for _ in range(8 * op[1]):
                v = (v << 1) | d.read_bitb(st)
            return v
        return d.read_uint_lit(st, op[1])
    if k == "bytes":
        if bounded:
            out = bytearray()
            for _ in range(op[1]):
                v = 0
                for _ in range(8):
                    v = (v << 1) | d.read_bitb(st)
                out.append(v)
            return bytes(out)
        if alt:
            return bytes(bytearray(d.read_uint_lit(st, 1) for _ in range(op[1])))
        return bytes(bytearray(d.read_nbits(st, 8) for _ in range(op[1])))
    if k == "bitarray":
        return "".join("1" if bit(st) else "0" for _ in range(op[1]))
    if k == "align":
        # the decoder skips alignment padding with byte_align()
        if alt or bounded:
            return "".join("1" if bit(st) else "0" for _ in range(len(op[1])))
        d.byte_align(st)
        return None
    if k == "uint":
        return d.read_uintb(st) if bounded else d.read_uint(st)
    if k == "sint":
        return d.read_sintb(st) if bounded else d.read_sint(st)
    raise AssertionError(op)


def _short(e):
    return "%s: %s" % (type(e).__name__, str(e)[:120])


# ---------------------------------------------------------------- program cases
def _probe_oor(R, w, f, m, op, ctx, where):
    """Out-of-range probe: must raise OutOfRangeError, leave tell() and the
    block counter unchanged and write no bits."""
    kind = op[1]
    before = w.tell()
    left_before = w.bits_remaining
    ctx.count("oor_probes")
    ctx.count("oor:" + kind)
    try:
        if kind == "nbits":
            w.write_nbits(op[2], op[3])
        elif kind == "uint_lit":
            w.write_uint_lit(op[2], op[3])
        elif kind == "uint":
            w.write_uint(op[2])
        elif kind == "bytes":
            w.write_bytes(op[2], bytes(op[3]))
        elif kind == "bitarray":
            w.write_bitarray(op[2], R.bitarray(op[3]))
        elif kind == "golomb_len":
            R.egl(op[2])
        ctx.violation("write:out-of-range-accepted:" + kind, "%r did not raise (%s)" % (op, where), detail={"op": op})
    except R.OOR:
        ctx.count("oor_rejected")
        ctx.note("oor_rejected_kinds", kind)
    except Exception as e:
        ctx.violation("write:out-of-range-wrong-error:" + kind, "%r raised %s instead of OutOfRangeError" % (op, _short(e)))
    if w.tell() != before or w.bits_remaining != left_before:
        ctx.violation(
            "write:out-of-range-moved:" + kind,
            "%r moved the writer from %r/%r to %r/%r" % (op, before, left_before, w.tell(), w.bits_remaining),
        )
    if w.bits_remaining is None:
        w.flush()
        if f.getvalue() != m.to_bytes():
            ctx.violation(
                "write:out-of-range-wrote-bits:" + kind,
                "after rejected %r the stream is %s, expected %s" % (op, f.getvalue().hex(), m.to_bytes().hex()),
            )


def run_program(prog, ctx):
    R = real()
    f = io.BytesIO()
    w = R.Writer(f)
    m = RB.BitModel()
    log = []
    ok = True
    prev = "start"
    terminal_prefix = None
    nvalue_ops = 0

    def vio(sig, what, **detail):
        ctx.violation(sig, what, detail=detail or None)

    for op in prog["ops"]:
        k = op[0]
        ctx.count("wop:" + k)
        if w.tell() != m.tell():
            vio("write:tell-after:" + prev, "tell() is %r after %s, model says %r" % (w.tell(), prev, m.tell()))
            ok = False
            break
        prev = k
        start = m.pos
        try:
            if k in SIMPLE:
                bits = op_bits(op)
                w_simple(R, w, op)
                m.write_bits(bits)
                log.append([op, start, m.pos])
                nvalue_ops += 1
                if k in ("uint", "sint"):
                    got = (R.egl if k == "uint" else R.segl)(op[1])
                    ctx.count("golomb_length_checks")
                    written = RB.unpair(*w.tell()) - start
                    if got != len(bits) or got != written:
                        vio(
                            "write:exp-golomb-length:" + k,
                            "%s length function gives %r for %r; definition %d bits, writer advanced %d bits"
                            % (k, got, op[1], len(bits), written),
                        )
                    ctx.maxi("max_golomb_bits", len(bits))
            elif k == "flush":
                w.flush()
                if f.getvalue() != m.to_bytes():
                    vio("write:bits-differ:flush", "after flush stream is %s, model %s" % (f.getvalue().hex(), m.to_bytes().hex()))
                    ok = False
                    break
            elif k == "oor":
                _probe_oor(R, w, f, m, op, ctx, "top level")
            elif k in ("block", "reject"):
                w.bounded_block_begin(op[1])
                m.begin_block(op[1])
                for o in op[2]:
                    if o[0] == "oor":
                        _probe_oor(R, w, f, m, o, ctx, "in block")
                        continue
                    b = op_bits(o)
                    over = m.left < len(b)
                    try:
                        w_simple(R, w, o)
                    except ValueError as e:
                        if isinstance(e, R.OOR):
                            raise
                        vio("write:block:one-past-end-rejected", "block %d: %r rejected although every bit past the end is 1" % (op[1], o), left=m.left)
                        raise _Abort()
                    m.write_bits(b)
                    nvalue_ops += 1
                    ctx.count("block_inner_ops")
                    if over:
                        ctx.count("block_ones_past_end_accepted")
                    if w.tell() != m.tell() or w.bits_remaining != m.left:
                        vio(
                            "write:block:position-after:" + o[0],
                            "block %d after %r: tell %r bits_remaining %r, model %r / %r"
                            % (op[1], o, w.tell(), w.bits_remaining, m.tell(), m.left),
                        )
                        raise _Abort()
                if k == "reject":
                    bad = op[3]
                    terminal_prefix = start
                    ctx.count("zero_past_end_probes")
                    try:
                        w_simple(R, w, bad)
                        vio("write:block:zero-past-end-accepted", "block %d: %r has a 0 past the end but was accepted" % (op[1], bad), left=m.left)
                    except R.OOR as e:
                        vio("write:block:zero-past-end-wrong-error", "block %d: %r raised %s" % (op[1], bad, _short(e)))
                    except ValueError:
                        ctx.count("zero_past_end_rejected")
                    break
                unused = w.bounded_block_end()
                exp = m.end_block()
                if unused != exp:
                    vio("write:block:unused-bits", "bounded_block_end() returned %r, model %r (length %d)" % (unused, exp, op[1]))
                    raise _Abort()
                w.write_bitarray(unused, R.bitarray(op[3]))
                m.write_bits([int(c) for c in op[3]])
                log.append([op, start, m.pos])
                ctx.count("blocks_written")
                if op[1] == 0:
                    ctx.count("blocks_length_zero")
            elif k == "negblock":
                w.bounded_block_begin(op[1])
                m.begin_block(op[1])
                for o in op[2]:
                    w_simple(R, w, o)
                    m.write_bits(op_bits(o))
                    if w.tell() != m.tell() or w.bits_remaining != m.left:
                        vio("write:negblock:position", "negative block %d after %r: tell %r left %r, model %r/%r"
                            % (op[1], o, w.tell(), w.bits_remaining, m.tell(), m.left))
                        raise _Abort()
                unused = w.bounded_block_end()
                if unused != 0 or m.end_block() != 0:
                    vio("write:negblock:unused-bits", "negative block %d: bounded_block_end() returned %r" % (op[1], unused))
                log.append([op, start, m.pos])
                ctx.count("negative_blocks_written")
            elif k == "rewrite":
                _, a, b_, new_ops, end = op
                w.seek(*RB.pair(log[a][1]))
                m.wseek(log[a][1])
                if w.tell() != m.tell():
                    vio("write:seek:tell", "tell() %r after seek to %r" % (w.tell(), m.tell()))
                    raise _Abort()
                for i, o in enumerate(new_ops):
                    w_simple(R, w, o)
                    m.write_bits(op_bits(o))
                    log[a + i][0] = o
                    if w.tell() != m.tell():
                        vio("write:tell-after:overwrite-" + o[0], "tell() %r, model %r while overwriting" % (w.tell(), m.tell()))
                        raise _Abort()
                if end is not None:
                    w.seek(*RB.pair(end))
                    m.wseek(end)
                ctx.count("overwrite_sessions")
            else:
                raise AssertionError(op)
        except _Abort:
            ok = False
            break
        except Exception as e:
            vio("write:raised:%s:%s" % (k, type(e).__name__), "%r raised %s" % (op if len(repr(op)) < 200 else k, _short(e)))
            ok = False
            break
    if not ok:
        return nvalue_ops
    if terminal_prefix is not None:
        # only the bits before the rejected block are specified
        try:
            if w.bits_remaining is not None:
                w.bounded_block_end()
            w.flush()
        except Exception as e:
            vio("write:raised:flush-after-reject:" + type(e).__name__, _short(e))
            return nvalue_ops
        got = RB.bits_from_bytes(f.getvalue())[:terminal_prefix]
        if got != m.bits[:terminal_prefix]:
            vio("write:bits-differ:before-rejected-block", "prefix differs: %s vs model %s" % (f.getvalue().hex(), m.to_bytes().hex()))
        return nvalue_ops

    if w.tell() != m.tell():
        vio("write:tell-after:" + prev, "final tell() %r, model %r" % (w.tell(), m.tell()))
        return nvalue_ops
    w.flush()
    if w.tell() != m.tell():
        vio("write:tell-after:flush", "tell() %r after final flush, model %r" % (w.tell(), m.tell()))
    data = f.getvalue()
    if data != m.to_bytes():
        gb = RB.bits_from_bytes(data)
        mb = m.bits
        first = next((i for i in range(max(len(gb), len(mb))) if i >= len(gb) or i >= len(mb) or gb[i] != mb[i]), None)
        kind = "length"
        for e in log:
            if first is not None and e[1] <= first < e[2]:
                kind = e[0][0]
        vio("write:bits-differ:" + kind, "stream %s, model %s (first differing bit %r)" % (data.hex(), m.to_bytes().hex(), first))
        return nvalue_ops
    ctx.count("programs_bytes_equal")
    ctx.maxi("max_program_bits", m.pos)

    read_back(R, data, log, m.pos, prog["reseeks"], ctx)

    tail = prog["tail"]
    if tail is not None:
        ctx.count("tail_seeks")
        _, pos, bs = tail
        if pos % 8:
            ctx.count("tail_seeks_unaligned")
        try:
            w.seek(*RB.pair(pos))
            m.wseek(pos)
            if w.tell() != m.tell():
                vio("write:seek:tell", "tell() %r after seek to %r" % (w.tell(), m.tell()))
            w.write_bitarray(len(bs), R.bitarray(bs))
            m.write_bits([int(c) for c in bs])
            if w.tell() != m.tell():
                vio("write:tell-after:seek-write", "tell() %r, model %r" % (w.tell(), m.tell()))
            w.flush()
            data2 = f.getvalue()
            if data2 != m.to_bytes():
                vio("write:bits-differ:after-seek", "after seek to bit %d and writing %s: stream %s, model %s"
                    % (pos, bs, data2.hex(), m.to_bytes().hex()))
            else:
                R.guard[0] = 1 << 60
                r = R.Reader(io.BytesIO(data2))
                r.seek(*RB.pair(pos))
                got = r.read_bitarray(len(bs)).to01()
                if got != bs or r.tell() != RB.pair(pos + len(bs)):
                    vio("read:bitstream:seek", "seek to bit %d then read gives %s at %r, expected %s at %r"
                        % (pos, got, r.tell(), bs, RB.pair(pos + len(bs))))
        except Exception as e:
            vio("write:raised:tailseek:" + type(e).__name__, _short(e))
    return nvalue_ops


class _Abort(Exception):
    pass


def read_back(R, data, log, endpos, reseeks, ctx):
    d = R.dio
    # both readers together can need at most 2 x (stream bits + virtual bits past
    # block ends + re-read bits); anything beyond 64 x that is a runaway read
    R.guard[0] = 64 * (8 * len(data) + 64) + 4096
    r = R.Reader(io.BytesIO(data))
    st = R.State()
    d.init_io(st, io.BytesIO(data))
    mr = RB.BitModel(RB.bits_from_bytes(data))
    reseek_after = {}
    for i, j in reseeks:
        reseek_after.setdefault(i, []).append(j)

    def vio(sig, what):
        ctx.violation(sig, what, detail={"stream": data.hex()})

    def positions(kind, dec=True):
        """compare tell() of both readers with the model; returns False on mismatch"""
        good = True
        if r.tell() != mr.tell():
            vio("read:bitstream:position:" + kind, "BitstreamReader at %r, model %r after %s" % (r.tell(), mr.tell(), kind))
            good = False
        if dec and d.tell(st) != mr.tell():
            vio("read:decoder:position:" + kind, "decoder.io at %r, model %r after %s" % (d.tell(st), mr.tell(), kind))
            good = False
        return good

    def read_entry_bitstream(op, expect_start):
        """(re-)read one log entry with BitstreamReader + model; returns False on mismatch."""
        k = op[0]
        if k in SIMPLE:
            exp = op_value(op)
            mr.read_bits(len(op_bits(op)))
            got = r_simple(R, r, op)
            if got != exp:
                vio("read:bitstream:value:" + k, "BitstreamReader read %r for %r" % (got, op))
                return False
            return True
        # block
        r.bounded_block_begin(op[1])
        mr.begin_block(op[1])
        for o in op[2]:
            if o[0] == "oor":
                continue
            exp = op_value(o)
            mr.read_bits(len(op_bits(o)))
            got = r_simple(R, r, o)
            if got != exp:
                vio("read:bitstream:block-value:" + o[0], "BitstreamReader read %r for %r in block of %d" % (got, o, op[1]))
                return False
            if r.bits_remaining != mr.left or r.tell() != mr.tell():
                vio("read:bitstream:block-position:" + o[0], "in block of %d after %r: tell %r left %r, model %r / %r"
                    % (op[1], o, r.tell(), r.bits_remaining, mr.tell(), mr.left))
                return False
        unused = r.bounded_block_end()
        exp_unused = mr.end_block()
        if unused != exp_unused:
            vio("read:bitstream:unused-bits", "bounded_block_end() returned %r, model %r" % (unused, exp_unused))
            return False
        pad = r.read_bitarray(unused).to01()
        mr.read_bits(unused)
        if pad != op[3]:
            vio("read:bitstream:block-padding", "padding read %s, written %s" % (pad, op[3]))
            return False
        return True

    try:
        for idx, (op, start, end) in enumerate(log):
            k = op[0]
            alt = (idx + len(data)) % 2 == 1
            if mr.pos != start:
                raise AssertionError("harness: log does not tile the stream")
            if k == "negblock":
                # bitstream/io only: reads yield 1s and consume nothing
                r.bounded_block_begin(op[1])
                for o in op[2]:
                    got = r_simple(R, r, o)
                    if got != op_value(o):
                        vio("read:bitstream:negblock-value:" + o[0], "read %r for %r in block of %d" % (got, o, op[1]))
                if r.bounded_block_end() != 0:
                    vio("read:bitstream:negblock-unused", "bounded_block_end() != 0 for length %d" % op[1])
                if not positions("negblock"):
                    return
                ctx.count("negative_blocks_read")
                continue
            if not read_entry_bitstream(op, start):
                return
            # decoder
            if k in SIMPLE:
                exp = op_value(op)
                got = d_simple(R, st, op, False, alt)
                ctx.count("rop:" + k)
                if got is not None and got != exp:
                    vio("read:decoder:value:" + k, "decoder.io read %r for %r" % (got, op))
                    return
            else:
                st["bits_left"] = op[1]
                mb = RB.BitModel(mr.bits)
                mb.pos = start
                mb.begin_block(op[1])
                for o in op[2]:
                    if o[0] == "oor":
                        continue
                    exp = op_value(o)
                    mb.read_bits(len(op_bits(o)))
                    got = d_simple(R, st, o, True, alt)
                    ctx.count("rop_bounded:" + o[0])
                    if got != exp:
                        vio("read:decoder:block-value:" + o[0], "decoder.io read %r for %r in block of %d" % (got, o, op[1]))
                        return
                    if st["bits_left"] != mb.unused() or d.tell(st) != mb.tell():
                        vio("read:decoder:block-position:" + o[0], "in block of %d after %r: tell %r bits_left %r, model %r / %r"
                            % (op[1], o, d.tell(st), st["bits_left"], mb.tell(), mb.unused()))
                        return
                if op[4] == "pad":
                    pad = "".join("1" if d.read_bitb(st) else "0" for _ in range(st["bits_left"]))
                    if pad != op[3]:
                        vio("read:decoder:block-padding", "padding read %s, written %s" % (pad, op[3]))
                        return
                else:
                    d.flush_inputb(st)
                    ctx.count("flush_inputb_calls")
                if st["bits_left"] != 0:
                    vio("read:decoder:bits-left-after-block", "bits_left %r after block" % st["bits_left"])
                    return
                ctx.count("blocks_read")
            if not positions(k):
                return
            if mr.pos != end:
                raise AssertionError("harness: entry end")
            for j in reseek_after.get(idx, ()):
                op2, s2, e2 = log[j]
                ctx.count("reader_seeks")
                if s2 % 8:
                    ctx.count("reader_seeks_unaligned")
                r.seek(*RB.pair(s2))
                mr.rseek(s2)
                if r.tell() != mr.tell():
                    vio("read:bitstream:seek", "tell() %r after seek to %r" % (r.tell(), mr.tell()))
                    return
                if not read_entry_bitstream(op2, s2):
                    return
                if r.tell() != RB.pair(e2):
                    vio("read:bitstream:seek", "after seek+reread of %s tell() %r, expected %r" % (op2[0], r.tell(), RB.pair(e2)))
                    return
                r.seek(*RB.pair(end))
                mr.rseek(end)
                if r.tell() != mr.tell():
                    vio("read:bitstream:seek", "tell() %r after seek back to %r" % (r.tell(), mr.tell()))
                    return
        # zero padding of the last byte, then end of stream for both readers
        rest = (-endpos) % 8
        if rest:
            a = r.read_nbits(rest)
            b = d.read_nbits(st, rest)
            mr.read_bits(rest)
            if a != 0 or b != 0:
                vio("read:final-padding", "final padding read as %r / %r" % (a, b))
        positions("end")
        if not r.is_end_of_stream() or not d.is_end_of_stream(st):
            vio("read:end-of-stream", "is_end_of_stream: BitstreamReader %r decoder.io %r at the end" % (r.is_end_of_stream(), d.is_end_of_stream(st)))
        ctx.count("programs_read_back")
    except _Abort:
        return
    except AssertionError:
        raise
    except Runaway as e:
        vio("read:%s:runaway" % e.args[0], "reading back consumed an impossible number of bits (endless read loop)")
    except Exception as e:
        vio("read:raised:" + type(e).__name__, "reading back raised %s" % _short(e))


# ------------------------------------------------------------ exhaustive strings
def run_exh(case, ctx):
    R = real()
    d = R.dio
    n = case["n"]
    Reader, State, BytesIO = R.Reader, R.State, io.BytesIO
    G = R.guard

    def exh_bitstream(data, s, L, signed, kname, trace, unused, after, endpos):
        G[0] = 512
        r = Reader(BytesIO(data))
        r.bounded_block_begin(L)
        for val, pos, left in trace:
            got = r.read_sint() if signed else r.read_uint()
            if got != val or r.tell() != RB.pair(pos) or r.bits_remaining != left:
                ctx.violation(
                    "exh:bitstream:%s:in-block" % kname,
                    "stream %s block %d: read %r at %r left %r; model %r at %r left %r"
                    % (data.hex(), L, got, r.tell(), r.bits_remaining, val, RB.pair(pos), left),
                    detail={"bits": "".join(map(str, s)), "L": L},
                )
                return
        u = r.bounded_block_end()
        if u != unused:
            ctx.violation("exh:bitstream:unused-bits", "stream %s block %d: %r unused, model %r" % (data.hex(), L, u, unused))
            return
        r.read_nbits(u)
        got = r.read_sint() if signed else r.read_uint()
        if got != after or r.tell() != RB.pair(endpos):
            ctx.violation(
                "exh:bitstream:%s:after-block" % kname,
                "stream %s block %d: after the block read %r at %r; model %r at %r"
                % (data.hex(), L, got, r.tell(), after, RB.pair(endpos)),
            )

    def exh_decoder(data, s, L, signed, kname, trace, unused, after, endpos):
        G[0] = 512
        st = State()
        d.init_io(st, BytesIO(data))
        st["bits_left"] = L
        for val, pos, left in trace:
            got = d.read_sintb(st) if signed else d.read_uintb(st)
            if got != val or d.tell(st) != RB.pair(pos) or st["bits_left"] != (left if left > 0 else 0):
                ctx.violation(
                    "exh:decoder:%s:in-block" % kname,
                    "stream %s block %d: read %r at %r bits_left %r; model %r at %r left %r"
                    % (data.hex(), L, got, d.tell(st), st["bits_left"], val, RB.pair(pos), left),
                    detail={"bits": "".join(map(str, s)), "L": L},
                )
                return
        d.flush_inputb(st)
        got = d.read_sint(st) if signed else d.read_uint(st)
        if got != after or d.tell(st) != RB.pair(endpos) or st["bits_left"] != 0:
            ctx.violation(
                "exh:decoder:%s:after-block" % kname,
                "stream %s block %d: after flush_inputb read %r at %r; model %r at %r"
                % (data.hex(), L, got, d.tell(st), after, RB.pair(endpos)),
            )

    for v in range(case["lo"], case["hi"]):
        s = [(v >> i) & 1 for i in range(n - 1, -1, -1)]
        bits = s + [1] * ((-n) % 8) + [1] * 32
        data = RB.bits_to_bytes(bits)
        ctx.count("exh_strings")
        # fixed-width reads of every width
        for width in range(n + 1):
            G[0] = 512
            r = Reader(BytesIO(data))
            st = State()
            d.init_io(st, BytesIO(data))
            exp = RB.bits_to_int(s[:width])
            a = r.read_nbits(width)
            b = d.read_nbits(st, width)
            if a != exp or r.tell() != RB.pair(width):
                ctx.violation("exh:bitstream:nbits", "read_nbits(%d) of %s gives %r at %r" % (width, data.hex(), a, r.tell()))
            if b != exp or d.tell(st) != RB.pair(width):
                ctx.violation("exh:decoder:nbits", "read_nbits(%d) of %s gives %r at %r" % (width, data.hex(), b, d.tell(st)))
            ctx.count("exh_nbits")
        for signed in (0, 1):
            kname = "sint" if signed else "uint"
            for L in list(range(0, n + 3)) + [-1, -3]:
                # ---- model
                m = RB.BitModel(bits)
                m.begin_block(L)
                trace = []
                for _ in range(3):
                    val = m.read_sint() if signed else m.read_uint()
                    trace.append((val, m.pos, m.left))
                unused = m.end_block()
                m.read_bits(unused)
                after = m.read_sint() if signed else m.read_uint()
                endpos = m.pos
                try:
                    exh_bitstream(data, s, L, signed, kname, trace, unused, after, endpos)
                except Runaway:
                    ctx.violation(
                        "exh:bitstream:%s:runaway" % kname,
                        "stream %s block %d: BitstreamReader consumed more than 512 bits without finishing" % (data.hex(), L),
                    )
                if L < 0:
                    ctx.count("exh_negative_block_cases")
                    ctx.seen((1 << 41) | (signed << 29) | ((L + 64) << 21) | (n << 16) | v)
                    continue
                try:
                    exh_decoder(data, s, L, signed, kname, trace, unused, after, endpos)
                except Runaway:
                    ctx.violation(
                        "exh:decoder:%s:runaway" % kname,
                        "stream %s block %d: decoder.io consumed more than 512 bits without finishing" % (data.hex(), L),
                    )
                ctx.count("exh_block_cases")
                ctx.seen((1 << 41) | (signed << 29) | ((L + 64) << 21) | (n << 16) | v)
    ctx.maxi("max_exh_len", n)
    _flush_guard_counts(R, ctx)


# ------------------------------------------------------------- exhaustive values
def run_vals(case, ctx):
    R = real()
    try:
        _run_vals(R, case, ctx)
    except Runaway as e:
        ctx.violation("vals:read:%s:runaway" % e.args[0], "a read consumed more than 4096 bits without finishing")
    _flush_guard_counts(R, ctx)


def _run_vals(R, case, ctx):
    d = R.dio
    for mag in range(case["lo"], case["hi"]):
        R.guard[0] = 1 << 20
        for kname, v in (("uint", mag), ("sint", mag), ("sint", -mag)):
            signed = kname == "sint"
            bits = RB.sint_bits(v) if signed else RB.uint_bits(v)
            ln = RB.sint_length(v) if signed else RB.uint_length(v)
            f = io.BytesIO()
            w = R.Writer(f)
            (w.write_sint if signed else w.write_uint)(v)
            pos = w.tell()
            w.flush()
            data = f.getvalue()
            got_len = (R.segl if signed else R.egl)(v)
            if data != RB.bits_to_bytes(bits) or pos != RB.pair(len(bits)):
                ctx.violation("vals:write:%s:bits" % kname, "write_%s(%d) gives %s ending at %r, definition %s"
                              % (kname, v, data.hex(), pos, "".join(map(str, bits))))
            if got_len != len(bits) or got_len != ln or RB.unpair(*pos) != got_len:
                ctx.violation("vals:exp-golomb-length:" + kname, "length function gives %r for %d, %d bits written, definition %d"
                              % (got_len, v, RB.unpair(*pos), len(bits)))
            pdata = data + b"\xff"
            r = R.Reader(io.BytesIO(pdata))
            st = R.State()
            d.init_io(st, io.BytesIO(pdata))
            a = r.read_sint() if signed else r.read_uint()
            b = d.read_sint(st) if signed else d.read_uint(st)
            if a != v or r.tell() != pos:
                ctx.violation("vals:read:bitstream:" + kname, "wrote %d, BitstreamReader read %r at %r" % (v, a, r.tell()))
            if b != v or d.tell(st) != pos:
                ctx.violation("vals:read:decoder:" + kname, "wrote %d, decoder.io read %r at %r" % (v, b, d.tell(st)))
            ctx.count("vals_roundtrips")
            ctx.seen((1 << 42) | (signed << 29) | ((v < 0) << 30) | mag)
            if not case["blocks"]:
                continue
            for L in list(range(0, len(bits) + 3)) + [-1, -2, -3]:
                m = RB.BitModel()
                m.begin_block(L)
                acc = m.accepts(bits)
                f = io.BytesIO()
                w = R.Writer(f)
                w.bounded_block_begin(L)
                try:
                    (w.write_sint if signed else w.write_uint)(v)
                    raised = None
                except R.OOR as e:
                    raised = e
                    ctx.violation("vals:block:wrong-error", "write of %d in block %d raised OutOfRangeError" % (v, L))
                except ValueError as e:
                    raised = e
                ctx.seen((1 << 43) | (signed << 29) | ((v < 0) << 30) | ((L + 64) << 21) | mag)
                if acc and raised is not None:
                    ctx.violation("write:block:one-past-end-rejected", "write_%s(%d) in block of %d rejected; bits %s" % (kname, v, L, "".join(map(str, bits))))
                    continue
                if not acc:
                    ctx.count("vals_block_rejected")
                    if raised is None:
                        ctx.violation("write:block:zero-past-end-accepted", "write_%s(%d) in block of %d accepted; bits %s" % (kname, v, L, "".join(map(str, bits))))
                    continue
                ctx.count("vals_block_accepted")
                if L < 0:
                    ctx.count("vals_negative_block_accepted")
                m.write_bits(bits)
                u = w.bounded_block_end()
                mu = m.end_block()
                if w.tell() != m.tell() or u != mu:
                    ctx.violation("vals:block:position", "write_%s(%d) in block of %d: tell %r unused %r, model %r / %r"
                                  % (kname, v, L, w.tell(), u, m.tell(), mu))
                    continue
                w.write_nbits(u, (1 << u) - 1)
                m.write_bits([1] * mu)
                w.flush()
                data = f.getvalue()
                if data != m.to_bytes():
                    ctx.violation("vals:block:bits", "write_%s(%d) in block of %d gives %s, model %s" % (kname, v, L, data.hex(), m.to_bytes().hex()))
                    continue
                pdata = data + b"\xff"
                R.guard[0] = 4096
                r = R.Reader(io.BytesIO(pdata))
                r.bounded_block_begin(L)
                a = r.read_sint() if signed else r.read_uint()
                if a != v:
                    ctx.violation("vals:block:read:bitstream:" + kname, "wrote %d in block of %d, BitstreamReader read %r (stream %s)" % (v, L, a, data.hex()))
                if L >= 0:
                    st = R.State()
                    d.init_io(st, io.BytesIO(pdata))
                    st["bits_left"] = L
                    b = d.read_sintb(st) if signed else d.read_uintb(st)
                    if b != v or d.tell(st) != r.tell():
                        ctx.violation("vals:block:read:decoder:" + kname, "wrote %d in block of %d, decoder.io read %r at %r (stream %s)" % (v, L, b, d.tell(st), data.hex()))
    ctx.maxi("max_value", case["hi"] - 1)


# --------------------------------------------------------------------- run_case
def _count_bit_ops(prog):
    n = 0
    for op in prog["ops"]:
        if op[0] in SIMPLE:
            n += 1
        elif op[0] in ("block", "reject", "negblock"):
            n += 1 + len([o for o in op[2] if o[0] != "oor"])
        elif op[0] == "rewrite":
            n += len(op[3])
    return n


def run_blockseek(case, ctx):
    """Reader and writer run the same steps: `prefix` bits, begin a bounded block of `length` bits, consume `used` bits
    (reads / writes of 1s, possibly past the end of the block), then seek to a target.  They must agree on whether
    the seek is refused, and afterwards on tell() and bits_remaining; what the reader then reads must be the stream's
    own bits up to the end of the block and 1s beyond it; and a seek that would leave the block forwards is refused
    by both (documented in both seek() methods)."""
    from io import BytesIO

    R = real()
    prefix, length = case["prefix"], case["length"]
    data = bytes([0x5A, 0xC3, 0x96, 0x3C, 0xA5, 0x69, 0x0F, 0xF0, 0x55, 0xAA])
    bits = "".join("{:08b}".format(b) for b in data)
    start = prefix
    end = start + max(length, 0)
    for used in range(0, max(length, 0) + 4):
        for target in range(max(0, start - 3), min(len(bits) - 16, end + 6)):
            outcome = {}
            for who in ("reader", "writer"):
                if who == "reader":
                    x = R.Reader(BytesIO(data))
                    step = x.read_bit
                else:
                    x = R.Writer(BytesIO())
                    step = lambda: x.write_bit(1)
                for _ in range(prefix):
                    step()
                x.bounded_block_begin(length)
                for _ in range(used):
                    step()
                before = (x.tell(), x.bits_remaining)
                try:
                    x.seek(target // 8, 7 - target % 8)
                    err = None
                except Exception as e:
                    err = type(e).__name__
                outcome[who] = (before, err, x.tell() if err is None else None, x.bits_remaining if err is None else None)
                if who == "reader" and err is None and length >= 0:
                    # what follows: real bits while inside the block, 1s past its end
                    pos = target
                    got = "".join(str(x.read_bit()) for _ in range(6))
                    left = x.bits_remaining + 6  # value right after the seek
                    exp = "".join(bits[pos + i] if i < max(left, 0) else "1" for i in range(6))
                    ctx.count("blockseek_reads_checked")
                    if got != exp:
                        ctx.violation("read:bitstream:seek-in-block", "prefix %d, block %d, %d bits consumed, seek to bit %d: then read %s, expected %s (bits_remaining after seek %d)"
                                      % (prefix, length, used, target, got, exp, left))
            ctx.count("blockseek_cases")
            cur = min(start + used, end) if length >= 0 else start
            if outcome["reader"][1:] != outcome["writer"][1:]:
                ctx.violation("seek-in-block:reader-writer-disagree",
                              "prefix %d, block %d, %d bits consumed, seek to bit %d: reader (error, tell, bits_remaining) %r, writer %r"
                              % (prefix, length, used, target, outcome["reader"][1:], outcome["writer"][1:]))
            elif length >= 0 and target > max(end, cur) and outcome["reader"][1] is None:
                ctx.violation("seek-in-block:left-the-block", "prefix %d, block %d, %d bits consumed: seek to bit %d beyond the end of the block (bit %d) was not refused"
                              % (prefix, length, used, target, end))
            if outcome["reader"][1] is not None:
                ctx.count("blockseek_refused")
    ctx.seen(jsonx.key_hash(case))


def run_case(case, ctx):
    k = case["k"]
    if k == "blockseek":
        run_blockseek(case, ctx)
    elif k == "exh":
        run_exh(case, ctx)
    elif k == "vals":
        run_vals(case, ctx)
    else:
        prog = case["prog"]
        run_program(prog, ctx)
        _flush_guard_counts(real(), ctx)
        ctx.count("programs")
        ctx.seen(jsonx.key_hash(prog), nontrivial=_count_bit_ops(prog) >= 2)
        if ctx.rng.random() < 0.002:
            ctx.sample(prog)


# ------------------------------------------------------------- floor / evidence
def floor(agg, tier):
    c = agg["counters"]
    q = tier == "quick"
    miss = []

    def need(name, n):
        if c.get(name, 0) < n:
            miss.append("%s = %d < %d" % (name, c.get(name, 0), n))

    need("programs", 20000 if q else 1300000)
    need("programs_bytes_equal", 12000 if q else 800000)
    need("programs_read_back", 12000 if q else 800000)
    for kind in ("bit", "nbits", "uint_lit", "bytes", "bitarray", "uint", "sint", "align"):
        need("wop:" + kind, 500)
        need("rop:" + kind, 500)
    for kind in ("flush", "block", "negblock", "oor", "reject", "rewrite"):
        need("wop:" + kind, 300)
    for kind in ("bit", "nbits", "uint", "sint", "bitarray"):
        need("rop_bounded:" + kind, 200)
    need("oor_rejected", 1500)
    for kind in ("nbits", "uint_lit", "uint", "bytes", "bitarray", "golomb_len"):
        need("oor:" + kind, 100)
    need("zero_past_end_rejected", 200)
    need("block_ones_past_end_accepted", 300)
    need("blocks_read", 1000)
    need("blocks_length_zero", 50)
    need("negative_blocks_read", 200)
    need("flush_inputb_calls", 300)
    need("overwrite_sessions", 300)
    need("reader_seeks", 1000)
    need("reader_seeks_unaligned", 300)
    need("tail_seeks_unaligned", 1000)
    need("golomb_length_checks", 10000)
    need("bitstream_bit_reads_observed", 1000000)
    need("decoder_bit_reads_observed", 1000000)
    maxlen = 12 if q else 16
    need("exh_strings", 2 ** (maxlen + 1) - 1)
    need("exh_block_cases", 2 * sum((1 << n) * (n + 3) for n in range(maxlen + 1)))
    need("exh_negative_block_cases", 4 * (2 ** (maxlen + 1) - 1))
    need("vals_roundtrips", 3 * (4096 if q else 65536))
    need("vals_block_accepted", 3000)
    need("vals_block_rejected", 3000)
    need("vals_negative_block_accepted", 3)
    return miss


def evidence_extra(agg, tier):
    c = agg["counters"]
    maxlen = 12 if tier == "quick" else 16
    vmax = 4096 if tier == "quick" else 65536
    bmax = 512 if tier == "quick" else 4096
    complete = (
        c.get("exh_strings", 0) == 2 ** (maxlen + 1) - 1
        and c.get("exh_block_cases", 0) == 2 * sum((1 << n) * (n + 3) for n in range(maxlen + 1))
        and c.get("vals_roundtrips", 0) == 3 * vmax
    )
    return {
        "exhaustive": bool(complete),
        "exhaustive_box": (
            "bit strings of length 0..%d x block lengths 0..len+2 x {uint,sint} by both readers (block lengths -1,-3 by "
            "BitstreamReader only); read_nbits widths 0..len; values 0..%d as uint and +/- sint through write/read; values "
            "0..%d x block lengths -3..len+2 through the writer. Random programs are sampled, not exhaustive."
            % (maxlen, vmax - 1, bmax - 1)
        ),
        "write_ops_by_kind": {k[4:]: v for k, v in sorted(c.items()) if k.startswith("wop:")},
        "read_ops_by_kind": {k[4:]: v for k, v in sorted(c.items()) if k.startswith("rop:")},
        "bounded_read_ops_by_kind": {k[12:]: v for k, v in sorted(c.items()) if k.startswith("rop_bounded:")},
        "out_of_range_probes_by_kind": {k[4:]: v for k, v in sorted(c.items()) if k.startswith("oor:")},
        "out_of_range_rejections_seen": c.get("oor_rejected", 0),
        "bit_strings_enumerated": c.get("exh_strings", 0),
        "string_x_block_length_x_kind_cases": c.get("exh_block_cases", 0) + c.get("exh_negative_block_cases", 0),
    }
