"""C18 — the data-unit pattern matcher implements its regular-expression language.

Monitor shape: history + model.  For a pattern (as *text*) a real
``Matcher`` is built and offered every symbol sequence of a box; an
independent Glushkov automaton (vlib/ref/regex.py, own parser) is stepped in
lock-step.  After every offered symbol the monitor observes

  * the return of ``match_symbol``         (oracle: prefix.symbol is a viable prefix),
  * ``is_complete()``                      (oracle: prefix is in the language),
  * ``valid_next_symbols()``               (oracle: WILDCARD => every symbol, else exactly the
                                            symbols that keep a match possible; END_OF_SEQUENCE
                                            present iff complete),

and a refused symbol does not end the walk: the same matcher is offered the
rest of the sequence while the reference stays where it was ("try again"
contract), so every history containing refusals is exercised too.
"""
import itertools
import random

from vlib import jsonx
from vlib.gen import patterns as G
from vlib.ref import regex as R

PROPERTY = "C18"
LEVEL = "exploration"
TECHNIQUE = (
    "runtime monitoring: real Matcher driven through every symbol history of a bounded box, each "
    "match_symbol / is_complete / valid_next_symbols result compared with an independent Glushkov automaton"
)

LEAVES = ["a", "b", ".", "$"]
SEQ_ALPHA = ["a", "b", "z"]  # z: named by no pattern (only a wildcard can take it)
RENAMES = {"airy": {"a": "alpha_1", "b": "b2", "z": "Zz_9"}}
FRESH_UNIT = "zz_not_a_data_unit"

# tier -> (exhaustive boxes [(nodes_lo, nodes_hi, maxlen)], sampled [(nodes, how many, maxlen)], real maxlen)
PARAMS = {
    "quick": {"boxes": [(1, 5, 5)], "sampled": [(6, 600, 5), (7, 600, 5)], "real_len": 4, "nshards": 16},
    "thorough": {"boxes": [(1, 6, 7), (7, 7, 5)], "sampled": [], "real_len": 6, "nshards": 64},
}

RULE = (
    "a case is a walk (pattern text, symbol history): one real Matcher is offered the history symbol by symbol and is "
    "observed after every symbol (match_symbol return, is_complete, valid_next_symbols; is_complete/valid_next_symbols "
    "only the first time a history prefix occurs, they are deterministic). Patterns: EVERY syntax tree with 1..5 nodes "
    "(quick) / 1..6 and exactly 7 (thorough) over leaves {a, b, '.', '$'} and operators ? * + | concatenation, '$' only "
    "where nothing mandatory follows, rendered to text in 4 styles (spaced / no-whitespace / fully parenthesised / "
    "tabs+newlines with long symbol names; injective rendering, so distinct trees are distinct texts) x EVERY history of "
    "length 5 (quick) / 7 for <=6 nodes and 5 for 7 nodes (thorough) over {a, b, z} (z is named by no pattern), shorter "
    "histories being their prefixes; quick additionally a VERIF_SEED-chosen sample of 600+600 trees with 6 and 7 nodes x "
    "every history of length 5 (sampled, not exhaustive); plus every distinct real pattern (level table + string "
    "literals given to make_sequence/make_matching_sequence/Matcher in the tree) x every history of length 4 (quick) / 6 "
    "(thorough) over the 8 data-unit names + 1 unknown name. evaluations = walks; a walk is non-trivial if the matcher "
    "accepted at least one symbol of it; all walks are distinct by construction, so distinct_nontrivial is the counted "
    "number of non-trivial walks (the registered distinct-key set holds one key per pattern text)."
)
ASSUMPTIONS = [
    "'$' is generated only where nothing mandatory follows it (everything to its right in every enclosing concatenation "
    "is optional; a loop back into the enclosing */+ body counts as optional), as the property states; real patterns are "
    "checked for the same restriction and skipped (counted) otherwise",
    "'$' is read as a zero-width end-of-sequence assertion: nothing can be consumed after it (a $ b? matches only a)",
    "operator precedence is documented as undefined beyond the postfix modifiers, so generated text always parenthesises a "
    "concatenation inside an alternation and vice versa; real patterns are parsed with the usual precedence "
    "(concatenation binds tighter than |)",
    "valid_next_symbols is compared as a set of admissible symbols (WILDCARD expanded to every symbol of pattern "
    "alphabet + history alphabet + one unknown symbol); which concrete symbols accompany a WILDCARD is not judged",
    "empty patterns, empty groups and empty alternatives are not generated (the property lists no empty construct)",
    "a Matcher is used for one history only (as documented); histories never contain WILDCARD or END_OF_SEQUENCE themselves",
]
CASE_TIMEOUT_S = 600
SHARD_TIMEOUT_S = {"quick": 2400, "thorough": 8 * 3600}
STEP_BUDGET = 1_000_000_000

_CHUNK = {5: 40, 6: 12, 7: 24}


def _style_for(n, idx):
    return G.STYLES[(idx + n) % len(G.STYLES)]


def _enum_cases(n, indices, maxlen, tag):
    """Chunk a list of tree indices (of node count n) into cases."""
    size = _CHUNK.get(n, 60)
    if maxlen >= 7:
        size = max(3, size // 3)
    out = []
    for i in range(0, len(indices), size):
        out.append({"kind": "enum", "n": n, "idx": indices[i : i + size], "maxlen": maxlen, "tag": tag})
    return out


def plan(tier, seed):
    p = PARAMS[tier]
    cases = []
    for lo, hi, maxlen in p["boxes"]:
        for n in range(lo, hi + 1):
            cnt = len(G.valid_trees(n, LEAVES))
            cases.extend(_enum_cases(n, list(range(cnt)), maxlen, "box"))
    rng = random.Random("%s/C18/plan" % seed)
    for n, how_many, maxlen in p["sampled"]:
        cnt = len(G.valid_trees(n, LEAVES))
        idx = sorted(rng.sample(range(cnt), min(how_many, cnt)))
        cases.extend(_enum_cases(n, idx, maxlen, "sampled"))
    # real patterns: split by the first symbol(s) of the history so that cases stay small
    units = G.data_unit_names() + [FRESH_UNIT]
    split = 1 if p["real_len"] <= 4 else 2
    for text, origins in G.real_pattern_set():
        for pre in itertools.product(units, repeat=split):
            cases.append({"kind": "real", "pat": text, "origins": origins, "alpha": units, "maxlen": p["real_len"],
                          "first": list(pre)})
    # heaviest first, then deal round-robin: shards end up with equal cost
    def cost(c):
        if c["kind"] == "enum":
            return len(c["idx"]) * (3 ** c["maxlen"]) * c["maxlen"] * (1 + c["n"] / 8.0)
        return (len(c["alpha"]) ** (c["maxlen"] - len(c["first"]))) * c["maxlen"] * 2.0
    order = sorted(range(len(cases)), key=lambda i: (-cost(cases[i]), i))
    nsh = p["nshards"]
    shards = [{"shard": s, "cases": []} for s in range(nsh)]
    loads = [0.0] * nsh
    for i in order:
        s = min(range(nsh), key=lambda k: (loads[k], k))
        shards[s]["cases"].append(cases[i])
        loads[s] += cost(cases[i])
    return shards


def cases(spec, ctx):
    for c in spec["cases"]:
        yield c


# --------------------------------------------------------------------------


class _Stop(Exception):
    pass


def _expand(vns, universe, WILDCARD, END_OF_SEQUENCE):
    if WILDCARD in vns:
        return set(universe)
    return set(x for x in vns if x != END_OF_SEQUENCE)


def _walk_pattern(ctx, text, alpha, maxlen, origin, first=(), single_seq=None):
    """All histories of length maxlen over alpha (starting with `first`) against one pattern."""
    from vc2_conformance.symbol_re import Matcher, WILDCARD, END_OF_SEQUENCE, SymbolRegexSyntaxError

    try:
        auto = R.Automaton(text)
    except R.RefSyntaxError as e:
        ctx.count("patterns_unparseable_by_reference")
        ctx.inconclusive_note("reference cannot parse %r: %s" % (text, e))
        return
    if not R.dollar_ok(auto.ast):
        ctx.count("patterns_skipped_dollar_before_mandatory")
        return
    universe = sorted(set(alpha) | set(auto.symbols))
    uset = set(universe)
    hyp = []  # lazily built what-if model

    def hypothesis():
        if not hyp:
            hyp.append(R.UndirectedThompson(text))
        return hyp[0]

    def report(sig, what, seq, upto, detail):
        ctx.violation(
            sig,
            "pattern %r, history %r: %s" % (text, list(seq[: upto + 1]), what),
            case={"kind": "single", "pat": text, "seq": list(seq), "alpha": list(alpha), "origin": origin},
            detail=detail,
        )
        raise _Stop()

    try:
        probe = Matcher(text)
    except SymbolRegexSyntaxError as e:
        ctx.violation("parser-rejects-valid-pattern", "Matcher(%r) raised SymbolRegexSyntaxError: %s" % (text, e),
                      case={"kind": "single", "pat": text, "seq": [], "alpha": list(alpha), "origin": origin})
        return
    except Exception as e:
        ctx.violation("matcher-crash:constructor:" + type(e).__name__, "Matcher(%r) raised %r" % (text, e),
                      case={"kind": "single", "pat": text, "seq": [], "alpha": list(alpha), "origin": origin})
        return

    # observation of the empty history
    def observe(m, state, seq, upto, eff, after_refusal, last_obs):
        """Compare is_complete / valid_next_symbols with the reference.  Returns the raw observation."""
        comp = m.is_complete()
        vns = m.valid_next_symbols()
        obs = (bool(comp), frozenset(vns))
        ctx.count("prefix_observations")
        if after_refusal and last_obs is not None and obs != last_obs:
            report(
                "refused-symbol-changed-state",
                "after the refused symbol %r the matcher reports is_complete=%r valid_next_symbols=%r, before it %r / %r"
                % (seq[upto], obs[0], sorted(obs[1]), last_obs[0], sorted(last_obs[1])),
                seq, upto, {"accepted_so_far": list(eff)},
            )
        exp_comp = auto.accepting(state)
        if bool(comp) != exp_comp:
            if comp:
                h = hypothesis()
                sig = ("matcher-overaccepts:bidirectional-epsilon" if h.accepting(h.run(eff)) and h.run(eff)
                       else "is_complete:true-but-not-in-language")
            else:
                sig = "is_complete:false-but-in-language"
            report(sig, "is_complete() = %r but the accepted symbols %r %s the language" % (comp, list(eff), "are in" if exp_comp else "are not in"),
                   seq, upto, {"accepted_so_far": list(eff)})
        ctx.count("complete_true" if comp else "complete_false")
        if not isinstance(vns, (set, frozenset)):
            report("valid_next_symbols:not-a-set", "valid_next_symbols() returned %r" % (type(vns).__name__,), seq, upto, None)
        if (END_OF_SEQUENCE in vns) != exp_comp:
            report("valid_next_symbols:end-of-sequence-flag",
                   "END_OF_SEQUENCE %s valid_next_symbols() although the accepted symbols %r %s the language"
                   % ("in" if END_OF_SEQUENCE in vns else "not in", list(eff), "are in" if exp_comp else "are not in"),
                   seq, upto, {"valid_next_symbols": sorted(vns)})
        named = set(x for x in vns if x != END_OF_SEQUENCE and x != WILDCARD)
        if not named <= set(auto.symbols):
            report("valid_next_symbols:unknown-symbol", "valid_next_symbols() lists %r which the pattern never names"
                   % (sorted(map(repr, named - set(auto.symbols))),), seq, upto, {"valid_next_symbols": sorted(map(repr, vns))})
        got = _expand(vns, uset, WILDCARD, END_OF_SEQUENCE)
        exp = auto.next_symbols(state, universe)
        if WILDCARD in vns:
            ctx.count("next_symbols_with_wildcard")
        if END_OF_SEQUENCE in vns:
            ctx.count("next_symbols_with_end")
        if got != exp:
            extra, missing = sorted(got - exp), sorted(exp - got)
            if extra:
                h = hypothesis()
                hs = h.run(eff)
                sig = ("matcher-overaccepts:bidirectional-epsilon"
                       if hs and all(h.step(hs, x) for x in extra) else "valid_next_symbols:lists-dead-symbol")
            else:
                sig = "valid_next_symbols:omits-live-symbol"
            report(sig, "valid_next_symbols() = %r after accepting %r; over %r the symbols keeping a match possible are %r (extra %r, missing %r)"
                   % (sorted(vns), list(eff), universe, sorted(exp), extra, missing), seq, upto,
                   {"accepted_so_far": list(eff), "valid_next_symbols": sorted(vns), "expected": sorted(exp)})
        return obs

    try:
        empty_obs = observe(probe, auto.start(), (), -1, (), False, None)
    except _Stop:
        return

    n_acc = n_ref = n_walks = n_nontrivial = 0
    prev = None
    if single_seq is not None:
        seqs = [tuple(single_seq)]
    else:
        rest = maxlen - len(first)
        seqs = (tuple(first) + s for s in itertools.product(alpha, repeat=rest))
    for seq in seqs:
        # histories shared with the previous walk were already observed (deterministic): from the
        # first new position minus one onwards everything is observed again
        c = 0
        if prev is not None:
            while c < len(seq) and seq[c] == prev[c]:
                c += 1
        prev = seq
        n_walks += 1
        try:
            m = Matcher(text)
            state = auto.start()
            eff = []
            last_obs, last_obs_at = empty_obs, -1  # a fresh matcher is in the observed empty-history situation
            accepted_any = False
            for i, x in enumerate(seq):
                try:
                    r = m.match_symbol(x)
                except Exception as e:
                    report("matcher-crash:match_symbol:" + type(e).__name__, "match_symbol(%r) raised %r" % (x, e), seq, i, None)
                nstate = auto.step(state, x)
                if r is not True and r is not False:
                    report("match_symbol:non-boolean", "match_symbol(%r) returned %r" % (x, r), seq, i, None)
                if r and not nstate:
                    h = hypothesis()
                    sig = "matcher-overaccepts:bidirectional-epsilon" if h.run(eff + [x]) else "matcher-overaccepts:match_symbol"
                    report(sig, "match_symbol(%r) = True after accepting %r, but %r is not a prefix of any matching sequence"
                           % (x, eff, eff + [x]), seq, i, {"accepted_so_far": list(eff)})
                if not r and nstate:
                    report("matcher-underaccepts:match_symbol",
                           "match_symbol(%r) = False after accepting %r, but %r is a prefix of a matching sequence"
                           % (x, eff, eff + [x]), seq, i, {"accepted_so_far": list(eff)})
                if r:
                    state = nstate
                    eff.append(x)
                    n_acc += 1
                    accepted_any = True
                else:
                    n_ref += 1
                if i >= c - 1:
                    last_obs = observe(m, state, seq, i, eff, not r, last_obs if last_obs_at == i - 1 else None)
                    last_obs_at = i
            if accepted_any:
                n_nontrivial += 1
        except _Stop:
            continue
    ctx.count("symbols_accepted", n_acc)
    ctx.count("symbols_refused", n_ref)
    ctx.count("walks", n_walks)
    ctx.count("walks_nontrivial", n_nontrivial)
    ctx.count("patterns")
    if R.has_kind(auto.ast, "end"):
        ctx.count("patterns_with_dollar")
    if R.has_kind(auto.ast, "any"):
        ctx.count("patterns_with_wildcard")
    ctx.seen(jsonx.key_hash([text, list(alpha), maxlen, list(first)]), nontrivial=n_nontrivial > 0, n=n_walks)
    return n_walks


def run_case(case, ctx):
    kind = case["kind"]
    if kind == "enum":
        n = case["n"]
        trees = G.valid_trees(n, LEAVES)
        for idx in case["idx"]:
            t = trees[idx]
            style = _style_for(n, idx)
            names = RENAMES.get(style, {})
            text = G.render(t, style, names)
            alpha = [names.get(s, s) for s in SEQ_ALPHA]
            # oracle self-check: the reference parser must recover the generated tree
            if G.flatten_ref(R.parse(text)) != G.to_ref_shape(t, names):
                ctx.inconclusive_note("reference parser does not recover tree %r from %r" % (t, text))
                continue
            ctx.count("enum_patterns_nodes_%d_%s" % (n, case.get("tag", "box")))
            ctx.count("style_" + style)
            _walk_pattern(ctx, text, alpha, case["maxlen"], "tree %d/%d" % (n, idx))
            if idx % 997 == 0:
                ctx.sample({"pattern": text, "tree_nodes": n, "histories": "all of length %d over %r" % (case["maxlen"], alpha)})
    elif kind == "real":
        nw = _walk_pattern(ctx, case["pat"], case["alpha"], case["maxlen"], case["origins"], first=case["first"])
        if nw:
            ctx.count("real_walks", nw)
            ctx.note("real_patterns", case["pat"])
            for o in case["origins"]:
                ctx.note("real_pattern_origins", o)
            if case["first"] == [case["alpha"][0]] * len(case["first"]):
                ctx.sample({"pattern": case["pat"], "origins": case["origins"],
                            "histories": "all of length %d over %r starting %r" % (case["maxlen"], case["alpha"], case["first"])})
    elif kind == "single":
        _walk_pattern(ctx, case["pat"], case["alpha"], len(case["seq"]), case.get("origin"), single_seq=case["seq"])
    else:
        raise ValueError(kind)


# --------------------------------------------------------------------------


def _expected_boxes(tier):
    exp = {}
    for lo, hi, maxlen in PARAMS[tier]["boxes"]:
        for n in range(lo, hi + 1):
            exp[n] = len(G.valid_trees(n, LEAVES))
    return exp


def floor(agg, tier):
    c = agg["counters"]
    s = agg["sets"]
    miss = []
    for n, cnt in sorted(_expected_boxes(tier).items()):
        got = c.get("enum_patterns_nodes_%d_box" % n, 0)
        if got != cnt:
            miss.append("box incomplete: %d of %d patterns with %d nodes walked" % (got, cnt, n))
    lo = {"quick": 1, "thorough": 20}[tier]
    for name, need in (("symbols_accepted", 800000 * lo), ("symbols_refused", 800000 * lo), ("complete_true", 100000 * lo),
                       ("complete_false", 40000 * lo), ("next_symbols_with_wildcard", 50000 * lo),
                       ("next_symbols_with_end", 100000 * lo), ("patterns_with_dollar", 300), ("patterns_with_wildcard", 500),
                       ("real_walks", {"quick": 40000, "thorough": 3000000}[tier])):
        if c.get(name, 0) < need:
            miss.append("%s = %d < %d" % (name, c.get(name, 0), need))
    for st in G.STYLES:
        if c.get("style_" + st, 0) < 300:
            miss.append("rendering style %s used fewer than 300 times" % st)
    origins = set(s.get("real_pattern_origins", ()))
    nlevels = len([o for o in origins if str(o).startswith("level ")])
    if nlevels < 11:
        miss.append("only %d level patterns exercised (< 11)" % nlevels)
    if len(set(s.get("real_patterns", ()))) < 6:
        miss.append("fewer than 6 distinct real patterns exercised")
    if not any("test_cases" in str(o) for o in origins):
        miss.append("no test-case generator pattern found in the tree")
    if not any("Matcher" in str(o) for o in origins) or not any("make_matching_sequence" in str(o) for o in origins):
        miss.append("generic sequence pattern (decoder Matcher / encoder make_matching_sequence) not found in the tree")
    if c.get("patterns_skipped_dollar_before_mandatory", 0):
        miss.append("a real pattern uses '$' before something mandatory (outside the property's domain)")
    return miss


def evidence_extra(agg, tier):
    c = agg["counters"]
    s = agg["sets"]
    exp = _expected_boxes(tier)
    complete = all(c.get("enum_patterns_nodes_%d_box" % n, 0) == cnt for n, cnt in exp.items()) and agg["shards_ok"] == agg["shards"]
    p = PARAMS[tier]
    origins = set(s.get("real_pattern_origins", ()))
    return {
        "distinct_nontrivial": c.get("walks_nontrivial", 0),
        "distinct_pattern_keys_registered": len(agg["distinct"]),
        "exhaustive": bool(complete),
        "exhaustive_boxes": [
            "every tree with %d..%d nodes over leaves %r (ops ? * + | cat, '$' only where nothing mandatory follows) x every "
            "history of length <= %d over %r" % (lo, hi, LEAVES, ml, SEQ_ALPHA) for lo, hi, ml in p["boxes"]
        ] + ["every distinct real pattern x every history of length <= %d over the 8 data-unit names + 1 unknown name" % p["real_len"]],
        "sampled_not_exhaustive": ["%d seed-chosen trees with %d nodes x every history of length <= %d" % (k, n, ml) for n, k, ml in p["sampled"]],
        "patterns_per_node_count": {str(n): cnt for n, cnt in sorted(exp.items())},
        "pattern_history_walks": c.get("walks", 0),
        "per_prefix_observations": c.get("prefix_observations", 0),
        "match_symbol_accepted": c.get("symbols_accepted", 0),
        "match_symbol_refused": c.get("symbols_refused", 0),
        "real_level_patterns_exercised": len([o for o in origins if str(o).startswith("level ")]),
        "real_distinct_patterns_exercised": len(set(s.get("real_patterns", ()))),
    }
