"""C14 — lossy encoding fills slices to the byte budget with the smallest qindex.

Monitor: `transform_and_slice_picture` is rebound in encoder.pictures so the
unquantised coefficients (+ matrix values) of every slice are captured; the
encoder's description gives the chosen qindex / length fields / scaler; the
serialised slice sizes are measured through a MonitoredDeserialiser.  Oracle:
R-quant + R-golomb minimality search and closed-form budgets.
"""
import copy
from io import BytesIO

from vlib import jsonx, vc2util
from vlib.gen import configs
from vlib.ref import rq
from vlib.rebind import Rebind

PROPERTY = "C14"
LEVEL = "exploration"
TECHNIQUE = "runtime monitoring: capture of pre-quantisation slice coefficients at a rebound hook + encoder description + measured serialised slice sizes, judged by an independent quantise/measure minimality oracle"
RULE = (
    "case = lossy configuration recipe (both profiles, 1-12 slices, picture_bytes from the minimum to values forcing "
    "slice_size_scaler 2-4, minimum_qindex in {0,5,40}, minimum_slice_size_scaler in {1,2,3}, fragments and fields "
    "included) + pictures; every slice of every picture is one oracle evaluation; distinct = distinct (recipe, kwargs); "
    "slices whose chosen qindex equals the minimum and which are all-zero are trivial"
)
ASSUMPTIONS = [
    "bit depth <= 16 and custom matrix entries <= 8 so the needed qindex fits its 7/8-bit field (DESIGN section 7 item 5)",
    "'fits' is decided with the informative forward quantiser of the standard (the one the encoder documents)",
    "slice_prefix_bytes is 0 in encoder output",
]
CASE_TIMEOUT_S = 120
STEP_BUDGET = 400000000

_state = {}


def setup(ctx):
    import vc2_conformance.encoder.pictures as EP

    captured = []

    def factory(orig):
        def wrapped(codec_features, picture):
            r = orig(codec_features, picture)
            captured.append(r)
            return r

        return wrapped

    _state["captured"] = captured
    _state["rb"] = Rebind(EP.transform_and_slice_picture, factory).install()


def plan(tier, seed):
    n = 1600 if tier == "quick" else 100000
    nsh = 16 if tier == "quick" else 64
    return [{"shard": i, "n": n // nsh} for i in range(nsh)]


def cases(spec, ctx):
    rng = ctx.rng
    for i in range(spec["n"]):
        prof = rng.choice([0, 3])
        r = configs.random_recipe(rng, {"lossless": "no", "profiles": [prof], "max_slices": (4, 3), "maxw": 16, "maxh": 12})
        n = r["sx"] * r["sy"]
        if prof == 3:
            r["pb"] = rng.choice([n * 4, n * 4 + 1, n * 5, n * 7, n * 12 + 3, n * 30 + 5, n * 300, n * 700 + 13, n * 1030 + 1])
        else:
            r["pb"] = rng.choice([n, n + 1, n * 2 + 1, n * 3, n * 9, n * 40 + 7, n * 300])
        if r["pb"] >= n * 300:
            # big budgets: keep pictures tiny so the case stays fast
            r["w"] = min(r["w"], 8)
            r["h"] = min(r["h"], 8)
            for kk in ("cw", "ch", "lo", "to"):
                r.pop(kk, None)
            xm = 2 if r["cdf"] else 1
            ym = (2 if r["cdf"] == 2 else 1) * (2 if (r["pcm"] or r["ss"]) else 1)
            r["w"] = max(xm, r["w"] - r["w"] % xm)
            r["h"] = max(ym, r["h"] - r["h"] % ym)
        r["pics"]["class"] = rng.choice(["noise", "noise", "noise", "ramp", "checker", "mid", "zero", "mixed"])
        if rng.random() < 0.2:
            # a sibling (one attribute changed) right after its original, in the same process
            sb = configs.sibling(rng, r, rng.choice(["cdf", "chroma_depth", "luma_depth", "wi", "d", "sx", "sy", "qm", "pb", "fsc"]))
            if not sb["lossless"] and sb["pb"] is not None:
                yield {"recipe": sb, "minq": rng.choice([0, 5]), "mins": 1}
        yield {
            "recipe": r,
            # minimum_qindex is a single int or one int per picture
            "minq": rng.choice([0, 0, 0, 5, 40]) if rng.random() < 0.75 else [rng.choice([0, 3, 5, 40]) for _ in range(r["pics"]["n"])],
            "mins": rng.choice([1, 1, 2, 3]),
        }


def _pictures_of_sequence(seq):
    """-> list of dicts {tp: transform_parameters, slices: [slice dicts]} in coding order"""
    pics = []
    for du in seq["data_units"]:
        if "picture_parse" in du:
            wt = du["picture_parse"]["wavelet_transform"]
            td = wt["transform_data"]
            pics.append({"tp": wt["transform_parameters"], "slices": list(td.get("hq_slices", td.get("ld_slices", [])))})
        elif "fragment_parse" in du:
            fp = du["fragment_parse"]
            if fp["fragment_header"].get("fragment_slice_count", 0) == 0:
                pics.append({"tp": fp["transform_parameters"], "slices": []})
            else:
                fd = fp["fragment_data"]
                pics[-1]["slices"].extend(fd.get("hq_slices", fd.get("ld_slices", [])))
    return pics


def _measure_slice_bits(data):
    """Serialised size in bits of every slice, in stream order (independent of
    length fields: positions observed while the real deserialiser reads)."""
    import vc2_conformance.bitstream as bs
    from vc2_conformance.pseudocode.state import State

    marks = []

    def mon(des, target, value):
        if target == "qindex":
            by, bi = des.io.tell()
            marks.append(by * 8 + (7 - bi))

    r = bs.BitstreamReader(BytesIO(data))
    with bs.MonitoredDeserialiser(mon, r) as des:
        bs.parse_stream(des, State())
    units = vc2util.framing(data)
    sizes = []
    ld = None
    mi = 0
    for u in units:
        if u.parse_code in vc2util.PICTURE_CODES + vc2util.FRAGMENT_CODES:
            ld = u.parse_code in (vc2util.PC_LD_PICTURE, vc2util.PC_LD_FRAGMENT)
            qbits = 7 if ld else 8
            end = (u.offset + u.length) * 8
            starts = []
            while mi < len(marks) and marks[mi] <= end:
                starts.append(marks[mi] - qbits)
                mi += 1
            for a, b in zip(starts, starts[1:] + [end]):
                sizes.append(b - a)
    return sizes


def run_case(case, ctx):
    from vc2_conformance.encoder import make_sequence, UnsatisfiableCodecFeaturesError

    recipe = case["recipe"]
    minq_arg, mins = case["minq"], case["mins"]
    captured = _state["captured"]
    del captured[:]
    cf = configs.build_cf(recipe)
    pics = configs.build_pictures(recipe, cf["video_parameters"])
    key = jsonx.key_hash([recipe, minq_arg, mins])
    try:
        seq = make_sequence(cf, copy.deepcopy(pics), minimum_qindex=minq_arg, minimum_slice_size_scaler=mins)
    except UnsatisfiableCodecFeaturesError as e:
        ctx.count("encoder_rejected:" + type(e).__name__)
        ctx.seen(key, nontrivial=False)
        return
    if len(captured) != len(pics):
        ctx.inconclusive_note("transform_and_slice_picture hook saw %d calls for %d pictures" % (len(captured), len(pics)))
        return
    ctx.count("hook_calls", len(captured))
    coded = _pictures_of_sequence(seq)
    if len(coded) != len(pics):
        ctx.violation("picture-count", "%d coded pictures for %d inputs" % (len(coded), len(pics)))
        return
    hq = recipe["profile"] == 3
    sxn, syn = recipe["sx"], recipe["sy"]
    n = sxn * syn
    pb = recipe["pb"]
    nontrivial = False
    expected_sizes = []
    for pi, (cp, coeffs) in enumerate(zip(coded, captured)):
        minq = minq_arg[pi] if isinstance(minq_arg, list) else minq_arg
        slices = cp["slices"]
        if len(slices) != n:
            ctx.violation("slice-count", "picture %d has %d slices, expected %d" % (pi, len(slices), n))
            return
        sp = cp["tp"]["slice_parameters"]
        if hq:
            scaler = sp["slice_size_scaler"]
            if scaler < mins:
                ctx.violation("scaler-below-minimum", "slice_size_scaler %d < requested minimum %d" % (scaler, mins))
            ctx.count("hq_scaler:%d" % min(scaler, 5))
            tcb = pb - 4 * n
            total_bytes = 0
        for idx, s in enumerate(slices):
            syi, sxi = divmod(idx, sxn)
            sc = coeffs[syi][sxi]
            q = s["qindex"]
            if hq:
                L = rq.slice_bytes(sxi, syi, sxn, tcb, n * scaler)
                budget = 8 * scaler * L
                comps = [(sc.Y.coeff_values, sc.Y.quant_matrix_values), (sc.C1.coeff_values, sc.C1.quant_matrix_values),
                         (sc.C2.coeff_values, sc.C2.quant_matrix_values)]
                align = 8 * scaler
                qmax = 255
            else:
                sb = rq.slice_bytes(sxi, syi, sxn, pb, n)
                budget = 8 * sb - 7 - rq.intlog2(8 * sb - 7)
                cv, cm = [], []
                for a, am, b, bm in zip(sc.C1.coeff_values, sc.C1.quant_matrix_values, sc.C2.coeff_values, sc.C2.quant_matrix_values):
                    cv += [a, b]
                    cm += [am, bm]
                comps = [(sc.Y.coeff_values, sc.Y.quant_matrix_values), (cv, cm)]
                align = 1
                qmax = 127

            def quantised(qq):
                return [[rq.forward_quant(x, max(0, qq - m)) for x, m in zip(vals, mats)] for vals, mats in comps]

            def fits(qq):
                tot = 0
                for qv in quantised(qq):
                    b = rq.coeffs_bits(qv)
                    tot += -(-b // align) * align
                return tot <= budget

            ctx.seen(jsonx.key_hash([key, pi, idx]), nontrivial=False)
            ctx.count("slices_judged")
            if q < minq:
                ctx.violation("qindex-below-minimum", "slice %d qindex %d < minimum %d" % (idx, q, minq))
            if q > qmax:
                ctx.violation("qindex-exceeds-field", "slice %d qindex %d does not fit its field" % (idx, q))
            if not fits(q):
                ctx.violation("slice-over-budget:" + ("HQ" if hq else "LD"),
                              "slice %d (pic %d) coded with qindex %d does not fit its budget of %d bits" % (idx, pi, q, budget))
            else:
                lower = [q2 for q2 in range(minq, q) if fits(q2)]
                if lower:
                    ctx.violation("qindex-not-minimal:" + ("HQ" if hq else "LD"),
                                  "slice %d (pic %d) coded with qindex %d but qindex %d already fits %d bits (min %d)"
                                  % (idx, pi, q, lower[0], budget, minq))
            if q > minq:
                nontrivial = True
                ctx.count("slices_qindex_above_minimum")
            # the coded coefficients are the ones quantised at the chosen index
            qv = quantised(q)
            if hq:
                codedv = [s["y_transform"], s["c1_transform"], s["c2_transform"]]
            else:
                codedv = [s["y_transform"], s["c_transform"]]
            if [list(x) for x in codedv] != qv:
                ctx.violation("coded-coefficients-not-quantised-at-qindex",
                              "slice %d (pic %d): coded coefficients differ from the captured coefficients quantised at qindex %d" % (idx, pi, q))
            if hq:
                ls = [s["slice_y_length"], s["slice_c1_length"], s["slice_c2_length"]]
                if max(ls) > 255 or min(ls) < 0:
                    ctx.violation("length-field-exceeds-8-bits", "slice %d lengths %r" % (idx, ls))
                for lf, v in zip(ls, qv):
                    if 8 * scaler * lf < rq.coeffs_bits(v):
                        ctx.violation("length-field-too-small", "slice %d length field %d*%d bytes < %d bits of coefficients" % (idx, lf, scaler, rq.coeffs_bits(v)))
                total_bytes += 4 + scaler * sum(ls)
                expected_sizes.append(8 * (4 + scaler * sum(ls)))
                if sum(ls) > L:
                    ctx.violation("hq-slice-exceeds-budget", "slice %d length fields sum %d > budget %d" % (idx, sum(ls), L))
            else:
                expected_sizes.append(8 * sb)
                yl = s["slice_y_length"]
                if yl < rq.coeffs_bits(qv[0]) or yl > 8 * sb - 7 - rq.intlog2(8 * sb - 7):
                    ctx.violation("ld-slice-y-length", "slice %d slice_y_length %d outside [%d, %d]" % (idx, yl, rq.coeffs_bits(qv[0]), 8 * sb - 7 - rq.intlog2(8 * sb - 7)))
        if hq:
            if abs(total_bytes - pb) > scaler:
                ctx.violation("hq-total-bytes", "picture %d: slices total %d bytes, picture_bytes %d, scaler %d" % (pi, total_bytes, pb, scaler))
            ctx.maxi("max_hq_total_deviation", abs(total_bytes - pb))
    # serialised sizes
    try:
        data = vc2util.serialise([seq])
    except Exception as e:
        ctx.violation("serialise-failed:" + type(e).__name__, "encoder output failed to serialise: %r" % (e,))
        ctx.seen(key)
        return
    sizes = _measure_slice_bits(data)
    if sizes != expected_sizes:
        bad = [i for i, (a, b) in enumerate(zip(sizes, expected_sizes)) if a != b][:5]
        ctx.violation("serialised-slice-size:" + ("HQ" if hq else "LD"),
                      "serialised slice sizes differ from computed sizes at slices %r (%d measured, %d expected)" % (bad, len(sizes), len(expected_sizes)),
                      detail={"measured": sizes[:24], "expected": expected_sizes[:24]})
    ctx.count("slices_measured", len(sizes))
    ctx.seen(key, nontrivial=nontrivial)
    ctx.count("cases:" + ("HQ" if hq else "LD"))
    if isinstance(minq_arg, list):
        ctx.count("cases_minq_per_picture_list")
    else:
        ctx.count("cases_minq:%d" % minq_arg)
    if recipe["fsc"]:
        ctx.count("cases_fragmented")
    if ctx.rng.random() < 0.004:
        ctx.sample({"recipe": recipe, "minq": minq_arg, "mins": mins})


def floor(agg, tier):
    c = agg["counters"]
    miss = []
    scale = 1 if tier == "quick" else 50
    if c.get("hook_calls", 0) < 1000 * scale:
        miss.append("transform_and_slice_picture hook observed fewer than %d pictures" % (1000 * scale))
    if c.get("slices_judged", 0) < 5000 * scale:
        miss.append("fewer than %d slices judged" % (5000 * scale))
    if c.get("slices_qindex_above_minimum", 0) < 1000 * scale:
        miss.append("fewer than %d slices needed a qindex above the minimum" % (1000 * scale))
    for k in ("cases:HQ", "cases:LD", "cases_minq:5", "cases_minq:40", "cases_minq_per_picture_list", "cases_fragmented", "hq_scaler:2", "hq_scaler:3"):
        if c.get(k, 0) < 20:
            miss.append("stratum %s observed fewer than 20 times" % k)
    if c.get("slices_measured", 0) < 5000 * scale:
        miss.append("too few serialised slice sizes measured")
    return miss
