"""C04 — lossless and qindex-0 encodings reconstruct pictures exactly.

Monitor: decoder picture callback vs the input pictures, with the qindex of
every slice observed both in the encoder's description and in the
deserialised stream (lossy cases are judged only when every slice used 0).
"""
from vlib import jsonx, pipeline, vc2util
from vlib.gen import configs

PROPERTY = "C04"
LEVEL = "exploration"
TECHNIQUE = "runtime monitoring: decoder callback pictures compared with encoder inputs over generated lossless and qindex-0 lossy configurations; qindex observed in description and deserialised stream"
RULE = (
    "case = configuration recipe + pictures; lossless HQ recipes over all wavelet pairs/depths/slices/subsampling/"
    "coding modes/bit depths 1-16 and lossy recipes with roomy picture_bytes; a lossy case is judged only if every "
    "slice was coded with qindex 0 (measured); distinct = distinct recipe hash; unjudged lossy cases are trivial"
)
ASSUMPTIONS = [
    "depth <= 16 bits for the bulk of the cases plus a stratum of 33-64 bit depths on <= 4x4 frames; regular frame sizes, small pictures (<= 16x16)",
    "the qindex of each slice is read from the encoder's description and cross-checked against the deserialised stream",
]
CASE_TIMEOUT_S = 120
STEP_BUDGET = 400000000


def plan(tier, seed):
    n = 3200 if tier == "quick" else 160000
    nsh = 16 if tier == "quick" else 64
    return [{"shard": i, "n": n // nsh} for i in range(nsh)]


BOUNDARY_LENGTHS = sorted({255 * k + d for k in (1, 2, 3, 4) for d in (-1, 0, 1)} | {256 * k + d for k in (1, 2, 3, 4) for d in (-1, 0, 1)})


def cases(spec, ctx):
    for i in range(spec["n"]):
        if i % 40 == 7:
            # a slice component whose coded length sits on a slice_size_scaler boundary (255k / 256k bytes, +-1)
            ctx.count("slice_length_boundary_cases")
            yield {"recipe": configs.codelen_recipe(ctx.rng, ctx.rng.choice(BOUNDARY_LENGTHS))}
        k = ctx.rng.random()
        if k < 0.1:
            # no transform at all: the decoder's synthesis is the identity here
            space = {"lossless": "yes", "depth0": True, "max_dwt": 0}
        elif k < 0.6:
            space = {"lossless": "yes"}
        elif k < 0.8:
            space = {"lossless": "no", "lossy_bytes": "roomy", "maxw": 8, "maxh": 8, "profiles": [3]}
        else:
            space = {"lossless": "no", "lossy_bytes": "roomy", "maxw": 8, "maxh": 8, "profiles": [0]}
        deep = not space.get("depth0") and ctx.rng.random() < 0.06
        if deep:
            # very deep samples (up to 64 bits): coefficient magnitudes beyond what a double represents exactly
            space = dict(space, max_depth_bits=64, maxw=4, maxh=4, max_slices=(2, 1))
        r = configs.random_recipe(ctx.rng, space)
        if deep:
            lo = ctx.rng.randrange(33, 65)
            r["range"] = [0, (1 << lo) - 1, 1 << (lo - 1), (1 << lo) - 1]
            if not r["lossless"]:
                # byte budget that admits qindex 0: every coefficient of the padded picture (all slices together) at
                # twice its worst-case bit length, plus per-slice overheads
                n = r["sx"] * r["sy"]
                sw, sh = 1 << (r["d"] + r["dh"]), 1 << r["d"]
                pw, ph = -(-r["w"] // sw) * sw, -(-r["h"] // sh) * sh
                bits = 2 * (lo + 2 * (r["d"] + r["dh"]) + 4) + 2
                r["pb"] = (3 * pw * ph * bits) // 8 + 64 * n
            ctx.count("deep_sample_cases")
        # extremes and noise matter most here
        r["pics"]["class"] = ctx.rng.choice(["noise", "noise", "checker", "max", "zero", "mixed", "ramp", "mid"])
        yield {"recipe": r}
        if ctx.rng.random() < 0.25:
            for _ in range(ctx.rng.choice([1, 2])):
                sb = configs.sibling(ctx.rng, r)
                sb["pics"]["class"] = r["pics"]["class"]
                yield {"recipe": sb}


def stream_qindices(data):
    """qindex of every slice as read back by the deserialiser"""
    ctx, _ = vc2util.deserialise(data)
    out = []
    for seq in ctx["sequences"]:
        for pic, s, kind in pipeline.slices_of_sequence(seq):
            out.append(s["qindex"])
    return out


def run_case(case, ctx):
    recipe = case["recipe"]
    o = pipeline.run(recipe)
    key = jsonx.key_hash(recipe)
    if o.stage == "encoder-rejected":
        ctx.count("encoder_rejected:" + o.error_class)
        ctx.seen(key, nontrivial=False)
        return
    if (o.stage == "serialise-failed" and not recipe["lossless"] and recipe["range"] and recipe["range"][1].bit_length() > 16
            and any(q > (127 if recipe["profile"] == 0 else 255) for per_pic in (o.qindices or []) for q in per_pic)):
        # DESIGN section 7 item 5: beyond 16 bits a byte budget the rate control cannot meet within the qindex field is a
        # caller error the encoder does not promise to detect (the deep stratum sizes its budgets to avoid this)
        ctx.count("deep_case_budget_beyond_qindex_field")
        ctx.seen(key, nontrivial=False)
        return
    if o.stage != "done" or o.verdict.kind != "ok":
        # C03's concern; here it only means the case cannot be judged -- but it is
        # still a failure to reconstruct, so report it under its own signature.
        what = o.stage if o.stage != "done" else ("validator:" + str(o.verdict.exc_class))
        ctx.violation("no-decoded-output:" + what, "pipeline did not yield decoded pictures: %s %s" % (what, o.error or ""),
                      detail=o.tb or (o.verdict.tb if o.verdict else None))
        ctx.seen(key)
        return
    lossless = recipe["lossless"]
    enc_q = [q for per_pic in o.qindices for q in per_pic]
    if lossless:
        judged = True
        ctx.count("lossless_cases")
        if any(q != 0 for q in enc_q):
            ctx.count("lossless_with_nonzero_qindex")
    else:
        ctx.count("lossy_cases")
        judged = bool(enc_q) and all(q == 0 for q in enc_q)
        if judged:
            sq = stream_qindices(o.data)
            if sq != enc_q:
                ctx.violation("qindex-description-vs-stream", "encoder description qindices differ from deserialised stream")
            judged = all(q == 0 for q in sq)
        if judged:
            ctx.count("lossy_qindex0_cases")
            ctx.count("lossy_qindex0:" + ("LD" if recipe["profile"] == 0 else "HQ"))
        else:
            ctx.count("lossy_not_judged_nonzero_qindex")
    ctx.seen(key, nontrivial=judged)
    if not judged:
        return
    pics = o.pics
    out = o.verdict.pictures
    if len(out) != len(pics):
        ctx.violation("picture-count", "decoded %d pictures for %d inputs" % (len(out), len(pics)))
        return
    changed = o.verdict.pictures_changed_after_output()
    ctx.count("retained_picture_objects_rechecked", len(o.verdict.picture_refs))
    if changed:
        ctx.violation("returned-picture-changed-after-output",
                      "picture objects %s handed to the output callback had different sample values once decoding finished (%s)"
                      % (changed, configs.stratum(recipe)))
        return
    for i, (p, (d, _, _)) in enumerate(zip(pics, out)):
        for c in ("Y", "C1", "C2"):
            if d[c] != p[c]:
                nbad = sum(1 for ra, rb in zip(d[c], p[c]) for a, b in zip(ra, rb) if a != b)
                ctx.violation(
                    "reconstruction-differs:" + ("lossless" if lossless else "lossy-qindex0"),
                    "picture %d component %s: %d samples differ after decode (%s)" % (i, c, nbad, configs.stratum(recipe)),
                    detail={"input_row0": p[c][0][:16], "decoded_row0": d[c][0][:16]},
                )
                return
    ctx.count("pictures_compared", len(pics))
    ctx.count("stratum:" + configs.stratum(recipe))
    ctx.note("wavelet_pairs", "%d/%d" % (recipe["wi"], recipe["wih"]))
    ctx.note("depth_pairs", "%d/%d" % (recipe["d"], recipe["dh"]))
    ctx.note("bit_depths", configs.recipe_dims(recipe)["Y"][2])
    ctx.note("content", recipe["pics"]["class"])
    if ctx.rng.random() < 0.002:
        ctx.sample(recipe)


def floor(agg, tier):
    c = agg["counters"]
    miss = []
    scale = 1 if tier == "quick" else 40
    if c.get("lossless_cases", 0) < 1200 * scale:
        miss.append("fewer than %d lossless cases" % (1200 * scale))
    lossy = c.get("lossy_cases", 0)
    if lossy == 0 or c.get("lossy_qindex0_cases", 0) < 0.3 * lossy:
        miss.append("fewer than 30%% of lossy cases reached qindex 0 everywhere (%d of %d)" % (c.get("lossy_qindex0_cases", 0), lossy))
    for p in ("LD", "HQ"):
        if c.get("lossy_qindex0:" + p, 0) < 50:
            miss.append("fewer than 50 qindex-0 lossy %s cases" % p)
    if len(agg["sets"].get("wavelet_pairs", ())) < 40:
        miss.append("fewer than 40 wavelet pairs compared")
    if len(agg["sets"].get("bit_depths", ())) < 12:
        miss.append("fewer than 12 distinct bit depths")
    return miss
