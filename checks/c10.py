"""C10 — concatenated sequences are validated and decoded independently.

Monitor: relation between executions.  Every sequence of a pool is validated
alone (verdict + decoded pictures recorded); then ordered lists of 2-4 pool
members are concatenated and validated; the verdict and the pictures of the
concatenation must be exactly what the standalone executions predict.
"""
import copy
import itertools
import random

from vlib import jsonx, pipeline, vc2util
from vlib.gen import configs
from vlib.gen import units as U

PROPERTY = "C10"
LEVEL = "exploration"
TECHNIQUE = "runtime monitoring: validator verdict and picture callbacks on concatenations compared with the same sequences validated alone (relation between executions), pools mixing profiles, versions, levels, fragments, fields, numbering"
RULE = (
    "case = (pool seed, ordered list of pool indices); a pool has up to 16 sequences: 3 encoder-made from random recipes, 4 *siblings* (one recipe and three re-encodings with exactly one attribute changed: chroma sampling, bit depth, wavelet, slice count, depth or matrix), 4 model-guided "
    "unit histories from random families (profiles, versions 1/2/3, level patterns 0/1/64/66, fragments, fields, numbering starts incl. "
    "wrap) 3 non-conformant single-edit neighbours and 3 targeted members (version-3 header over pictures needing less; a single field; a sequence whose first previous_parse_offset is 13) that keep every parse_info and the final end_of_sequence; every "
    "ordered pair (with repetition) is enumerated per pool, plus sampled lists of length 3 and 4; distinct = distinct (pool, list); "
    "lists whose first member is already rejected are trivial"
)
ASSUMPTIONS = [
    "non-conformant members keep their framing intact so 'the sequence' is well defined inside a concatenation (DESIGN section 7 item 9)",
    "pool members on which the validator crashes when run alone (reported by C01/C02) are not used",
    "levels 1, 64, 66 have permissive value columns installed in-process; their ordering patterns are the real ones",
]
CASE_TIMEOUT_S = 300
STEP_BUDGET = 600000000

_pools = {}


def setup(ctx):
    U.install_permissive_levels()


POOL_SIZE = 22


def plan(tier, seed):
    nsh = 16 if tier == "quick" else 64
    pools_per = 2 if tier == "quick" else 12
    return [{"shard": i, "pools": pools_per, "len3": 450 if tier == "quick" else 1200, "len4": 100 if tier == "quick" else 400}
            for i in range(nsh)]


def cases(spec, ctx):
    for p in range(spec["pools"]):
        pseed = "%d/%d/%d" % (ctx.seed, spec["shard"], p)
        n = POOL_SIZE
        lists = [list(t) for t in itertools.product(range(n), repeat=2)]  # every ordered pair
        r = random.Random(pseed + "/lists")
        for _ in range(spec["len3"]):
            lists.append([r.randrange(n) for _ in range(3)])
        for _ in range(spec["len4"]):
            lists.append([r.randrange(n) for _ in range(4)])
        for i in range(0, len(lists), 50):
            yield {"pool": pseed, "lists": lists[i:i + 50]}


def _framing_intact_neighbour(rng, fam, hist):
    alpha = [k for k in fam.kinds() if k != "EOS"]
    for _ in range(50):
        h = [dict(x) for x in hist]
        op = rng.choice(["delete", "insert", "substitute", "swap", "number"])
        body = len(h) - 1  # keep the final EOS
        if op == "delete" and body > 1:
            del h[rng.randrange(1, body)]
        elif op == "insert":
            k = rng.choice(alpha)
            it = {"k": k}
            if k in ("PIC", "F0") or k.startswith("FS:"):
                it["pn"] = rng.choice([0, 1, 7])
            h.insert(rng.randrange(0, body + 1), it)
        elif op == "substitute" and body > 0:
            k = rng.choice(alpha)
            pos = rng.randrange(0, body)
            it = {"k": k}
            if k in ("PIC", "F0") or k.startswith("FS:"):
                it["pn"] = h[pos].get("pn") or 0
            h[pos] = it
        elif op == "swap" and body > 2:
            pos = rng.randrange(0, body - 1)
            h[pos], h[pos + 1] = h[pos + 1], h[pos]
        elif op == "number":
            cands = [i for i, x in enumerate(h) if x.get("pn") is not None]
            if cands:
                i = rng.choice(cands)
                h[i]["pn"] = (h[i]["pn"] + rng.choice([1, 2, -1])) & 0xFFFFFFFF
        if h != hist and sum(1 for x in h if x["k"] == "EOS") == 1:
            return h
    return None


def build_pool(pseed, ctx):
    import checks.c01 as c01

    rng = random.Random(pseed)
    members = []
    # encoder-made sequences
    while len(members) < 3:
        r = configs.random_recipe(rng, {"maxw": 8, "maxh": 8, "max_slices": (2, 2)})
        r["pics"]["n"] = (2 if r["pcm"] else rng.choice([1, 2]))
        o = pipeline.run(r)
        if o.stage == "done":
            members.append({"kind": "encoder:" + configs.stratum(r), "data": o.data})
    # siblings: the first encoder-made member re-encoded with exactly one attribute changed (same luma size, transform
    # and slicing but other chroma sampling / bit depth / wavelet / slice count ...): anything the validator remembers
    # under too coarse a key, or fails to reset, shows when siblings follow each other
    base = configs.random_recipe(rng, {"maxw": 8, "maxh": 8, "max_slices": (2, 2), "max_dwt": 2})
    base["w"], base["h"] = 8, 8
    for kk in ("cw", "ch", "lo", "to"):
        base.pop(kk, None)
    base["pics"]["n"] = 2 if base["pcm"] else 1
    sib = []
    for attr in rng.sample(["cdf", "cdf", "range", "wi", "slices", "d", "qm"], 3):
        r = copy.deepcopy(base)
        if attr == "cdf":
            r["cdf"] = rng.choice([c for c in (0, 1, 2) if c != base["cdf"]])
        elif attr == "range":
            r["range"] = [0, 1023, 512, 1023] if (base.get("range") or [0, 255])[1] != 1023 else [0, 255, 128, 255]
        elif attr == "wi":
            r["wi"] = r["wih"] = (base["wi"] + 1) % 7
            r["dh"] = 0
        elif attr == "slices":
            r["sx"] = 1 if base["sx"] == 2 else 2
        elif attr == "d":
            r["d"] = 1 if base["d"] != 1 else 2
            r["dh"] = 0
        elif attr == "qm":
            r["qm"] = configs.random_matrix(rng, r["d"], r["dh"])
        if r.get("qm") is None and not configs.has_default_matrix(r["wi"], r["wih"], r["d"], r["dh"]):
            r["qm"] = configs.random_matrix(rng, r["d"], r["dh"])
        elif r.get("qm") is not None and attr in ("wi", "d"):
            r["qm"] = configs.random_matrix(rng, r["d"], r["dh"])
        if not r["lossless"]:
            n = r["sx"] * r["sy"]
            r["pb"] = n * 40
        sib.append((attr, r))
    if not base["lossless"]:
        base["pb"] = base["sx"] * base["sy"] * 40
    for attr, r in [("base", base)] + sib:
        o = pipeline.run(r)
        if o.stage == "done":
            members.append({"kind": "sibling:" + attr, "data": o.data})
    # one sequence mixing a default-matrix picture with a custom-matrix picture (spliced from two encodes of the same
    # configuration): whatever the custom matrix leaves behind must not reach the default-matrix sequences that follow
    if (base.get("qm") is None and not base["lossless"] and configs.has_default_matrix(base["wi"], base["wih"], base["d"], base["dh"])):
        import struct

        b2 = copy.deepcopy(base)
        b2["pb"] = base["sx"] * base["sy"] * 14  # a tight budget: non-zero quantisation indices
        rq = copy.deepcopy(b2)
        rq["qm"] = configs.random_matrix(rng, rq["d"], rq["dh"])
        ob, oq = pipeline.run(b2), pipeline.run(rq)
        if ob.stage == "done" and oq.stage == "done":
            try:
                ub, uq = vc2util.split_units(ob.data), vc2util.split_units(oq.data)
                pic = lambda u: u[4] in vc2util.PICTURE_CODES + vc2util.FRAGMENT_CODES
                last = max(struct.unpack(">I", u[13:17])[0] for u in ub if pic(u))
                first_q = min(struct.unpack(">I", u[13:17])[0] for u in uq if pic(u))
                extra = []
                for u in uq:
                    if pic(u):
                        u = bytearray(u)
                        u[13:17] = struct.pack(">I", (struct.unpack(">I", u[13:17])[0] - first_q + last + 1) & 0xFFFFFFFF)
                        extra.append(bytes(u))
                members.append({"kind": "targeted:mixed-matrix", "data": vc2util.join_units(ub[:-1] + extra + ub[-1:])})
                members.append({"kind": "targeted:default-matrix-tight", "data": ob.data})
                ctx.count("pools_with_mixed_matrix_member")
            except Exception:
                ctx.count("mixed_matrix_member_not_built")
    names = sorted(U.FAMILIES)
    walks = []
    n_hist = len(members) + 4
    n_neigh = n_hist + 3
    while len(members) < n_hist:
        name = rng.choice(names)
        fam, m = c01.fam_model(name)
        hist = c01.guided_walk(rng, fam, m, rng.choice([4, 6, 9]))
        if hist[-1]["k"] != "EOS" or sum(1 for x in hist if x["k"] == "EOS") != 1:
            continue
        data, _ = U.assemble(fam, hist)
        members.append({"kind": "history:" + name, "data": data})
        walks.append((fam, hist))
    tries = 0
    while len(members) < n_neigh and tries < 200:
        tries += 1
        fam, hist = rng.choice(walks)
        h = _framing_intact_neighbour(rng, fam, hist)
        if h is None:
            continue
        data, _ = U.assemble(fam, h)
        members.append({"kind": "neighbour:" + fam.name, "data": data})
    # members aimed at per-sequence validator state: a version-3 header over pictures that need less
    # (rejected alone by the minimal-version rule only), and a field sequence with a single field
    for name, kinds in ((rng.choice(["hq3", "ld3", "hq3f", "hq3w"]), None), (rng.choice(["hq2f", "hq3f"]), "onefield"),
                        (rng.choice(["hq2", "ld1", "hq3"]), "firstprev"), (rng.choice(["hq3", "ld3", "hq3f"]), "incompletefrag"),
                        (rng.choice(["hq2", "ld1", "hq3", "ld3"]), "eosnext")):
        fam, m = c01.fam_model(name)
        if kinds is None:
            k = ["SH"] + ["PIC"] * (2 if fam.fields else rng.choice([1, 2])) + ["EOS"]
        elif kinds == "firstprev":
            k = ["SH"] + (["PIC"] if fam.version < 3 else []) + ["EOS"]
        elif kinds == "incompletefrag":
            # ends part way through a fragmented picture: rejected alone at its end_of_sequence, and just as much
            # when more sequences follow
            k = ["SH"] + rng.choice([["F0"], ["PAD", "F0"], ["F0", "FS:1:0"] if fam.nsl > 1 else ["F0"]]) + ["EOS"]
        elif kinds == "eosnext":
            k = ["SH"] + (["PIC"] * (2 if fam.fields else 1) if fam.version < 3 else []) + ["EOS"]
        else:
            k = ["SH", "PIC", "EOS"]
        hist = c01.number_history(k, rng.choice([0, 4, 2 ** 32 - 2]))
        if kinds == "firstprev":
            # rejected alone only because its first previous_parse_offset is not 0; the value "points" at a
            # 13-byte end_of_sequence unit that would precede it in a concatenation
            hist[0]["off"], hist[0]["offv"] = "prevwrong", 13
        if kinds == "eosnext":
            # rejected alone only because its end_of_sequence carries a non-zero next_parse_offset (13: the distance to
            # the sequence that follows it in a concatenation)
            hist[-1]["off"] = "nextlen"
        data, _ = U.assemble(fam, hist)
        members.append({"kind": "targeted:" + name, "data": data})
    # a conformant sequence whose very first byte is zero (rejected alone at its parse_info prefix; whatever follows it
    # or precedes it in a concatenation keeps its own verdict)
    zp = bytearray(members[0]["data"])
    zp[0] = 0
    members.append({"kind": "targeted:zero-first-byte", "data": bytes(zp)})
    # standalone executions
    pool = []
    for mbr in members:
        v = vc2util.validate(mbr["data"])
        if v.kind not in ("ok", "ce"):
            ctx.count("pool_member_crashed_standalone")
            mbr["usable"] = False
        else:
            mbr["usable"] = True
        mbr["accepted"] = v.kind == "ok"
        mbr["pictures"] = v.pictures
        mbr["error"] = v.exc_class
        pool.append(mbr)
        ctx.count("pool_members:" + ("accepted" if mbr["accepted"] else "rejected"))
    return pool


def run_case(case, ctx):
    pseed = case["pool"]
    if pseed not in _pools:
        _pools.clear()
        _pools[pseed] = build_pool(pseed, ctx)
    pool = _pools[pseed]
    for idxs in case["lists"]:
        idxs = [i % len(pool) for i in idxs]
        ms = [pool[i] for i in idxs]
        if not all(m["usable"] for m in ms):
            ctx.count("lists_skipped_unusable_member")
            continue
        data = b"".join(m["data"] for m in ms)
        v = vc2util.validate(data)
        exp_pics = []
        exp_ok = True
        for m in ms:
            exp_pics.extend(m["pictures"])
            if not m["accepted"]:
                exp_ok = False
                break
        first_rejected = not ms[0]["accepted"]
        ctx.seen(jsonx.key_hash([pseed, idxs]), nontrivial=not first_rejected)
        ctx.count("lists_len_%d" % len(idxs))
        kinds = [m["kind"] for m in ms]
        sub = {"pool": pseed, "lists": [idxs]}
        if v.kind == "crash":
            ctx.violation("validator-crash-on-concatenation:%s" % v.exc_class,
                          "validator crashed (%s) on concatenation of %r although each member gives a verdict alone" % (v.exc, kinds),
                          case=sub, detail=v.tb)
            continue
        got_ok = v.kind == "ok"
        if got_ok != exp_ok:
            if exp_ok:
                ctx.violation("concatenation-rejected:" + str(v.exc_class),
                              "sequences %r are each accepted alone but their concatenation is rejected with %s" % (kinds, v.exc_class),
                              case=sub, detail=_explain(v.exc))
            else:
                ctx.violation("concatenation-accepted",
                              "concatenation of %r is accepted although member(s) are rejected alone (%r)"
                              % (kinds, [m["error"] for m in ms]), case=sub)
            continue
        ctx.count("agree_accept" if got_ok else "agree_reject")
        if len(v.pictures) != len(exp_pics) or any(a != b for a, b in zip(v.pictures, exp_pics)):
            ctx.violation("concatenation-pictures-differ",
                          "concatenation of %r output %d pictures, the members alone output %d (or contents differ)"
                          % (kinds, len(v.pictures), len(exp_pics)), case=sub)
            continue
        ctx.count("pictures_compared", len(exp_pics))
        for k in kinds:
            ctx.note("member_kinds", k.split(":")[0] + ":" + k.split(":")[1].split("/")[0])
    if ctx.rng.random() < 0.02:
        ctx.sample({"pool": pseed, "list": case["lists"][0], "kinds": [pool[i % len(pool)]["kind"] for i in case["lists"][0]]})


def _explain(e):
    try:
        return e.explain()[:800]
    except Exception as e2:
        return "explain() failed %r" % (e2,)


def floor(agg, tier):
    c = agg["counters"]
    s = 1 if tier == "quick" else 6
    miss = []
    if c.get("agree_accept", 0) < 3000 * s:
        miss.append("fewer than %d accepted concatenations (%d)" % (3000 * s, c.get("agree_accept", 0)))
    if c.get("agree_reject", 0) < 3000 * s:
        miss.append("fewer than %d rejected concatenations (%d)" % (3000 * s, c.get("agree_reject", 0)))
    if c.get("pictures_compared", 0) < 20000 * s:
        miss.append("fewer than %d pictures compared" % (20000 * s))
    if len(agg["sets"].get("member_kinds", ())) < 12:
        miss.append("fewer than 12 member kinds in judged lists")
    if c.get("lists_len_4", 0) < 1500 * s:
        miss.append("too few lists of length 4")
    return miss
