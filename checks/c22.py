"""C22 — picture generators produce well-formed pictures for any regular format.

Monitor shape: result observation.  For a generated regular video format every
picture generator of vc2_conformance.picture_generators is run to exhaustion
and the list of picture dictionaries it yielded is judged by a predicate that
is computed independently (vlib/ref/rawfile.py: coded plane sizes and bit
depths re-derived from (11.6.2)/(11.6.3)).
"""
import enum
import os
import random
import warnings

# one BLAS/OpenMP thread per worker: 16 workers run side by side and the arrays are tiny
# (must be set before numpy is first imported, which happens after this module is loaded)
for _v in ("OPENBLAS_NUM_THREADS", "OMP_NUM_THREADS", "MKL_NUM_THREADS"):
    os.environ.setdefault(_v, "1")

from vlib import jsonx
from vlib.gen import formats as genf
from vlib.ref import rawfile

PROPERTY = "C22"
LEVEL = "exploration"
TECHNIQUE = (
    "runtime monitoring: every picture generator run on generated regular video formats; picture count, numbering, "
    "plane sizes, sample type and range judged by an independent geometry/depth model"
)
RULE = (
    "case = one regular video format (base video format x frame size class {1 unit, small, medium, straddling the "
    "sprite} x 4:4:4/4:2:2/4:2:0 x progressive/interlaced x field order x frames/fields x signal range {8 presets | "
    "custom luma/chroma depths 1-32 (one format in ten: 1-63) quick / 1-63 thorough with excursion min/max/random and offset 0/mid/max/random} x "
    "all 150 primaries/matrix/transfer-function combinations x preset pixel aspect ratios), evaluated once per "
    "generator (moving_sprite, static_sprite, mid_gray, white_noise, linear_ramps, real_pictures on the repository's "
    "tiny test images); distinct = distinct (video parameters, coding mode, generator, generator arguments); no case is "
    "trivial"
)
ASSUMPTIONS = [
    "regular = frame width a multiple of the horizontal colour-difference subsampling, frame height a multiple of the "
    "vertical subsampling, doubled when the source is interlaced or pictures are fields (the property's own domain)",
    "bit depths are limited to 63 (thorough) / 32 (quick): at depth 64 numpy's int64 cannot hold the clip bound or the "
    "noise range and the property fixes no upper depth (DESIGN §7 item 6)",
    "pixel aspect ratios are the preset ones only: the property does not list the ratio among the varied parameters and "
    "extreme ratios resize the sprite to width 0 (DESIGN §7 item 6)",
    "clean area is set to the whole frame; frame rate is the base format's (neither is read by the generators)",
    "generators are called with their default arguments except white_noise (num_frames 1-3, varying seed) and "
    "moving_sprite (num_frames 1, 3 or the default 10); num_frames=0 is not used since it requests zero pictures",
    "real_pictures is not a synthetic generator; it is exercised as DESIGN §5 asks, with "
    "vc2_conformance_data.NATURAL_PICTURES_FILENAMES swapped for tests/test_images/{square,wide,tall}.raw exactly as "
    "tests/smaller_real_pictures.py does",
    "an exception escaping a generator for a regular format counts as 'did not yield at least one picture'",
    "pic_num must be a Python int (the module documents the dictionaries as {'pic_num': int}); samples must satisfy "
    "type(x) is int, i.e. numpy integers are rejected",
]
CASE_TIMEOUT_S = 120
# generous hard limits: the sandbox is shared and wall-clock must never decide anything
SHARD_TIMEOUT_S = {"quick": 3600, "thorough": 8 * 3600}

GENERATORS = ("moving_sprite", "static_sprite", "mid_gray", "white_noise", "linear_ramps", "real_pictures")

_TIER = {
    # formats in total, shards, max depth
    "quick": (9600, 16, 32),
    "thorough": (400000, 64, 63),
}


def plan(tier, seed):
    total, nsh, max_depth = _TIER[tier]
    return [{"shard": s, "nshards": nsh, "total": total, "max_depth": max_depth} for s in range(nsh)]


def cases(spec, ctx):
    # base format and colour combination walk systematically with the index,
    # rotated by the seed so that different seeds pair them with other draws
    for i in range(spec["shard"], spec["total"], spec["nshards"]):
        md = spec["max_depth"]
        if md < 63 and i % 10 == 0:
            # one format in ten of the quick tier also draws depths up to 63 (float64 stops being exact above 53 bits)
            md = 63
        yield {"index": i + 7 * ctx.seed, "fseed": "%s/C22/%d" % (ctx.seed, i), "max_depth": md}


def setup(ctx):
    warnings.simplefilter("ignore")
    import numpy as np

    np.seterr(all="ignore")
    # swap the (very large) natural pictures for the repository's tiny test images
    from vc2_conformance_data import NATURAL_PICTURES_FILENAMES

    repo = os.environ.get("VERIF_REPO", "/repo")
    paths = [os.path.join(repo, "tests", "test_images", n) for n in ("square.raw", "wide.raw", "tall.raw")]
    if all(os.path.exists(p) and os.path.exists(p[:-4] + ".json") for p in paths):
        del NATURAL_PICTURES_FILENAMES[:]
        NATURAL_PICTURES_FILENAMES.extend(paths)
        ctx.real_pictures_ok = True
    else:
        ctx.real_pictures_ok = False
        ctx.inconclusive_note("tiny test images not found under %s/tests/test_images; real_pictures not exercised" % repo)


def _judge(name, pictures, lay, pcm, ctx, fmt_desc):
    """The oracle.  Returns number of violations reported."""
    bad = 0

    def v(sig, what, detail=None):
        nonlocal bad
        bad += 1
        ctx.violation("c22:%s:%s" % (name, sig), "%s: %s [%s]" % (name, what, fmt_desc), detail=detail)

    n = len(pictures)
    if n < 1:
        v("no-pictures", "yielded no picture")
        return bad
    if pcm == 1 and n % 2:
        v("odd-field-count", "yielded %d pictures although pictures are fields" % n)
    nums = []
    for pic in pictures:
        nums.append(pic.get("pic_num") if isinstance(pic, dict) else None)
    if nums != list(range(n)):
        v("pic-num-sequence", "picture numbers are %r, expected 0..%d" % (nums[:12], n - 1))
    elif any(type(x) is not int for x in nums):
        v("pic-num-type", "picture numbers have types %r" % sorted(set(type(x).__name__ for x in nums)))
    for k, pic in enumerate(pictures):
        if not isinstance(pic, dict):
            v("not-a-dict", "picture %d is a %s" % (k, type(pic).__name__))
            continue
        for comp, w, h, depth, _bps in lay:
            rows = pic.get(comp)
            if rows is None:
                v("component-missing", "picture %d lacks %s" % (k, comp))
                continue
            if not isinstance(rows, list) or len(rows) != h or any(not isinstance(r, list) or len(r) != w for r in rows):
                try:
                    got = "%sx%s" % (sorted(set(len(r) for r in rows)), len(rows))
                except Exception:
                    got = type(rows).__name__
                v("wrong-size:" + comp, "picture %d %s is (widths x height) %s, coded size is %dx%d" % (k, comp, got, w, h))
                continue
            top = (1 << depth) - 1
            lo_seen = hi_seen = False
            for y, row in enumerate(rows):
                ts = set(map(type, row))
                if ts != {int}:
                    v(
                        "sample-not-int:" + comp,
                        "picture %d %s row %d holds %s" % (k, comp, y, sorted(t.__module__ + "." + t.__name__ for t in ts)),
                    )
                    break
                mn, mx = min(row), max(row)
                if mn < 0 or mx > top:
                    x = next(i for i, s in enumerate(row) if s < 0 or s > top)
                    v(
                        "sample-out-of-range:" + comp,
                        "picture %d %s[%d][%d] = %d outside 0..2^%d-1" % (k, comp, y, x, row[x], depth),
                        detail={"value": row[x], "depth": depth},
                    )
                    break
                lo_seen = lo_seen or mn == 0
                hi_seen = hi_seen or mx == top
            ctx.count("samples_checked", w * h)
            if lo_seen:
                ctx.count("planes_touching_0")
            if hi_seen:
                ctx.count("planes_touching_max")
    ctx.count("pictures_checked", n)
    ctx.maxi("max_pictures_per_sequence", n)
    return bad


def run_case(case, ctx):
    from vc2_conformance import picture_generators as pg

    rng = random.Random(case["fseed"])
    fmt = genf.regular_format(rng, index=case["index"], max_depth=case["max_depth"])
    vpd, pcm, strata = fmt["vp"], fmt["pcm"], fmt["strata"]
    if not rawfile.is_regular(vpd, pcm):  # generator self-check; never expected
        ctx.inconclusive_note("generator produced an irregular format: %r" % (fmt,))
        return
    lay = rawfile.layout(vpd, pcm)
    ld, cd = lay[0][3], lay[1][3]
    fmt_desc = "%dx%d fmt=%d ss=%d tff=%d pcm=%d luma=%d+%d chroma=%d+%d prim/mat/tf=%d/%d/%d par=%d:%d base=%d" % (
        vpd["frame_width"], vpd["frame_height"], vpd["color_diff_format_index"], vpd["source_sampling"],
        vpd["top_field_first"], pcm, vpd["luma_offset"], vpd["luma_excursion"], vpd["color_diff_offset"],
        vpd["color_diff_excursion"], vpd["color_primaries_index"], vpd["color_matrix_index"],
        vpd["transfer_function_index"], vpd["pixel_aspect_ratio_numer"], vpd["pixel_aspect_ratio_denom"], fmt["base"],
    )

    # strata bookkeeping (evidence + floors)
    ctx.count("formats")
    ctx.count("mode:" + strata["mode"])
    ctx.count("size:" + strata["size"])
    ctx.count("range:" + strata["range"])
    ctx.note("bases", strata["base"])
    ctx.note("colors", strata["color"])
    ctx.note("pars", strata["par"])
    ctx.note("luma_depths", ld)
    ctx.note("chroma_depths", cd)
    if "offset" in strata:
        ctx.count("luma_offset:" + strata["offset"].split("/")[0])
        ctx.count("chroma_offset:" + strata["offset"].split("/")[1])
        ctx.count("luma_excursion:" + strata["excursion"].split("/")[0])
        ctx.count("chroma_excursion:" + strata["excursion"].split("/")[1])
    if ld != cd:
        ctx.count("formats_with_unequal_depths")
    ctx.maxi("max_depth_seen", max(ld, cd))

    # the code's own geometry must agree with the independent one (anchor: dimensions_and_depths.py)
    from vc2_conformance.dimensions_and_depths import compute_dimensions_and_depths

    vp = genf.to_video_parameters(vpd)
    pcm_e = genf.to_picture_coding_mode(pcm)
    try:
        dd = compute_dimensions_and_depths(vp, pcm_e)
        got = [(c, dd[c].width, dd[c].height, dd[c].depth_bits) for c in ("Y", "C1", "C2")]
        if got != [(c, w, h, d) for c, w, h, d, _ in lay]:
            ctx.violation(
                "c22:dimensions-and-depths-disagree",
                "compute_dimensions_and_depths gives %r, (11.6.2)/(11.6.3) give %r [%s]" % (got, [x[:4] for x in lay], fmt_desc),
            )
        ctx.count("dimension_computations_compared")
    except Exception as e:
        ctx.violation("c22:dimensions-and-depths-exception:" + type(e).__name__, "%r [%s]" % (e, fmt_desc))

    plain_ints = rng.random() < 0.25
    for name in GENERATORS:
        if name == "real_pictures" and not getattr(ctx, "real_pictures_ok", False):
            continue
        g = getattr(pg, name)
        kwargs = {}
        if name == "white_noise":
            kwargs = {"num_frames": rng.choice((1, 1, 2, 3)), "seed": rng.randrange(2 ** 32)}
        elif name == "moving_sprite":
            nf = rng.choice((1, 3, 10, 10))
            if nf != 10:
                kwargs = {"num_frames": nf}
        # fresh copies: a generator must not be able to influence the next one through its arguments
        vp = genf.to_video_parameters(vpd)
        pcm_arg = pcm_e
        if plain_ints:
            # the same format with every enumerated value given as a plain int (what a parsed sequence header holds)
            for _k in list(vp):
                if isinstance(vp[_k], enum.IntEnum):
                    vp[_k] = int(vp[_k])
            pcm_arg = int(pcm_e)
        try:
            pictures = list(g(vp, pcm_arg, **kwargs))
        except Exception as e:
            import traceback

            tb = traceback.extract_tb(e.__traceback__)
            where = "%s:%s" % (os.path.basename(tb[-1].filename), tb[-1].name) if tb else "?"
            ctx.violation(
                "c22:%s:exception:%s" % (name, type(e).__name__),
                "%s raised %r at %s instead of yielding pictures [%s]" % (name, e, where, fmt_desc),
                detail={"kwargs": kwargs, "traceback": traceback.format_exc()[-1500:]},
            )
            ctx.count("gen_exceptions:" + name)
            ctx.seen(jsonx.key_hash([vpd, pcm, name, kwargs]))
            continue
        if plain_ints:
            ctx.count("gen_calls_with_plain_int_enums")
        if dict(vp) != dict(genf.to_video_parameters(vpd)):
            ctx.violation("c22:%s:mutated-video-parameters" % name, "%s changed its video_parameters argument [%s]" % (name, fmt_desc))
        _judge(name, pictures, lay, pcm, ctx, fmt_desc)
        ctx.count("gen:" + name)
        ctx.count("gen:%s:pcm%d:ss%d" % (name, pcm, vpd["source_sampling"]))
        ctx.seen(jsonx.key_hash([vpd, pcm, name, kwargs]))
    if ctx.rng.random() < 0.002:
        ctx.sample({"format": fmt_desc, "strata": strata})


def floor(agg, tier):
    miss = []
    c = agg["counters"]
    s = agg["sets"]
    total, _nsh, max_depth = _TIER[tier]
    if c.get("formats", 0) < 0.95 * total:
        miss.append("fewer than 95%% of the %d planned formats were evaluated" % total)
    for name in GENERATORS:
        if c.get("gen:" + name, 0) < 0.9 * total:
            miss.append("generator %s judged on fewer than 90%% of the formats (%d)" % (name, c.get("gen:" + name, 0)))
        for pcm in (0, 1):
            for ss in (0, 1):
                if c.get("gen:%s:pcm%d:ss%d" % (name, pcm, ss), 0) < total // 16:
                    miss.append("generator %s: stratum pcm=%d source_sampling=%d under-exercised" % (name, pcm, ss))
    for f, ss, tff, pcm in genf.MODE_COMBOS:
        if c.get("mode:%d%d%d%d" % (f, ss, int(tff), pcm), 0) < total // 100:
            miss.append("mode stratum %d%d%d%d under-exercised" % (f, ss, int(tff), pcm))
    for a in genf.SIZE_CLASSES:
        for b in genf.SIZE_CLASSES:
            if c.get("size:%sx%s" % (a, b), 0) < total // 80:
                miss.append("size stratum %sx%s under-exercised" % (a, b))
    for k in genf.SIGNAL_RANGE_PRESETS:
        if c.get("range:preset%d" % k, 0) < total // 80:
            miss.append("signal range preset %d under-exercised" % k)
    if c.get("range:custom", 0) < total // 4:
        miss.append("custom signal ranges under-exercised")
    for comp in ("luma", "chroma"):
        for cls in genf.OFFSET_CLASSES:
            if c.get("%s_offset:%s" % (comp, cls), 0) < total // 40:
                miss.append("%s offset class %s under-exercised" % (comp, cls))
        for cls in genf.EXCURSION_CLASSES:
            if c.get("%s_excursion:%s" % (comp, cls), 0) < total // 40:
                miss.append("%s excursion class %s under-exercised" % (comp, cls))
        got = set(s.get(comp + "_depths", ()))
        lacking = [d for d in range(1, max_depth + 1) if d not in got]
        if lacking:
            miss.append("%s depths never generated: %r" % (comp, lacking))
    if len(s.get("bases", ())) < len(genf.BASE_INDICES):
        miss.append("only %d of %d base video formats used" % (len(s.get("bases", ())), len(genf.BASE_INDICES)))
    if len(s.get("colors", ())) < len(genf.COLOR_COMBOS):
        miss.append("only %d of %d primaries/matrix/transfer combinations used" % (len(s.get("colors", ())), len(genf.COLOR_COMBOS)))
    if len(s.get("pars", ())) < 6:
        miss.append("fewer than 6 preset pixel aspect ratios used")
    if c.get("formats_with_unequal_depths", 0) < total // 10:
        miss.append("too few formats with different luma/chroma depths")
    if c.get("planes_touching_0", 0) < total or c.get("planes_touching_max", 0) < total:
        miss.append("too few planes reach the bottom / top of their range (clipping never exercised?)")
    if c.get("dimension_computations_compared", 0) < 0.95 * total:
        miss.append("compute_dimensions_and_depths compared on too few formats")
    return miss


def evidence_extra(agg, tier):
    c = agg["counters"]
    return {
        "generators_x_strata": {k: v for k, v in sorted(c.items()) if k.startswith("gen:")},
        "modes": {k[5:]: v for k, v in sorted(c.items()) if k.startswith("mode:")},
        "sizes": {k[5:]: v for k, v in sorted(c.items()) if k.startswith("size:")},
        "ranges": {k[6:]: v for k, v in sorted(c.items()) if k.startswith("range:")},
        "luma_depths_seen": sorted(agg["sets"].get("luma_depths", ())),
        "chroma_depths_seen": sorted(agg["sets"].get("chroma_depths", ())),
        "exhaustive": False,
    }
