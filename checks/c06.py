"""C06 — deserialising then serialising any parseable stream reproduces its bytes.

Monitor: the real Deserialiser + bitstream.parse_stream is run on candidate
byte strings (valid streams, conformant variants, byte-/field-/unit-level
mutants) under a size guard; for every candidate that parses to completion the
real Serialiser is run on the resulting description and the output compared
bit for bit with the input, then deserialised again and compared with the
first description.
"""
import pickle
import re
import sys
import traceback
from io import BytesIO

from vlib import jsonx, vc2util
from vlib.worker import OutOfScope
from vlib.gen import corpus as corpus_mod
from vlib.gen import degenerate
from vlib.gen import mutate

PROPERTY = "C06"
LEVEL = "exploration"
TECHNIQUE = (
    "runtime monitoring: real Deserialiser -> Serialiser -> Deserialiser executions on valid and mutated streams under a "
    "size guard; bytes-equal and description-equal oracle, first differing bit attributed to the deserialiser target read there"
)
RULE = (
    "candidate = one byte string: every corpus seed (valid streams + conformant variants: padding/auxiliary units, repeated "
    "headers, prefix bytes, random slice padding bits, absent next offsets, several sequences), 171 streams packed bit by bit by "
    "vlib.gen.degenerate without repository code (LD pictures/fragments whose slice_bytes ratio gives slices of 0 or 1 bytes, i.e. "
    "negative-length bounded blocks; HQ slices with all lengths 0 or scaler 0; grids 1x1..4x3; blocks with > 8192 unused bits "
    "whose set bits lie late; 2-3 sequences with a corrupted prefix on a later sequence) and vlib.gen.mutate.random_case on both pools "
    "(byte-level, field-level without autofill, coordinated unit operators); a candidate is an evaluation only if it parses "
    "to completion (Deserialiser context manager exits cleanly and the reader is at end of stream); distinct = distinct byte "
    "string; candidates identical to a corpus seed are trivial"
)
ASSUMPTIONS = [
    "'parses to completion' = the Deserialiser context manager exits without exception and the reader is at end of stream (DESIGN 7.10); "
    "a parse that raises is not a candidate; a clean exit that leaves input unread cannot happen with the real parse_stream loop "
    "(it only stops at end of stream) and is reported as roundtrip:clean-exit-before-end-of-stream, not filtered out",
    "size guard (DESIGN section 3): candidates declaring dwt depths > 4, slices > 16x16, prefix bytes/scaler > 64, "
    "slice_bytes_numerator > 2^14, frame dimensions > 256, luma samples > 4096 are out of scope and not evaluated",
    "description equality is Python equality of the context dictionaries (computed '_' entries included)",
]
CASE_TIMEOUT_S = 120
STEP_BUDGET = 100000000

N_RANDOM = {"quick": 32000, "thorough": 640000}
N_SHARDS = {"quick": 16, "thorough": 64}

_MON = {"guard": None}

# features that a conformant stream may carry (the encoder itself relies on
# implicit 1-bits beyond the end of a bounded block)
LEGAL_FEATURES = {"values_beyond_bounded_block", "nonzero_padding_bits", "hq_slice_all_lengths_0",
                  "unused_block_bits_set_beyond_8192"}
KNOWN_CODES = (0x00, 0x10, 0x20, 0x30, 0xC8, 0xE8, 0xCC, 0xEC)


def setup(ctx):
    _MON["guard"] = vc2util.DeserialiserGuard().install()


def teardown(ctx):
    g = _MON["guard"]
    if g is not None:
        ctx.count("guard_calls", g.calls)
        ctx.count("guard_calls_set_coding_parameters", g.rb.calls)
    for k, v in corpus_mod.STATS.items():
        ctx.count("corpus_" + k, v)
    for k, v in mutate.STATS.items():
        ctx.count("mutate_" + k, v)


def plan(tier, seed):
    nsh = N_SHARDS[tier]
    return [{"shard": i, "nshards": nsh, "n_random": N_RANDOM[tier] // nsh} for i in range(nsh)]


def cases(spec, ctx):
    tier = spec.get("tier", ctx.tier)
    corp = corpus_mod.seed_corpus(ctx.seed, "quick" if tier == "quick" else "thorough")
    shard, nsh = spec["shard"], spec["nshards"]
    for j, (label, data) in enumerate(corp):
        if j % nsh == shard:
            yield {"data": data, "op": "seed", "seed": label}
    # hand-packed (no repository code) streams with zero-/negative-length bounded blocks
    degen = degenerate.degenerate_streams()
    for j, (label, data) in enumerate(degen):
        if j % nsh == shard:
            yield {"data": data, "op": "d:hand-packed", "seed": label}
    for i in range(spec["n_random"]):
        if i % 8 == 7:
            # mutants of the hand-packed streams (field-level ones pass through the
            # repository's Serialiser as a *generator*; the unmutated ones above do not)
            c = mutate.random_case(degen, ctx.rng)
            c["op"] = "d:" + c["op"]
            yield c
        else:
            yield mutate.random_case(corp, ctx.rng)


# --------------------------------------------------------------------------
# evidence: which non-conformant features a parsed description carries
# --------------------------------------------------------------------------
_INDEX_LIMITS = {"frame_rate": 16, "pixel_aspect_ratio": 6, "signal_range": 8, "color_spec": 7, "color_primaries": 4,
                 "color_matrix": 4, "transfer_function": 5}


def _sint_bits(v):
    v = abs(int(v))
    return 2 * ((v + 1).bit_length() - 1) + 1 + (1 if v else 0)


def _walk(node, parent_key, out):
    """collect (parent_key, key, value) for every leaf"""
    if isinstance(node, dict):
        for k, v in node.items():
            if isinstance(k, str) and k.startswith("_"):
                continue
            if isinstance(v, (dict, list)):
                _walk(v, k, out)
            else:
                out.append((parent_key, k, v))
    elif isinstance(node, list):
        for v in node:
            if isinstance(v, (dict, list)):
                _walk(v, parent_key, out)
            else:
                out.append((parent_key, parent_key, v))


def features(ctx):
    from bitarray import bitarray

    f = set()
    for nseq, seq in enumerate(ctx.get("sequences", ())):
        dus = seq.get("data_units", ())
        for i, du in enumerate(dus):
            pi = du.get("parse_info", {})
            if pi.get("parse_info_prefix") != 0x42424344:
                f.add("bad_prefix")
                if nseq > 0 and i == 0:
                    f.add("later_sequence_with_bad_prefix")
            pc = pi.get("parse_code")
            if pc not in KNOWN_CODES:
                f.add("unknown_parse_code")
            nxt = pi.get("next_parse_offset", 0)
            if 1 <= nxt <= 12:
                f.add("next_offset_1_to_12")
            if nxt == 0 and pc in (0x20, 0x30):
                f.add("next_offset_0_on_padding_or_aux")
            if nxt == 0 and pc == 0x00:
                f.add("next_offset_0_on_sequence_header")
            if i + 1 < len(dus):
                try:
                    true = dus[i + 1]["parse_info"]["_offset"] - pi["_offset"]
                    if nxt not in (0, true):
                        f.add("inconsistent_next_offset")
                    if dus[i + 1]["parse_info"].get("previous_parse_offset") != true:
                        f.add("inconsistent_previous_offset")
                except Exception:
                    pass
            elif pc == 0x10 and nxt != 0:
                f.add("nonzero_next_offset_on_eos")
            if i == 0 and pc != 0x00:
                f.add("sequence_not_starting_with_header")
            sh = du.get("sequence_header")
            if sh is not None:
                pp = sh.get("parse_parameters", {})
                if pp.get("profile") not in (0, 3) or pp.get("major_version", 1) in (0,) or pp.get("minor_version", 0) != 0:
                    f.add("bad_parse_parameters")
                if sh.get("base_video_format", 0) > 22 or sh.get("picture_coding_mode", 0) > 1:
                    f.add("out_of_range_index")
                vp = sh.get("video_parameters", {})
                for k, lim in _INDEX_LIMITS.items():
                    sub = vp.get(k) or vp.get("color_spec", {}).get(k)
                    if isinstance(sub, dict) and sub.get("index", 0) > lim:
                        f.add("out_of_range_index")
                if vp.get("color_diff_sampling_format", {}).get("color_diff_format_index", 0) > 2:
                    f.add("out_of_range_index")
                if vp.get("scan_format", {}).get("source_sampling", 0) > 1:
                    f.add("out_of_range_index")
            td = None
            if "picture_parse" in du:
                wt = du["picture_parse"].get("wavelet_transform", {})
                td = wt.get("transform_data")
                tp = wt.get("transform_parameters", {})
                if tp.get("wavelet_index", 0) > 6:
                    f.add("out_of_range_index")
            elif "fragment_parse" in du:
                td = du["fragment_parse"].get("fragment_data")
                tp = du["fragment_parse"].get("transform_parameters", {})
                if tp.get("wavelet_index", 0) > 6:
                    f.add("out_of_range_index")
            if td is not None:
                st = td.get("_state") or {}
                scaler = st.get("slice_size_scaler", 1) or 0
                if scaler == 0 and td.get("hq_slices"):
                    f.add("hq_slice_size_scaler_0")
                for s in td.get("hq_slices", ()):
                    if all(s.get("slice_%s_length" % c, 0) == 0 for c in ("y", "c1", "c2")):
                        f.add("hq_slice_all_lengths_0")
                    for c in ("y", "c1", "c2"):
                        used = sum(_sint_bits(v) for v in s.get("%s_transform" % c, ()))
                        if used > 8 * scaler * s.get("slice_%s_length" % c, 0):
                            f.add("values_beyond_bounded_block")
                for s in td.get("ld_slices", ()):
                    try:
                        from vc2_conformance.pseudocode.slice_sizes import slice_bytes
                        from vc2_conformance.pseudocode.vc2_math import intlog2

                        nb = 8 * slice_bytes(st, s["_sx"], s["_sy"])
                        left = nb - 7 - intlog2(nb - 7)
                        if nb == 0:
                            f.add("ld_slice_of_0_bytes")
                        elif nb == 8:
                            f.add("ld_slice_of_1_byte")
                        if left < 0:
                            f.add("negative_length_bounded_block")
                        if s.get("slice_y_length", 0) > left:
                            f.add("clamped_slice_y_length")
                        y_len = min(s.get("slice_y_length", 0), left)
                        if sum(_sint_bits(v) for v in s.get("y_transform", ())) > y_len:
                            f.add("values_beyond_bounded_block")
                        if sum(_sint_bits(v) for v in s.get("c_transform", ())) > left - y_len:
                            f.add("values_beyond_bounded_block")
                    except Exception:
                        pass
    leaves = []
    _walk(ctx, None, leaves)
    for parent, k, v in leaves:
        if isinstance(v, bitarray) and v.any():
            f.add("nonzero_padding_bits")
            if len(v) > 8192 and v[8192:].any():
                f.add("unused_block_bits_set_beyond_8192")
                break
    return f


# --------------------------------------------------------------------------
# locating a difference
# --------------------------------------------------------------------------
def target_at_bit(data, bit):
    """name of the deserialiser target whose bits include bit offset `bit` of
    `data` (found by replaying the deserialisation with the real
    MonitoredDeserialiser)"""
    import vc2_conformance.bitstream as bs
    from vc2_conformance.pseudocode.state import State

    found = []

    class Stop(BaseException):
        pass

    def monitor(des, target, value):
        by, bi = des.io.tell()
        pos = by * 8 + (7 - bi)
        if pos > bit:
            path = [p for p in des.path(target) if isinstance(p, str)]
            found.append(".".join(path[-2:]))
            raise Stop()

    r = bs.BitstreamReader(BytesIO(data))
    des = bs.MonitoredDeserialiser(monitor, r)
    try:
        bs.parse_stream(des, State())
    except Stop:
        pass
    except (Exception, OutOfScope):
        pass
    return found[0] if found else "end-of-stream"


def first_diff_bit(a, b):
    n = min(len(a), len(b))
    for i in range(n):
        if a[i] != b[i]:
            x = a[i] ^ b[i]
            return i * 8 + (8 - x.bit_length())
    return n * 8


def _site(tb):
    return vc2util._site(tb) or "?"


def serialise_failure_signature(e, tb):
    site = _site(tb)
    parts = site.split(":")
    func = parts[1] if len(parts) > 1 else "?"
    cls = type(e).__name__
    if cls == "OutOfRangeError" and func == "write_bytes" and re.search(r"bytes, not -\d+$", str(e)):
        return "roundtrip:negative-length-bytes"
    return "roundtrip:serialise-raised:%s@%s" % (cls, func)


# --------------------------------------------------------------------------
def run_case(case, ctx):
    data = case["data"]
    op = case.get("op", "?")
    ctx.count("candidates")
    fam = op.split("|")[0].split(":")[0]
    if op == "d:hand-packed":
        fam = "hand-packed"
    ctx.count("candidates:" + fam)
    try:
        desc, eof = vc2util.deserialise(data)
    except OutOfScope:
        ctx.count("out_of_scope")
        return
    except Exception as e:
        ctx.count("not_parsed")
        ctx.note("deserialise_errors", type(e).__name__)
        return
    if not eof:
        # The real parse_stream loops until the reader is at the end of the stream, so a
        # clean exit of the Deserialiser context always leaves the reader there.  A clean
        # exit with input left over means part of the input is silently missing from the
        # description: serialising it cannot reproduce the bytes.
        ctx.count("clean_exit_before_end_of_stream")
        ctx.seen(jsonx.key_hash(data))
        ctx.violation("roundtrip:clean-exit-before-end-of-stream",
                      "the Deserialiser context exited cleanly although the reader is not at the end of the %d byte input: "
                      "the description silently lacks the rest of the stream" % len(data),
                      detail={"op": op, "seed": case.get("seed")})
        return
    ctx.count("parsed_to_completion")
    ctx.count("parsed:" + fam)
    feats = features(desc)
    for k in feats:
        ctx.count("feature:" + k)
    if not (feats - LEGAL_FEATURES):
        ctx.count("feature:none")
    ctx.maxi("max_features_in_one_candidate", len(feats))
    ctx.seen(jsonx.key_hash(data), nontrivial=(op != "seed"))

    pristine = pickle.loads(pickle.dumps(desc, 4))
    try:
        out = vc2util.reserialise(desc)
    except OutOfScope:
        ctx.inconclusive_note("size guard fired while re-serialising a description that deserialised in scope")
        return
    except Exception as e:
        sig = serialise_failure_signature(e, sys.exc_info()[2])
        ctx.count("serialise_raised")
        ctx.violation(sig, "description deserialised from a completely parsed stream does not serialise: %s: %s"
                      % (type(e).__name__, str(e)[:200]),
                      detail={"op": op, "seed": case.get("seed"), "features": sorted(feats),
                              "traceback": traceback.format_exc()[-2500:]})
        return
    if out != data:
        bit = first_diff_bit(data, out)
        where = target_at_bit(data, bit)
        kind = "bytes-differ" if len(out) == len(data) else "length-differs"
        ctx.count("bytes_differ")
        ctx.violation("roundtrip:%s:%s" % (kind, where),
                      "serialised description differs from the input at bit %d (%d bytes in, %d bytes out), which the "
                      "deserialiser read as %s" % (bit, len(data), len(out), where),
                      detail={"op": op, "seed": case.get("seed"), "features": sorted(feats), "output": out[:400]})
    else:
        ctx.count("bytes_equal")
    try:
        desc2, eof2 = vc2util.deserialise(out)
    except OutOfScope:
        ctx.inconclusive_note("size guard fired while re-deserialising serialiser output")
        return
    except Exception as e:
        if out == data:
            ctx.violation("roundtrip:redeserialise-raised:" + type(e).__name__,
                          "serialiser output equal to the input did not deserialise again: %r" % (e,))
        return
    if out == data:
        if desc2 != pristine or not eof2:
            ctx.violation("roundtrip:description-differs", "re-deserialising identical bytes gave a different description",
                          detail={"op": op, "seed": case.get("seed")})
        elif desc != pristine and _strip(desc) != _strip(pristine):
            ctx.violation("roundtrip:serialiser-modified-description",
                          "the Serialiser changed non-computed entries of the description it was given",
                          detail={"op": op, "seed": case.get("seed")})
        else:
            ctx.count("descriptions_equal")
    if feats and ctx.rng.random() < 0.0005:
        ctx.sample({"op": op, "seed": case.get("seed"), "features": sorted(feats), "data": data[:200]})


def _strip(node):
    """description without computed ('_') entries"""
    if isinstance(node, dict):
        return {k: _strip(v) for k, v in node.items() if not (isinstance(k, str) and k.startswith("_"))}
    if isinstance(node, list):
        return [_strip(v) for v in node]
    return node


# --------------------------------------------------------------------------
def floor(agg, tier):
    c = agg["counters"]
    miss = []
    q = tier == "quick"
    need = 12000 if q else 250000
    if c.get("parsed_to_completion", 0) < need:
        miss.append("fewer than %d candidates parsed to completion (%d)" % (need, c.get("parsed_to_completion", 0)))
    if c.get("not_parsed", 0) < (2000 if q else 100000):
        miss.append("suspiciously few candidates failed to parse (%d)" % c.get("not_parsed", 0))
    nd = len(degenerate.degenerate_streams())
    if c.get("parsed:hand-packed", 0) != nd:
        miss.append("only %d of the %d hand-packed degenerate-block streams parsed to completion" % (c.get("parsed:hand-packed", 0), nd))
    for fam in ("b", "f", "c", "seed", "d"):
        if c.get("parsed:" + fam, 0) < (50 if q else 1000):
            miss.append("too few parsed candidates from family %s (%d)" % (fam, c.get("parsed:" + fam, 0)))
    for feat in ("bad_prefix", "unknown_parse_code", "next_offset_1_to_12", "inconsistent_next_offset",
                 "inconsistent_previous_offset", "out_of_range_index", "values_beyond_bounded_block",
                 "nonzero_padding_bits", "clamped_slice_y_length", "ld_slice_of_0_bytes", "ld_slice_of_1_byte",
                 "negative_length_bounded_block", "hq_slice_size_scaler_0", "hq_slice_all_lengths_0", "none"):
        if c.get("feature:" + feat, 0) < (10 if q else 200):
            miss.append("feature %s present in only %d parsed candidates" % (feat, c.get("feature:" + feat, 0)))
    if c.get("guard_calls", 0) == 0:
        miss.append("deserialiser guard never called")
    for feat in ("later_sequence_with_bad_prefix", "unused_block_bits_set_beyond_8192"):
        if c.get("feature:" + feat, 0) < (10 if q else 200):
            miss.append("feature %s present in only %d parsed candidates" % (feat, c.get("feature:" + feat, 0)))
    if c.get("bytes_equal", 0) + c.get("bytes_differ", 0) + c.get("serialise_raised", 0) != c.get("parsed_to_completion", 0):
        miss.append("not every parsed candidate was judged")
    return miss


def evidence_extra(agg, tier):
    c = agg["counters"]
    cand = c.get("candidates", 0)
    return {
        "candidates": cand,
        "parsed_to_completion": c.get("parsed_to_completion", 0),
        "parsed_fraction": round(c.get("parsed_to_completion", 0) / cand, 3) if cand else None,
        "out_of_scope_candidates": c.get("out_of_scope", 0),
        "nonconformant_features_present": {k[len("feature:"):]: v for k, v in sorted(c.items()) if k.startswith("feature:")},
    }
