"""C25 — the validator command reports verdicts and decoded pictures faithfully.

Monitor: ``vc2_bitstream_validator.main(argv)`` is called in-process on a
temporary file, hermetically (own argv/prog name, captured stdout/stderr,
fresh output directory, SystemExit turned into a status).  Oracle: the
validator *library* run in the harness on the same bytes with a recording
picture callback (vc2util.validate), the files read back with the independent
raw+JSON reader (vlib.ref.rawfile), file names derived from the documented
rule (printf template, extension stripped, ``.raw`` + ``.json``).
"""
import os
import re
import shlex
import shutil
import sys
import tempfile

from vlib import cliwork, jsonx, vc2util
from vlib.ref import rawfile
from vlib.worker import OutOfScope

PROPERTY = "C25"
LEVEL = "exploration"
TECHNIQUE = (
    "runtime monitoring: in-process executions of the validator command on generated/mutated streams; exit status, "
    "stdout/stderr and written files judged against the validator library run in the harness and an independent raw+JSON reader"
)
RULE = (
    "case = (byte string, argv variant); byte strings are seed-corpus streams unchanged, byte-level, field-level and "
    "coordinated mutations of them, and truncations; argv variant = status line on/off (-q/--quiet/--no-status or none), "
    "-v or none, output pattern (%d, %03d, %5d, %x, %i, literal %%, with existing directory, directory with a dot, "
    ".raw/.json/.dat/no extension, relative to the working directory, or the default pattern), input file name with or "
    "without shell-special characters; distinct = distinct (bytes, argv variant); cases the size guard stops are not "
    "evaluations; every judged case is non-trivial (an accepted stream with its files, or a rejected one with its report)"
)
ASSUMPTIONS = [
    "size guard of DESIGN section 3 (OutOfScope in the harness validator or escaping main() => not an evaluation)",
    "the output directory named by the pattern exists and is writable; the pattern is a valid printf template whose "
    "final path component has at most one '.'-separated extension that does not contain the index (the tool documents "
    "that the supplied extension is stripped)",
    "'located explanation' is read as: stdout carries 'Conformance error at bit offset N' with 0 <= N <= 8*len+8, N equal to "
    "the location the validator library reports for the same bytes (offending_offset() or the read position), the library's "
    "explanation text up to white space (re-flow), and at least one 'vc2-bitstream-viewer <file> ...' command line naming the input file",
    "files of pictures decoded before a conformance error may be absent (the property says 'may exist'); any that exist must be faithful",
    "exit status = what sys.exit(main(argv)) would give (None => 0)",
]
CASE_TIMEOUT_S = 120
STEP_BUDGET = 400000000

N_QUICK = 4800
N_THOROUGH = 400000

# cumulative shares: unchanged, shared random_case, byte level, field level, coordinated, truncation
MIX = (0.12, 0.42, 0.55, 0.70, 0.90, 1.01)

_TMP = None
_GUARD = None
_HOOK = {"exc": None, "calls": 0}

PATTERNS = [
    # (name, directory parts under the case dir, template of final component, cwd-relative?)
    ("d.raw", "", "pic_%d.raw", False),
    ("03d.raw", "", "p%03d.raw", False),
    ("subdir", "out/sub", "pic_%d.raw", False),
    ("dotdir-noext", "out.d", "frame_%d", False),
    ("noext", "", "frame_%d", False),
    ("json-ext", "", "x_%d.json", False),
    ("other-ext", "", "x_%d.dat", False),
    ("bare", "", "%d", False),
    ("width", "", "n%5d.raw", False),
    ("percent", "", "p%%_%d.raw", False),
    ("hex", "", "h_%x.raw", False),
    ("i", "", "h_%i.RAW", False),
    ("relative", "", "rel_%d.raw", True),
    ("relative-subdir", "o", "rel_%02d", True),
    ("precision", "", "picture_%.3d", False),
    ("precision-bare", "", "%.2d", False),
    ("precision-ext", "", "q_%.4d.raw", False),
    ("dot-in-stem", "", "a.b_%d.raw", False),
    ("braces", "", "d_{take 1}_%d.raw", False),
    ("braces-dir", "o{0}", "p{}_%d.raw", False),
    ("brace-open", "", "x{_%d", False),
    ("default", "", None, True),
]
QUIET = [["-q"], ["-q"], ["--quiet"], ["--no-status"], [], []]
INPUT_NAMES = ["in.vc2", "in.vc2", "in.vc2", "in put.vc2", "it's.vc2", "stream$1.bin"]


# --------------------------------------------------------------------------
def setup(ctx):
    global _TMP, _GUARD
    os.environ["COLUMNS"] = "80"
    os.environ["LINES"] = "24"
    _TMP = cliwork.make_tmp("verif-c25-")
    import atexit

    atexit.register(shutil.rmtree, _TMP, True)
    from vc2_conformance.scripts import vc2_bitstream_validator as vv  # noqa: F401  (load before rebinding)

    _GUARD = vc2util.SizeGuard(bounds={"luma_excursion": 1 << 64, "color_diff_excursion": 1 << 64}, max_depth=64).install()

    # observe which exception the command reports as internal error: _print_error
    # is called from inside the except blocks, so sys.exc_info() is live there
    orig = vv.BitstreamValidator.__dict__.get("_print_error")
    if orig is not None:
        def _print_error(self, message):
            _HOOK["calls"] += 1
            ei = sys.exc_info()
            if ei[0] is not None:
                from vc2_conformance.decoder import ConformanceError

                name = ei[0].__name__
                if issubclass(ei[0], ConformanceError):
                    name = "ConformanceError"  # one mechanism, whatever the subclass
                _HOOK["exc"] = (name, str(ei[1])[:200] or ei[0].__name__, cliwork.innermost_repo_function(ei[2]))
            return orig(self, message)

        vv.BitstreamValidator._print_error = _print_error


def teardown(ctx):
    ctx.count("size_guard_calls", _GUARD.calls if _GUARD else 0)
    ctx.count("print_error_hook_calls", _HOOK["calls"])
    if _TMP:
        shutil.rmtree(_TMP, ignore_errors=True)


def plan(tier, seed):
    n = N_QUICK if tier == "quick" else N_THOROUGH
    nsh = 16 if tier == "quick" else 64
    return [{"shard": i, "nshards": nsh, "n": n // nsh, "size": tier} for i in range(nsh)]


def _variant(rng):
    p = rng.randrange(len(PATTERNS))
    return {
        "pattern": PATTERNS[p][0],
        "quiet": rng.choice(QUIET),
        "verbose": rng.choice([[], [], [], ["-v"], ["--verbose"]]),
        "long_o": rng.random() < 0.3,
        "input": rng.choice(INPUT_NAMES),
        "order": rng.randrange(2),
    }


def _sibling_cases(rng, n):
    import copy

    from vlib import pipeline
    from vlib.gen import configs

    for _ in range(n):
        base = configs.random_recipe(rng, {"maxw": 8, "maxh": 8, "max_slices": (2, 2), "max_dwt": 2, "max_depth_bits": 12})
        base["w"], base["h"] = 8, 8
        base.pop("cw", None), base.pop("ch", None), base.pop("lo", None), base.pop("to", None)
        base["pics"]["n"] = 2 if base["pcm"] else 1
        base["pics"]["class"] = "noise"
        if not base["lossless"]:
            base["pb"] = base["sx"] * base["sy"] * 40
        rngs = base.get("range") or [0, 255, 128, 255]
        sib = []
        for attr in rng.sample(["chroma_depth", "luma_depth", "cdf", "pcm", "size"], 3):
            r = copy.deepcopy(base)
            if attr == "chroma_depth":
                r["range"] = [rngs[0], rngs[1], 512, 1023] if rngs[3] != 1023 else [rngs[0], rngs[1], 128, 255]
            elif attr == "luma_depth":
                r["range"] = [64, 1023, rngs[2], rngs[3]] if rngs[1] != 1023 else [16, 255, rngs[2], rngs[3]]
            elif attr == "cdf":
                r["cdf"] = rng.choice([c for c in (0, 1, 2) if c != base["cdf"]])
            elif attr == "pcm":
                r["pcm"] = 1 - base["pcm"]
                r["pics"]["n"] = 2 if r["pcm"] else 1
            else:
                r["w"], r["h"] = 16, 8
            sib.append((attr, r))
        datas = []
        for attr, r in [("base", base)] + sib:
            o = pipeline.run(r)
            if o.stage == "done" and o.verdict.kind == "ok":
                datas.append((attr, o.data))
        for i in range(len(datas)):
            for j in range(len(datas)):
                if i != j:
                    yield {"data": datas[i][1] + datas[j][1], "op": "siblings:%s+%s" % (datas[i][0], datas[j][0]), "seed": "sibling"}
        for attr, d in datas:
            yield {"data": d, "op": "sibling-alone:" + attr, "seed": "sibling"}


DEEP_BITS = [15, 16, 17, 24, 31, 32, 33, 48, 63, 64]


def _deep_cases(rng, n):
    """conformant lossless streams with deep samples (the raw writer packs them into 2, 4 or 8 byte words): extreme
    and random sample values at depths around every word-size boundary"""
    from vlib import pipeline
    from vlib.gen import configs

    for _ in range(n):
        r = configs.random_recipe(rng, {"lossless": "yes", "maxw": 4, "maxh": 4, "max_slices": (1, 1), "max_dwt": 1, "fragments": "no"})
        lb, cb = rng.choice(DEEP_BITS), rng.choice(DEEP_BITS)
        r["range"] = [0, (1 << lb) - 1, 1 << (cb - 1), (1 << cb) - 1]
        r["pics"]["n"] = 2 if r["pcm"] else 1
        r["pics"]["class"] = rng.choice(["max", "zero", "mid", "noise", "noise", "checker"])
        o = pipeline.run(r)
        if o.stage == "done" and o.verdict.kind == "ok":
            yield {"data": o.data, "op": "deep:%d/%d:%s" % (lb, cb, r["pics"]["class"]), "seed": "deep"}


def cases(spec, ctx):
    rng = ctx.rng
    corpus = cliwork.load_corpus(ctx, spec.get("size", "quick"))
    nsh = max(1, spec.get("nshards", 1))
    # every corpus stream unchanged at least once across the shards, every pattern on a valid stream
    for i, (label, data) in enumerate(corpus):
        if i % nsh == spec["shard"] % nsh:
            yield {"data": data, "op": "none", "seed": label, "v": _variant(rng)}
    for pat in PATTERNS:
        label, data = corpus[rng.randrange(len(corpus))]
        v = _variant(rng)
        v["pattern"] = pat[0]
        yield {"data": data, "op": "none", "seed": label, "v": v}
    for d, op in ((b"", "edge:empty"), (b"BBCD", "edge:prefix-only"), (b"BBCD\x10" + bytes(8), "edge:eos-only")):
        yield {"data": d, "op": op, "seed": "-", "v": _variant(rng)}
    # siblings: a conformant sequence followed by a re-encoding with exactly one format attribute changed (chroma or
    # luma depth, chroma sampling, coding mode, size) - in one stream and as consecutive files of the same process;
    # anything the command caches per format under too coarse a key shows here
    for case in _sibling_cases(rng, 6 if spec.get("size", "quick") == "quick" else 40):
        case["v"] = _variant(rng)
        yield case
    for case in _deep_cases(rng, 5 if spec.get("size", "quick") == "quick" else 40):
        case["v"] = _variant(rng)
        ctx.count("deep_sample_streams")
        yield case
    for i in range(spec["n"]):
        if rng.random() < 0.03:
            case = cliwork.zero_run(corpus, rng)
        else:
            case = cliwork.draw(corpus, rng, ctx, MIX)
        if case is None:
            continue
        case["v"] = _variant(rng)
        yield case


# --------------------------------------------------------------------------
# oracle pieces
# --------------------------------------------------------------------------
def expected_names(pattern, i):
    """Documented rule: printf template applied to the index, the supplied file
    extension stripped, '.raw' and '.json' appended."""
    name = pattern % (i,)
    head, sep, tail = name.rpartition("/")
    k = tail.rfind(".")
    if k > 0:
        tail = tail[:k]
    base = head + sep + tail
    return base + ".raw", base + ".json"


def bit_offset_of_tell(t):
    byte, bit = t
    return byte * 8 + (7 - bit)


def library_offset(verdict):
    from vc2_conformance.decoder import tell

    off = verdict.exc.offending_offset()
    if off is None:
        off = bit_offset_of_tell(tell(verdict.state))
    return off


def _squash(s):
    """Text with all white space removed (re-flowing may also break over-long words)."""
    return re.sub(r"\s+", "", s)


def classify_internal(exc_class, exc_text, site):
    """Mechanism name of an internal error (no line numbers, no input values)."""
    text = exc_text or ""
    if exc_class == "ConformanceError":
        return "conformance-error-reported-as-internal-error"
    if exc_class == "ValueError" and "integer string conversion" in text:
        # CPython >= 3.11 refuses str(int) beyond 4300 digits: one root cause wherever the number is formatted
        return "int-max-str-digits"
    if exc_class == "UnboundLocalError" and "true_parse_offset" in text and site in (None, "parse_info"):
        return "parse_info:unbound-true_parse_offset"
    if exc_class == "KeyError" and site in (None, "fragment_header") and any(
        k in text for k in ("_last_picture_number", "_picture_initial_fragment_offset", "fragment_slices_received")
    ):
        return "fragment_header:no-first-fragment"
    return "%s:%s" % (site or "?", exc_class or "?")


def _list_files(root):
    out = []
    for d, _dirs, files in os.walk(root):
        for f in files:
            out.append(os.path.relpath(os.path.join(d, f), root))
    return sorted(out)


def _plain_vp(vp):
    return {k: (bool(v) if k == "top_field_first" else int(v)) for k, v in vp.items()}


def check_pair(ctx, root, raw_rel, json_rel, cb, i):
    """Compare one written file pair with the i-th callback.  True if faithful."""
    pic, vp, pcm = cb
    try:
        with open(os.path.join(root, json_rel), "rb") as f:
            vp2, pcm2, pn2 = rawfile.decode_metadata(f.read())
    except (ValueError, KeyError, UnicodeDecodeError) as e:
        ctx.violation("output-metadata-unreadable", "metadata file of picture %d cannot be read as documented: %s" % (i, e))
        return False
    want_vp = _plain_vp(vp)
    if vp2 != want_vp or any(type(vp2[k]) is not type(want_vp[k]) for k in vp2):
        diff = sorted(k for k in set(vp2) | set(want_vp) if vp2.get(k) != want_vp.get(k))
        ctx.violation("output-metadata-differs:video_parameters", "picture %d: written video parameters differ in %s" % (i, diff),
                      detail={"written": repr(vp2)[:1500], "callback": repr(want_vp)[:1500]})
        return False
    if pcm2 != int(pcm):
        ctx.violation("output-metadata-differs:picture_coding_mode", "picture %d: written %r, callback %r" % (i, pcm2, int(pcm)))
        return False
    if pn2 != pic["pic_num"]:
        ctx.violation("output-metadata-differs:picture_number",
                      "file index %d: written picture number %r, callback picture number %r" % (i, pn2, pic["pic_num"]))
        return False
    with open(os.path.join(root, raw_rel), "rb") as f:
        data = f.read()
    try:
        got, _pad, nonzero = rawfile.decode_picture(data, want_vp, int(pcm))
    except ValueError as e:
        ctx.violation("output-raw-size", "raw file of picture %d: %s" % (i, e))
        return False
    for c in rawfile.COMPONENTS:
        if got[c] != [list(map(int, row)) for row in pic[c]]:
            ndiff = sum(1 for ra, rb in zip(got[c], pic[c]) for a, b in zip(ra, rb) if a != b)
            ctx.violation("output-raw-differs", "picture %d component %s: %d samples differ from the callback picture" % (i, c, ndiff),
                          detail={"written_row0": repr(got[c][:1])[:1500], "callback_row0": repr([list(map(int, r)) for r in pic[c][:1]])[:1500]})
            return False
    if nonzero:
        ctx.violation("output-raw-padding", "picture %d: %d samples have non-zero bits above the component depth" % (i, nonzero))
        return False
    ctx.count("file_pairs_compared")
    ctx.maxi("max_depth_bits_compared", max(d for _c, _w, _h, d, _b in rawfile.layout(want_vp, int(pcm))))
    for _c, _w, _h, d, b in rawfile.layout(want_vp, int(pcm)):
        ctx.note("bytes_per_sample", b)
    return True


# --------------------------------------------------------------------------
def run_case(case, ctx):
    from vc2_conformance.scripts import vc2_bitstream_validator as vv

    data = bytes(case["data"])
    v = case["v"]
    pat = [p for p in PATTERNS if p[0] == v["pattern"]][0]
    _name, subdir, template, relative = pat

    root = tempfile.mkdtemp(prefix="case-", dir=_TMP)
    try:
        # the harness side (reference run, file reading, messages) must not depend on the interpreter's
        # int<->str digit limit; call_main() gives the command itself a fresh process's default
        with cliwork.int_str_limit(0):
            _run(case, ctx, vv, data, v, root, subdir, template, relative)
    finally:
        shutil.rmtree(root, ignore_errors=True)


def _run(case, ctx, vv, data, v, root, subdir, template, relative):
    in_rel = v["input"]
    in_path = os.path.join(root, in_rel)
    with open(in_path, "wb") as f:
        f.write(data)
    if subdir:
        os.makedirs(os.path.join(root, subdir))
    argv = []
    if template is None:
        pattern_abs = os.path.join(root, "picture_%d.raw")  # the documented default, relative to the working directory
    else:
        rel = os.path.join(subdir, template) if subdir else template
        pattern_abs = os.path.join(root, rel)
        argv += ["--output" if v["long_o"] else "-o", rel if relative else pattern_abs]
    file_arg = in_rel if relative else in_path
    argv = [file_arg] + list(v["quiet"]) + list(v["verbose"]) + argv
    if v["order"]:
        argv = argv[1:] + [file_arg]

    def harness():
        return vc2util.validate(data, keep_pictures=True)

    def command():
        _HOOK["exc"] = None
        return cliwork.call_main(vv.main, argv, "vc2-bitstream-validator", cwd=root if relative else None)

    try:
        if v["order"]:
            res = command()
            verdict = harness()
        else:
            verdict = harness()
            res = command()
    except OutOfScope:
        ctx.count("out_of_scope")
        return
    if verdict.kind == "oos":
        ctx.count("out_of_scope")
        return

    key = jsonx.key_hash([data, v])
    ctx.seen(key)
    ctx.count("op:" + str(case.get("op")).split(":")[0])
    ctx.count("pattern:" + v["pattern"])
    ctx.count("quiet:" + ("yes" if v["quiet"] else "no"))
    ctx.count("status:%s" % (res.status,))
    ctx.count("library:" + verdict.kind)
    if ctx.rng.random() < 0.002:
        ctx.sample({"argv": argv, "op": case.get("op"), "bytes": len(data), "status": res.status, "library": verdict.kind})

    detail = {"argv": argv, "stdout_tail": res.stdout[-1500:], "stderr_tail": res.stderr[-1500:]}

    # ---- never the internal-error status, never an escaping exception ----
    if res.raised:
        ctx.violation("validator-cli-internal-error:" + classify_internal(res.exc_class, res.exc_text, res.site),
                      "exception %s escaped main(): %s" % (res.exc_class, res.exc_text), detail=dict(detail, tb=res.tb))
        return
    if res.status == 3:
        exc = _HOOK["exc"]
        if exc is None:
            m = re.search(r"internal error in bitstream validator: (\w+): (.*)", res.stderr)
            exc = (m.group(1), m.group(2)[:200], None) if m else (None, None, None)
        mech = classify_internal(*exc)
        ctx.count("internal_error:" + mech)
        ctx.violation("validator-cli-internal-error:" + mech,
                      "exit status 3 (internal error): %s: %s; harness library verdict: %s" % (exc[0], exc[1], verdict.kind),
                      detail=detail)
        return
    if verdict.kind == "crash":
        # the library crashes in the harness but the command did not say so
        ctx.violation("validator-cli-hides-crash:status-%s" % (res.status,),
                      "library raised %s at %s; command exit status %r" % (verdict.exc_class, verdict.site, res.status), detail=detail)
        return

    # ---- exit status ----
    want = 0 if verdict.kind == "ok" else 2
    if res.status != want or res.via_exit:
        ctx.violation("exit-status:%s-for-%s%s" % (res.status, "conformant" if want == 0 else "non-conformant",
                                                  ":quiet" if v["quiet"] else ""),
                      "exit status %r%s, library verdict %s (%s)" % (res.status, " via SystemExit" if res.via_exit else "",
                                                                   verdict.kind, verdict.exc_class), detail=detail)
        return

    # ---- files ----
    present = set(_list_files(root))
    present.discard(in_rel)
    with open(in_path, "rb") as f:
        if f.read() != data:
            ctx.violation("input-file-modified", "the command changed its input file", detail=detail)
            return
    n = len(verdict.pictures)
    ctx.count("callbacks", n)
    expected = {}
    for i in range(n):
        raw_abs, json_abs = expected_names(pattern_abs, i)
        expected[os.path.relpath(raw_abs, root)] = ("raw", i)
        expected[os.path.relpath(json_abs, root)] = ("json", i)
    if len(expected) != 2 * n:
        ctx.inconclusive_note("pattern %r maps two indices to one name" % (pattern_abs,))
        return
    extra = sorted(present - set(expected))
    if extra:
        ctx.violation("unexpected-output-file",
                      "files %r written; expected names for %d pictures are %r" % (extra[:6], n, sorted(expected)[:6]), detail=detail)
        return
    missing = sorted(set(expected) - present)
    if missing and want == 0:
        ctx.violation("missing-output-file", "conformant stream with %d pictures: files %r not written" % (n, missing[:6]), detail=detail)
        return
    if missing:
        ctx.count("files_absent_after_error", len(missing))
    for i in range(n):
        raw_abs, json_abs = expected_names(pattern_abs, i)
        raw_rel, json_rel = os.path.relpath(raw_abs, root), os.path.relpath(json_abs, root)
        if raw_rel in present and json_rel in present:
            if not check_pair(ctx, root, raw_rel, json_rel, verdict.pictures[i], i):
                return
        elif raw_rel in present or json_rel in present:
            ctx.violation("half-file-pair", "picture %d: only one of %r / %r exists" % (i, raw_rel, json_rel), detail=detail)
            return

    # ---- located explanation ----
    if want == 0:
        ctx.count("accepted")
        if n:
            ctx.count("accepted_with_pictures")
        return
    ctx.count("rejected")
    ctx.note("conformance_errors", verdict.exc_class)
    if n:
        ctx.count("rejected_after_pictures")
    m = re.search(r"^Conformance error at bit offset (-?\d+)\s*$", res.stdout, re.M)
    if not m:
        ctx.violation("no-located-explanation", "exit 2 but stdout has no 'Conformance error at bit offset N' title", detail=detail)
        return
    off = int(m.group(1))
    if not (0 <= off <= 8 * len(data) + 8):
        ctx.violation("reported-offset-out-of-range", "bit offset %d reported for a %d byte file" % (off, len(data)), detail=detail)
        return
    want_off = library_offset(verdict)
    if off != want_off:
        ctx.violation("reported-offset-differs", "command reports bit offset %d, the library locates %s at bit %d"
                      % (off, verdict.exc_class, want_off), detail=detail)
        return
    try:
        paragraphs = [_squash(p) for p in re.split(r"\n\s*\n", verdict.exc.explain().strip())]
    except Exception as e:  # the library itself cannot explain: C02's business, not this check's
        ctx.count("library_explain_failed")
        paragraphs = []
    shown = _squash(res.stdout)
    for p in paragraphs:
        if p and p not in shown:
            ctx.violation("explanation-missing", "stdout does not carry the library's explanation of %s" % verdict.exc_class,
                          detail=dict(detail, paragraph=p[:600]))
            return
    ctx.count("explanation_paragraphs_matched", len(paragraphs))
    cmds = []
    for line in res.stdout.splitlines():
        if "vc2-bitstream-viewer" in line:
            try:
                toks = shlex.split(line)
            except ValueError:
                continue
            if toks and toks[0] == "vc2-bitstream-viewer":
                cmds.append(toks)
    if not any(file_arg in t[1:] for t in cmds):
        ctx.violation("no-viewer-command", "stdout has no 'vc2-bitstream-viewer <file> ...' command line naming %r" % (file_arg,),
                      detail=detail)
        return
    ctx.count("viewer_commands_seen", len(cmds))
    # Informational only (outside the property as stated, never a violation): is the
    # suggested command line one the viewer's own argument parser accepts?
    from vc2_conformance.scripts import vc2_bitstream_viewer as bv

    for toks in cmds:
        r = cliwork.call_main(lambda a: (bv.parse_args(a), 0)[1], toks[1:], "vc2-bitstream-viewer")
        if r.status != 0 or r.raised:
            last = (r.stderr.strip().splitlines() or [r.exc_text or ""])[-1]
            opts = sorted(set(re.findall(r"(?<![\w-])(--?[A-Za-z][\w-]*)", last.split("error:")[-1])))
            ctx.count("suggested_viewer_command_rejected")
            ctx.note("suggested_viewer_command_rejected_options", ",".join(opts) or "?")
            ctx.note("suggested_viewer_command_rejected_errors", verdict.exc_class)
        else:
            ctx.count("suggested_viewer_command_accepted")


# --------------------------------------------------------------------------
def floor(agg, tier):
    c = agg["counters"]
    miss = []
    q = tier == "quick"
    need = {
        "accepted": 500 if q else 30000,
        "accepted_with_pictures": 400 if q else 20000,
        "rejected": 800 if q else 50000,
        "rejected_after_pictures": 100 if q else 5000,
        "file_pairs_compared": 1000 if q else 50000,
        "quiet:yes": 800 if q else 50000,
        "quiet:no": 400 if q else 25000,
    }
    for k, n in need.items():
        if c.get(k, 0) < n:
            miss.append("%s: %d < %d" % (k, c.get(k, 0), n))
    for p in PATTERNS:
        if c.get("pattern:" + p[0], 0) < (50 if q else 2000):
            miss.append("pattern %s used in fewer than %d judged cases" % (p[0], 50 if q else 2000))
    if len(agg["sets"].get("conformance_errors", ())) < (15 if q else 30):
        miss.append("fewer than %d distinct conformance error classes" % (15 if q else 30))
    if c.get("size_guard_calls", 0) == 0:
        miss.append("size guard never consulted")
    if c.get("print_error_hook_calls", 0) == 0:
        miss.append("_print_error hook never called")
    if len(agg["sets"].get("bytes_per_sample", ())) < 2:
        miss.append("fewer than 2 sample widths in compared files")
    return miss


def evidence_extra(agg, tier):
    c = agg["counters"]
    return {
        "by_exit_status": {k[7:]: v for k, v in c.items() if k.startswith("status:")},
        "by_pattern": {k[8:]: v for k, v in c.items() if k.startswith("pattern:")},
        "by_mutation": {k[3:]: v for k, v in c.items() if k.startswith("op:")},
        "generators": "shared vlib.gen.corpus/mutate" if c.get("shared_generators") else "private fallback (shared modules not importable)",
    }
