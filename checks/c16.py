"""C16 — the encoder respects any level table it claims to satisfy.

Monitor: a synthetic single-column level table (+ ordering pattern) is swapped
into the live LEVEL_CONSTRAINTS / LEVEL_SEQUENCE_RESTRICTIONS objects (exactly
as the repository's own tests do), the real encoder, autofill and validator
run under it, and the tables are restored.  A canary compares the tables with
a snapshot at the end of every case.
"""
import copy
import random

from vlib import jsonx, vc2util
from vlib.gen import configs

PROPERTY = "C16"
LEVEL = "exploration"
TECHNIQUE = "runtime monitoring: encoder+validator executions under synthetic level tables swapped in place; rejections classified by an execution-based witness search over the encoder's own alternative headers"
RULE = (
    "case = (configuration, single-column level table, ordering pattern); table cells: flags any/True/False, preset indices "
    "any/presets-only/custom-only/subset, base formats any/subset, trivial keys any/configured/other, major_version any/1/2/3; "
    "8 ordering patterns; an evaluation is a case where the encoder returned a sequence (did not raise an "
    "UnsatisfiableCodecFeaturesError); distinct = distinct (table, pattern, configuration) hash; cases where the encoder raised "
    "are counted, trivial"
)
ASSUMPTIONS = [
    "keys the encoder documents as the caller's responsibility and never checks (matrix values, qindex, total_slice_bytes, slice_size_scaler) always admit the configured value (DESIGN section 7 item 3); wavelet_index_ho and dwt_depth_ho may be restricted since round 4: the encoder has a dedicated error for an extended transform the level does not permit and now (fix e0d0f53, DESIGN D10) raises it for the values as well as for the flags; the video-format values themselves (dimensions, rates, ratios, clean area, signal range, colour indices) may be restricted to the configured value or to another one, because the encoder's header search does check them",
    "a rejection caused by a major_version restriction *below* the version the configuration intrinsically needs is a caller conflict, counted and not judged",
]
CASE_TIMEOUT_S = 120
STEP_BUDGET = 400000000

PATTERNS = [
    ".*",
    "sequence_header .* end_of_sequence",
    "(sequence_header .)* end_of_sequence",
    "sequence_header (padding_data | high_quality_picture | low_delay_picture | high_quality_picture_fragment | low_delay_picture_fragment)* end_of_sequence",
    "(sequence_header (high_quality_picture | low_delay_picture))* end_of_sequence",
    "sequence_header auxiliary_data .* end_of_sequence",
    "sequence_header (high_quality_picture_fragment | low_delay_picture_fragment)* end_of_sequence",
    "sequence_header (. padding_data?)* end_of_sequence",
]

FLAG_KEYS = [
    "custom_dimensions_flag", "custom_color_diff_format_flag", "custom_scan_format_flag", "custom_frame_rate_flag",
    "custom_pixel_aspect_ratio_flag", "custom_clean_area_flag", "custom_signal_range_flag", "custom_color_spec_flag",
    "custom_color_primaries_flag", "custom_color_matrix_flag", "custom_transfer_function_flag",
    "asym_transform_index_flag", "asym_transform_flag",
]
VALUE_KEYS = ["frame_width", "frame_height", "frame_rate_numer", "frame_rate_denom", "pixel_aspect_ratio_numer",
              "pixel_aspect_ratio_denom", "clean_width", "clean_height", "left_offset", "top_offset", "luma_offset",
              "luma_excursion", "color_diff_offset", "color_diff_excursion", "color_diff_format_index", "source_sampling",
              "color_primaries_index", "color_matrix_index", "transfer_function_index"]
INDEX_KEYS = {"frame_rate_index": 14, "pixel_aspect_ratio_index": 6, "custom_signal_range_index": 8, "color_spec_index": 7}

_st = {}


def setup(ctx):
    from vc2_conformance.level_constraints import LEVEL_CONSTRAINTS, LEVEL_SEQUENCE_RESTRICTIONS

    _st["snap_c"] = copy.deepcopy(list(LEVEL_CONSTRAINTS))
    _st["snap_s"] = copy.deepcopy(dict(LEVEL_SEQUENCE_RESTRICTIONS))
    _st["orig_c"] = list(LEVEL_CONSTRAINTS)
    _st["orig_s"] = dict(LEVEL_SEQUENCE_RESTRICTIONS)


def plan(tier, seed):
    n = 3200 if tier == "quick" else 200000
    nsh = 16 if tier == "quick" else 64
    return [{"shard": i, "n": n // nsh} for i in range(nsh)]


def cases(spec, ctx):
    rng = ctx.rng
    for i in range(spec["n"]):
        r = configs.random_recipe(rng, {"maxw": 8, "maxh": 8, "max_slices": (4, 2), "max_dwt": 2, "lossless": "no", "max_depth_bits": 10})
        if r["profile"] == 0 and rng.random() < 0.5:
            # byte budgets that leave a slice-size fraction with common factors to cancel
            n_ = r["sx"] * r["sy"]
            r["pb"] = rng.choice([n_ * 13 + r["sx"], n_ * 13 + 2, 27 * r["sy"] * 2, 45, 54, 108, n_ * 9 + 3])
        r["level"] = rng.choice([1, 2, 3, 64, 66])
        r["pics"]["n"] = 2 if r["pcm"] else 1
        if rng.random() < 0.06:
            r["pics"]["n"] = 0  # a picture-less sequence: the level's ordering pattern still applies
        r["pics"]["class"] = "mid"
        r["pics"]["nums"] = None
        if rng.random() < 0.5:
            # keep most of the base format so that flag=False cells are satisfiable
            r["fr"] = r["par"] = None
            r["prim"] = r["mat"] = r["tf"] = None
            if rng.random() < 0.5:
                r["range"] = None
        if r["qm"] is None and rng.random() < 0.25:
            # an explicitly supplied matrix that happens to equal the default one is still a custom matrix
            from vc2_data_tables import QUANTISATION_MATRICES, WaveletFilters

            dm = QUANTISATION_MATRICES.get((WaveletFilters(r["wi"]), WaveletFilters(r["wih"]), r["d"], r["dh"]))
            if dm is not None:
                r["qm"] = {str(l): dict(o) for l, o in dm.items()}
                r["qm_equals_default"] = True
        table = {}
        triv = {"profile": (r["profile"], [0, 3]), "picture_coding_mode": (r["pcm"], [0, 1]), "wavelet_index": (r["wi"], list(range(7))),
                "dwt_depth": (r["d"], [0, 1, 2, 3]), "slices_x": (r["sx"], [1, 2, 3]), "slices_y": (r["sy"], [1, 2, 3]),
                "custom_quant_matrix": (r["qm"] is not None, [True, False])}
        if r["profile"] == 0:
            from fractions import Fraction

            fr_ = Fraction(r["pb"], r["sx"] * r["sy"])
            triv["slice_bytes_numerator"] = (fr_.numerator, [fr_.numerator + 1, fr_.numerator * 2])
            triv["slice_bytes_denominator"] = (fr_.denominator, [fr_.denominator + 1, fr_.denominator * 2])
        vp0 = configs.build_vp(r)
        options = [("flag", k) for k in FLAG_KEYS] + [("index", k) for k in INDEX_KEYS] + [("base", "base_video_format")] \
            + [("triv", k) for k in triv] + [("same", "slices_have_same_dimensions")] + [("vpval", k) for k in VALUE_KEYS] \
            + [("etpval", "dwt_depth_ho"), ("etpval", "wavelet_index_ho")]
        ncells = rng.choice([0, 1, 1, 2, 2, 3, 3, 4, 5, 7])
        for kind, k in rng.sample(options, ncells):
            if kind == "flag":
                table[k] = ["set", [rng.choice([True, False])]]
            elif kind == "index":
                top = INDEX_KEYS[k]
                p = rng.random()
                if p < 0.4:
                    table[k] = ["set", list(range(1, top + 1))]
                elif p < 0.6:
                    table[k] = ["set", [0]]
                else:
                    table[k] = ["set", sorted(rng.sample(range(0, top + 1), rng.randrange(1, 5)))]
            elif kind == "base":
                bases = set(rng.sample(range(0, 23), rng.randrange(1, 6)))
                if rng.random() < 0.5:
                    bases.add(r["base"])
                table[k] = ["set", sorted(bases)]
            elif kind == "triv":
                v, dom = triv[k]
                if rng.random() < 0.75:
                    table[k] = ["set", [v]]
                else:
                    table[k] = ["set", [rng.choice([x for x in dom if x != v])]]
            elif kind == "etpval":
                # the value an asymmetric transform introduces: the column admits exactly the configured one or another
                v = r["dh"] if k == "dwt_depth_ho" else r["wih"]
                table[k] = ["set", [v]] if rng.random() < 0.6 else ["set", [(v + rng.choice([1, 2])) % (4 if k == "dwt_depth_ho" else 7)]]
                if rng.random() < 0.5:
                    # ... and the column forces the flag that introduces the value (the value is then coded even when it
                    # equals what would be implied without the flag)
                    table["asym_transform_flag" if k == "dwt_depth_ho" else "asym_transform_index_flag"] = ["set", [True]]
            elif kind == "vpval":
                # a value of the video format itself: the column admits exactly the configured value, or exactly
                # another one (then only a base-format default or a preset can still express the format)
                v = int(vp0[k])
                if rng.random() < 0.6:
                    table[k] = ["set", [v]]
                else:
                    table[k] = ["set", [v + rng.choice([1, 2, 7])]]
            else:
                table[k] = ["set", [rng.choice([True, False])]]
        # as in the real levels 1-7 and 66: a flag forced False comes with an EMPTY entry for the value it would introduce
        # (the value is not coded then, so nothing may be checked against that entry)
        for flag, val in (("asym_transform_flag", "dwt_depth_ho"), ("asym_transform_index_flag", "wavelet_index_ho")):
            if table.get(flag) == ["set", [False]] and rng.random() < 0.7:
                table[val] = ["set", []]
        if rng.random() < 0.3:
            table["major_version"] = ["set", [rng.choice([1, 2, 3])]]
        case = {"recipe": r, "table": table, "pattern": rng.randrange(len(PATTERNS))}
        if rng.random() < 0.2:
            # a second column for the same level (the real levels 2, 3, 64, 65 have one column per group of base
            # formats): the header must satisfy ONE column as a whole, not the union of the two
            t2 = copy.deepcopy(table)
            if rng.random() < 0.6:
                # targeted shape: the configuration's own base format sits in a column that forbids some custom_*
                # flags (the format may need them), every other base format in a column that allows everything
                table["base_video_format"] = ["set", [r["base"]]]
                for k in rng.sample(FLAG_KEYS[:11], rng.choice([1, 2, 3])):
                    table[k] = ["set", [False]]
                for k in FLAG_KEYS[:11]:
                    t2.pop(k, None)
                for k in VALUE_KEYS:
                    t2.pop(k, None)
                t2["base_video_format"] = ["set", sorted(set(rng.sample(range(0, 23), rng.randrange(1, 6))) - {r["base"]}) or [(r["base"] + 1) % 23]]
            else:
                b1 = set(table.get("base_video_format", ["set", rng.sample(range(0, 23), 3)])[1])
                table["base_video_format"] = ["set", sorted(b1)]
                t2["base_video_format"] = ["set", sorted(set(rng.sample(range(0, 23), rng.randrange(1, 6))) - b1) or [(max(b1) + 1) % 23]]
                # only sequence-header keys differ between the columns, as in the real tables: the picture-level
                # asym_transform*_flag cells stay identical (the encoder decides those from the codec features alone,
                # without knowing which column its header fell into -- DESIGN section 6, observation O3)
                for k in rng.sample(FLAG_KEYS[:11] + list(INDEX_KEYS), rng.choice([1, 2, 3])):
                    if k in INDEX_KEYS:
                        t2[k] = ["set", sorted(rng.sample(range(0, INDEX_KEYS[k] + 1), rng.randrange(1, 4)))]
                    else:
                        t2[k] = ["set", [rng.choice([True, False])]]
            if rng.random() < 0.5:
                table, t2 = t2, table
                case["table"] = table
            case["more_columns"] = [t2]
        if rng.random() < 0.15:
            # sibling encodes; the targeted shape: same luma size/transform/slicing, other chroma sampling, under a
            # column that demands equally sized slices (true for one of the two only)
            if rng.random() < 0.5:
                r.update({"w": rng.choice([12, 20]), "h": 8, "d": 1, "dh": 0, "wih": r["wi"], "sx": 2, "sy": 1, "cdf": 0, "fsc": 0})
                for kk in ("cw", "ch", "lo", "to"):
                    r.pop(kk, None)
                if not configs.has_default_matrix(r["wi"], r["wih"], 1, 0):
                    r["qm"] = configs.random_matrix(rng, 1, 0)
                elif r["qm"] is not None:
                    r["qm"] = configs.random_matrix(rng, 1, 0)
                table["slices_have_same_dimensions"] = ["set", [True]]
                for kk in ("slices_x", "slices_y", "dwt_depth"):
                    table.pop(kk, None)
                sibs = [configs.sibling(rng, r, "cdf")]
            else:
                sibs = [configs.sibling(rng, r) for _ in range(rng.choice([1, 2]))]
            for sb in sibs:
                sb["level"] = r["level"]
            if rng.random() < 0.5:
                case["recipe"], sibs = sibs[0], [r] + sibs[1:]
            case["siblings"] = sibs
        yield case


def install(level, table, pattern, more_columns=()):
    from vc2_conformance.constraint_table import AnyValue, ValueSet
    from vc2_conformance.level_constraints import LEVEL_CONSTRAINTS, LEVEL_SEQUENCE_RESTRICTIONS, LevelSequenceRestrictions
    from vc2_data_tables import Levels

    lvl = Levels(level)
    keys = sorted(_st["snap_c"][0].keys())
    for i in reversed(range(len(LEVEL_CONSTRAINTS))):
        if lvl in LEVEL_CONSTRAINTS[i]["level"] and not isinstance(LEVEL_CONSTRAINTS[i]["level"], AnyValue):
            del LEVEL_CONSTRAINTS[i]
    for t in [table] + list(more_columns):
        col = {k: AnyValue() for k in keys}
        col["level"] = ValueSet(lvl)
        for k, (kind, vals) in t.items():
            col[k] = ValueSet(*vals)
        LEVEL_CONSTRAINTS.append(col)
    LEVEL_SEQUENCE_RESTRICTIONS[lvl] = LevelSequenceRestrictions("synthetic", pattern)


def restore():
    from vc2_conformance.level_constraints import LEVEL_CONSTRAINTS, LEVEL_SEQUENCE_RESTRICTIONS

    # the original column/restriction *objects* are put back (they are never mutated by install())
    LEVEL_CONSTRAINTS[:] = _st["orig_c"]
    LEVEL_SEQUENCE_RESTRICTIONS.clear()
    LEVEL_SEQUENCE_RESTRICTIONS.update(_st["orig_s"])


def teardown(ctx):
    from vc2_conformance.level_constraints import LEVEL_CONSTRAINTS, LEVEL_SEQUENCE_RESTRICTIONS

    if list(LEVEL_CONSTRAINTS) != _st["snap_c"] or dict(LEVEL_SEQUENCE_RESTRICTIONS) != _st["snap_s"]:
        ctx.inconclusive_note("level tables differ from the deep snapshot at the end of the shard (canary)")
    ctx.count("canary_checks")


def intrinsic_version(r, vp):
    v = 2 if r["profile"] == 3 else 1
    if r["fsc"]:
        v = 3
    if r["dh"] or r["wi"] != r["wih"]:
        v = 3
    if int(vp["color_primaries_index"]) > 3 or int(vp["color_matrix_index"]) > 3 or int(vp["transfer_function_index"]) > 3:
        v = 3
    return v


def stream_version(seq):
    for du in seq["data_units"]:
        if "sequence_header" in du:
            return du["sequence_header"]["parse_parameters"].get("major_version")
    return None


def witness_alternative_header(cf, seq, limit=300):
    """Execution-based witness that a conformant choice existed: substitute each other header the
    real encoder can generate into the same sequence; True if the validator accepts one."""
    from vc2_conformance.encoder.sequence_header import iter_sequence_headers

    n = 0
    for h in iter_sequence_headers(cf):
        n += 1
        if n > limit:
            break
        s2 = copy.deepcopy(seq)
        for du in s2["data_units"]:
            if "sequence_header" in du:
                du["sequence_header"] = copy.deepcopy(h)
        try:
            data = vc2util.serialise([s2])
        except Exception:
            continue
        if vc2util.validate(data, keep_pictures=False).kind == "ok":
            return True
    return False


def run_case(case, ctx):
    table = case["table"]
    try:
        install(case["recipe"]["level"], table, PATTERNS[case["pattern"]], case.get("more_columns", ()))
        if case.get("more_columns"):
            ctx.count("multi_column_tables")
        # the recipe and, right after it under the same installed table, its siblings (one attribute changed):
        # whatever the encoder remembers between encodes under too coarse a key shows in the sibling's verdict
        for i, r in enumerate([case["recipe"]] + list(case.get("siblings", []))):
            if i:
                ctx.count("sibling_encodes")
            _judge_recipe(case, r, table, jsonx.key_hash([case, i]), ctx)
    finally:
        restore()
        from vc2_conformance.level_constraints import LEVEL_CONSTRAINTS

        if len(LEVEL_CONSTRAINTS) != len(_st["orig_c"]) or any(a is not b for a, b in zip(LEVEL_CONSTRAINTS, _st["orig_c"])):
            ctx.inconclusive_note("level tables not restored (canary)")
    if ctx.rng.random() < 0.002:
        ctx.sample(case)


def _judge_recipe(case, r, table, key, ctx):
    from vc2_conformance.encoder import make_sequence, UnsatisfiableCodecFeaturesError

    if True:
        cf = configs.build_cf(r)
        vp = cf["video_parameters"]
        pics = configs.build_pictures(r, vp)
        try:
            seq = make_sequence(cf, copy.deepcopy(pics))
        except UnsatisfiableCodecFeaturesError as e:
            ctx.count("encoder_raised:" + type(e).__name__)
            ctx.seen(key, nontrivial=False)
            return
        except KeyError as e:
            if not pics and e.args and str(e.args[0]).endswith(("_picture", "_picture_fragment")):
                # the ordering pattern demands a picture after every header and none was supplied: make_sequence has
                # nothing to put there (a caller error outside the property; counted)
                ctx.count("empty_sequence_under_pattern_demanding_pictures")
                ctx.seen(key, nontrivial=False)
                return
            raise
        ctx.count("encoder_returned")
        if r.get("qm_equals_default"):
            ctx.count("explicit_matrix_equal_to_default")
        try:
            data = vc2util.serialise([seq])
        except Exception as e:
            ctx.violation("serialise-failed:" + type(e).__name__, "encoder output under a synthetic level failed to serialise: %r" % (e,))
            ctx.seen(key)
            return
        # read the version actually written
        sv = None
        try:
            sv = vc2util.deserialise(data)[0]["sequences"][0]["data_units"][0]["sequence_header"]["parse_parameters"]["major_version"]
        except Exception:
            pass
        v = vc2util.validate(data, keep_pictures=False)
        ctx.seen(key)
        ctx.count("pattern:%d" % case["pattern"])
        for k in table:
            ctx.note("restricted_keys", k)
        if v.kind == "ok":
            ctx.count("accepted")
            ctx.count("accepted_with_%d_restricted_keys" % min(len(table), 8))
            return
        if v.kind != "ce":
            ctx.violation("validator-crash:" + str(v.exc_class), "validator crashed under a synthetic level table", detail=v.tb)
            return
        ctx.count("rejected")
        ctx.note("rejection_classes", v.exc_class)
        allowed_versions = table.get("major_version", ["any", None])[1]
        rej_key = getattr(v.exc, "key", None)
        if v.exc_class == "ValueNotAllowedInLevel" and rej_key == "major_version" and allowed_versions and sv is not None:
            want = allowed_versions[0]
            # Execution-based classification: substitute every other header the encoder itself can generate.
            if witness_alternative_header(cf, seq):
                # a conformant choice existed: the header search ignores what its choices imply for major_version
                # (a preset index implying version 3 under a table admitting less, or a compact version-1 header
                # under a table demanding 3 although a header with version-3 presets is available) -- DESIGN D9
                ctx.violation("encoder-header-choice-ignores-version-implication",
                              "table admits major_version %d, the encoder's chosen header gives a stream of version %s, another of its own headers validates"
                              % (want, sv))
            elif sv > want:
                # every header the encoder can make needs more than the table admits: the caller's configuration
                # (profile, fragments, asymmetric transform ...) conflicts with the table
                ctx.count("caller_conflict_version")
            else:
                # the table demands more than any header makes the stream need; the minimal-version rule forbids
                # simply writing the demanded number -- DESIGN D8
                ctx.violation("level-requires-nonminimal-version",
                              "table admits only major_version %d but no header makes the stream need more than %s" % (want, sv))
            return
        # anything else: the encoder returned a sequence the validator rejects under the same table
        expl = _explain(v.exc)
        if v.exc_class == "ValueNotAllowedInLevel":
            w = witness_alternative_header(cf, seq)
            ctx.violation("encoder-output-rejected:ValueNotAllowedInLevel:%s:%s" % (rej_key, "alternative-header-validates" if w else "no-alternative"),
                          "validator rejects key %s=%r under the table the encoder claimed to satisfy" % (rej_key, getattr(v.exc, "value", None)),
                          detail=expl)
        else:
            ctx.violation("encoder-output-rejected:" + v.exc_class, "validator rejects encoder output under the same level definition", detail=expl)


def _explain(e):
    try:
        return e.explain()[:800]
    except Exception as e2:
        return "explain() failed %r" % (e2,)


def floor(agg, tier):
    c = agg["counters"]
    s = 1 if tier == "quick" else 40
    miss = []
    if c.get("accepted", 0) < 600 * s:
        miss.append("fewer than %d accepted encodings under synthetic tables (%d)" % (600 * s, c.get("accepted", 0)))
    raised = sum(v for k, v in c.items() if k.startswith("encoder_raised:"))
    if raised < 400 * s:
        miss.append("encoder raised an unsatisfiable error fewer than %d times (%d)" % (500 * s, raised))
    if len(agg["sets"].get("restricted_keys", ())) < 25:
        miss.append("fewer than 25 distinct restricted keys among judged cases")
    for p in range(len(PATTERNS)):
        if c.get("pattern:%d" % p, 0) < 20 * s:
            miss.append("pattern %d judged fewer than %d times" % (p, 20 * s))
    return miss
