"""C01 — the validator accepts exactly the structurally conformant data-unit histories.

Monitor shape: history + executable model.  Histories of individually valid,
pre-serialised data units are assembled into byte strings and run through the
real validator; R-structure (vlib/ref/structure.py) says whether the history
obeys the stream-structure rules.  Only accept / reject is compared; any
exception other than a ConformanceError is a violation of its own.
"""
import itertools
import random

from vlib import jsonx, vc2util
from vlib.gen import units as U
from vlib.ref import regex as R
from vlib.ref import structure as S

PROPERTY = "C01"
LEVEL = "exploration"
TECHNIQUE = "runtime monitoring: validator verdicts on assembled data-unit histories vs an independent stream-structure state machine (R-structure + reference regex automaton); raise sites recorded"
RULE = (
    "case = (family, history); family = profile x header version x level pattern x frames/fields x slice grid (13 families); "
    "history = list of unit kinds (SH, SH', PIC, F0, FS(cnt,start), PAD, AUX, EOS, FOREIGN) with picture numbers and optional "
    "parse-offset perturbations; strata: exhaustive (all histories SH.u1..uL over the family alphabet, correct offsets, "
    "consecutive numbers), model-guided random walks (long accepted histories), single-edit neighbours of accepted histories, "
    "level-pattern (every body of length <= 4 over a reduced alphabet for the families with a real ordering pattern), number/offset perturbation patterns, fragment (x, y) offset patterns incl. wrong offsets with the right raster index; distinct = distinct (family, history) ; histories rejected at their first unit are trivial"
)
ASSUMPTIONS = [
    "only accept/reject is compared, never which error",
    "levels 1, 64, 66 keep their real data-unit ordering patterns but get a permissive single-column value table installed in-process (the real columns demand 176x120 ... 8K frames)",
    "units other than pictures and first fragments between the fragments of one picture are accepted by the model (as the code reads the standard's 'no interleaving')",
]
CASE_TIMEOUT_S = 120
STEP_BUDGET = 300000000

_fam_models = {}


def setup(ctx):
    U.install_permissive_levels()


def fam_model(name):
    if name not in _fam_models:
        from vc2_conformance.level_constraints import LEVEL_SEQUENCE_RESTRICTIONS
        from vc2_data_tables import Levels

        fam = U.family(name)
        m = fam.model_family()
        if fam.level != 0:
            from vlib.ref.levels_ref import REFERENCE_PATTERNS

            # the standard's pattern (independent transcription), not the table of the code under test
            m["pattern"] = R.Automaton(REFERENCE_PATTERNS.get(fam.level) or
                                       LEVEL_SEQUENCE_RESTRICTIONS[Levels(fam.level)].sequence_restriction_regex)
        _fam_models[name] = (fam, m)
    return _fam_models[name]


def alphabet(fam):
    ks = [k for k in fam.kinds() if k != "SH"]
    return ks


def plan(tier, seed):
    shards = []
    names = sorted(U.FAMILIES)
    L = 3 if tier == "quick" else 5
    i = 0
    for name in names:
        parts = 1 if tier == "quick" else 6
        # thorough: L <= 5 where the family alphabet has at most 10 unit kinds (111k histories), L <= 4 for the larger ones
        Lf = L
        if tier != "quick" and U.FAMILIES[name]["sx"] * U.FAMILIES[name]["sy"] > 2:
            Lf = 4
        for p in range(parts):
            shards.append({"shard": i, "mode": "exhaustive", "family": name, "L": Lf, "part": p, "parts": parts})
            i += 1
    # level-pattern stratum: for the families with a real ordering pattern, every body of length <= 4 (quick) / 6
    # (thorough) over a reduced alphabet (picture, first fragment, each complete-picture fragment, padding, header)
    # followed by end_of_sequence: pictures mixed with fragments, headers between units, ...
    for name in names:
        if U.FAMILIES[name]["level"]:
            shards.append({"shard": i, "mode": "levelmix", "family": name, "L": 4 if tier == "quick" else 6})
            i += 1
    nrand = 16 if tier == "quick" else 64
    per = 650 if tier == "quick" else 12000
    for s in range(nrand):
        shards.append({"shard": i, "mode": "random", "n": per})
        i += 1
    return shards


def number_history(kinds, start=0):
    """assign consecutive picture numbers; fragments share their picture's number"""
    out = []
    pn = (start - 1) & 0xFFFFFFFF
    seen_any = False
    for k in kinds:
        it = {"k": k}
        if k in ("PIC", "F0"):
            pn = (pn + 1) & 0xFFFFFFFF
            seen_any = True
            it["pn"] = pn
        elif k == "XF0":
            pn = (pn + 1) & 0xFFFFFFFF
            seen_any = True
            it["pn"] = pn
        elif k.startswith("FS:") or k == "XFS":
            it["pn"] = pn if seen_any else start
        elif k == "EOS":
            pn = (start - 1) & 0xFFFFFFFF
            seen_any = False
        out.append(it)
    return out


def guided_walk(rng, fam, m, maxlen):
    """random walk choosing only units the model still allows -> accepted history"""
    hist = [{"k": "SH"}]
    alpha = [k for k in fam.kinds() if k not in ("FOREIGN", "SH2", "SH3", "XF0", "XFS")]
    start = rng.choice([0, 0, 2, 100, 2 ** 32 - 2, 2 ** 32 - 4])
    target = rng.randrange(2, maxlen)
    for _ in range(200):
        if len(hist) >= target:
            cand = ["EOS"] + alpha
        else:
            cand = list(alpha)
            rng.shuffle(cand)
        ok = None
        for k in cand:
            trial = number_history([h["k"] for h in hist] + [k], start)
            _, ab = U.assemble(fam, trial)
            acc, rule = S.judge(ab, m)
            if acc or rule in ("no-end-of-sequence",):
                ok = k
                break
        if ok is None:
            break
        hist = number_history([h["k"] for h in hist] + [ok], start)
        if ok == "EOS" and len(hist) >= target:
            break
    return hist


OFF_OPS = ["next0", "nextwrong", "nextsmall", "prevwrong", "prev0"]


def neighbours(rng, fam, hist, count):
    """single edits of a history"""
    alpha = fam.kinds()
    for _ in range(count):
        h = [dict(x) for x in hist]
        op = rng.choice(["delete", "insert", "substitute", "swap", "number", "offset", "offset", "offset2", "number"])
        if op == "delete" and len(h) > 1:
            del h[rng.randrange(len(h))]
            h = number_history([x["k"] for x in h], (hist[1].get("pn") or 0) if len(hist) > 1 else 0) if rng.random() < 0.5 else h
        elif op == "insert":
            k = rng.choice(alpha)
            pos = rng.randrange(len(h) + 1)
            it = {"k": k}
            if k in ("PIC", "F0", "XF0", "XFS") or k.startswith("FS:"):
                it["pn"] = rng.choice([0, 1, (h[pos - 1].get("pn") or 0) if pos else 0, ((h[pos - 1].get("pn") or 0) + 1) & 0xFFFFFFFF if pos else 0])
            h.insert(pos, it)
            if rng.random() < 0.5:
                h = number_history([x["k"] for x in h], rng.choice([0, 2, 2 ** 32 - 2]))
        elif op == "substitute":
            pos = rng.randrange(len(h))
            k = rng.choice(alpha)
            it = {"k": k}
            if k in ("PIC", "F0", "XF0", "XFS") or k.startswith("FS:"):
                it["pn"] = h[pos].get("pn") or 0
            h[pos] = it
        elif op == "swap" and len(h) > 2:
            pos = rng.randrange(len(h) - 1)
            h[pos], h[pos + 1] = h[pos + 1], h[pos]
        elif op == "number":
            cands = [i for i, x in enumerate(h) if x.get("pn") is not None]
            if cands:
                i = rng.choice(cands)
                h[i]["pn"] = (h[i]["pn"] + rng.choice([1, -1, 2, 2 ** 31, -2])) & 0xFFFFFFFF
        elif op == "offset":
            i = rng.randrange(len(h))
            h[i]["off"] = rng.choice(OFF_OPS)
            h[i]["offv"] = rng.choice([1, 2, 5, 11, 13, 255, 2 ** 32 - 1])
        elif op == "offset2" and len(h) > 1:
            # the interaction: absent next offset on a unit + wrong previous offset on the following unit
            i = rng.randrange(len(h) - 1)
            h[i]["off"] = "next0"
            h[i + 1]["off"] = rng.choice(["prevwrong", "prev0"])
            h[i + 1]["offv"] = rng.choice([1, 3, 77])
        yield h


def cases(spec, ctx):
    rng = ctx.rng
    if spec["mode"] == "exhaustive":
        fam, m = fam_model(spec["family"])
        alpha = alphabet(fam)
        idx = 0
        for l in range(0, spec["L"] + 1):
            batch = []
            for body in itertools.product(alpha, repeat=l):
                idx += 1
                if idx % spec["parts"] != spec["part"]:
                    continue
                batch.append(["SH"] + list(body))
                if len(batch) >= 200:
                    yield {"family": spec["family"], "kinds_batch": batch, "stratum": "exhaustive"}
                    batch = []
            if batch:
                yield {"family": spec["family"], "kinds_batch": batch, "stratum": "exhaustive"}
        return
    if spec["mode"] == "levelmix":
        fam, m = fam_model(spec["family"])
        full = "FS:%d:0" % fam.nsl
        alpha = ["PIC", "F0", full, "PAD", "AUX", "SH"]
        if fam.nsl > 1:
            alpha.append("FS:1:0")
        batch = []
        for l in range(0, spec["L"] + 1):
            for body in itertools.product(alpha, repeat=l):
                batch.append(["SH"] + list(body) + ["EOS"])
                if len(batch) >= 200:
                    yield {"family": spec["family"], "kinds_batch": batch, "stratum": "level-pattern"}
                    batch = []
        if batch:
            yield {"family": spec["family"], "kinds_batch": batch, "stratum": "level-pattern"}
        return
    names = sorted(U.FAMILIES)
    n = spec["n"]
    done = 0
    while done < n:
        name = rng.choice(names)
        fam, m = fam_model(name)
        hist = guided_walk(rng, fam, m, rng.choice([6, 10, 16, 25]))
        hs = [hist]
        hs.extend(neighbours(rng, fam, hist, 12))
        # multi-sequence concatenations
        if rng.random() < 0.3:
            h2 = guided_walk(rng, fam, m, 8)
            hs.append([dict(x) for x in hist] + [dict(x) for x in h2])
        yield {"family": name, "hist_batch": hs, "stratum": "guided+neighbours"}
        done += len(hs)
        # fragment offset patterns: every slice-carrying fragment of the accepted walk gets each of a list of
        # wrong (x, y) offsets, including ones with the same raster index (x beyond the row, y lowered)
        fx = []
        for i, it in enumerate(hist):
            if it["k"].startswith("FS:"):
                start = int(it["k"].split(":")[2])
                x, y = start % fam.sx, start // fam.sx
                alts = [(x + fam.sx, y - 1), (x + fam.sx * y, 0), (x - fam.sx, y + 1), (y, x), (x + 1, y), (x, y + 1), (x, y)]
                for ax, ay in alts:
                    if ax < 0 or ay < 0:
                        continue
                    h = [dict(v) for v in hist]
                    h[i]["fxy"] = [ax, ay]
                    fx.append(h)
        # a complete fragmented picture of the other profile, and a repeated header differing only in its last value,
        # spliced into the accepted walk at every position after the first unit
        extra = []
        for pos in range(1, len(hist)):
            if hist[pos - 1]["k"] in ("F0",) or hist[pos - 1]["k"].startswith("FS:") and hist[pos]["k"].startswith("FS:"):
                continue
            h = [dict(v) for v in hist[:pos]] + [{"k": "XF0"}, {"k": "XFS"}] + [dict(v) for v in hist[pos:]]
            extra.append(number_history([x["k"] for x in h], hist[1].get("pn") or 0 if len(hist) > 1 else 0))
            if "SH3" in fam.units:
                extra.append([dict(v) for v in hist[:pos]] + [{"k": "SH3"}] + [dict(v) for v in hist[pos:]])
        if extra:
            rng.shuffle(extra)
            extra = extra[:6]
            yield {"family": name, "hist_batch": extra, "stratum": "foreign-fragments+last-byte-header"}
            done += len(extra)
        if fx:
            rng.shuffle(fx)
            fx = fx[:10]
            yield {"family": name, "hist_batch": fx, "stratum": "fragment-offsets"}
            done += len(fx)


def run_history(fam, m, hist, stratum, ctx):
    data, ab = U.assemble(fam, hist)
    exp, rule = S.judge(ab, m)
    v = vc2util.validate(data, keep_pictures=False)
    key = jsonx.key_hash([fam.name, [(h["k"], h.get("pn"), h.get("off"), h.get("offv"), h.get("fxy")) for h in hist]])
    trivial = rule == "first-unit-not-sequence-header"
    ctx.seen(key, nontrivial=not trivial)
    ctx.count("histories:" + stratum)
    case = {"family": fam.name, "hist_batch": [hist], "stratum": stratum}
    desc = " ".join(h["k"] + ("#%d" % h["pn"] if h.get("pn") is not None else "") + ("!" + h["off"] if h.get("off") else "") + ("@%d,%d" % tuple(h["fxy"]) if h.get("fxy") else "") for h in hist)
    if v.kind == "crash":
        site = (v.site or "?").rsplit(":", 1)[0]
        sig = "validator-crash:%s:%s" % (site.split(":")[-1], v.exc_class)
        if v.exc_class == "UnboundLocalError" and "parse_info" in site:
            sig = "validator-crash:parse_info:unbound-true_parse_offset"
        elif v.exc_class == "KeyError" and "fragment_header" in site:
            sig = "validator-crash:fragment_header:no-first-fragment"
        ctx.violation(sig, "validator raised %s (%s) on history [%s] of family %s; model says %s (%s)"
                      % (v.exc_class, v.exc, desc, fam.name, "accept" if exp else "reject", rule), case=case, detail=v.tb)
        return
    got = v.kind == "ok"
    if v.kind == "ce":
        ctx.note("conformance_errors", v.exc_class)
        ctx.note("raise_sites", (v.site or "?").rsplit(":", 1)[0])
    ctx.note("model_rules", rule)
    ctx.count("rule:" + rule)
    if got == exp:
        ctx.count("agree_accept" if got else "agree_reject")
        if got:
            ctx.maxi("max_accepted_length", len(hist))
        return
    if got and not exp:
        sig = "validator-accepts-nonconformant:" + rule
        ctx.violation(sig, "validator accepts history [%s] of family %s which violates rule %s" % (desc, fam.name, rule), case=case)
    else:
        sig = "validator-rejects-conformant:" + v.exc_class
        ctx.violation(sig, "validator rejects (%s) conformant history [%s] of family %s" % (v.exc_class, desc, fam.name),
                      case=case, detail=_explain(v.exc))


def _explain(e):
    try:
        return e.explain()[:800]
    except Exception as e2:
        return "explain() failed %r" % (e2,)


def run_case(case, ctx):
    fam, m = fam_model(case["family"])
    if "kinds_batch" in case:
        for kinds in case["kinds_batch"]:
            run_history(fam, m, number_history(kinds), case["stratum"], ctx)
    else:
        for hist in case["hist_batch"]:
            run_history(fam, m, hist, case["stratum"], ctx)
    if ctx.rng.random() < 0.01:
        h = case.get("hist_batch", [None])[0]
        if h:
            ctx.sample({"family": case["family"], "history": h})


def floor(agg, tier):
    c = agg["counters"]
    s = 1 if tier == "quick" else 8
    miss = []
    if c.get("agree_accept", 0) < 1500 * s:
        miss.append("fewer than %d accepted histories agreed (%d)" % (1500 * s, c.get("agree_accept", 0)))
    if c.get("agree_reject", 0) < 12000 * s:
        miss.append("fewer than %d rejected histories agreed (%d)" % (12000 * s, c.get("agree_reject", 0)))
    rules = agg["sets"].get("model_rules", ())
    if len(rules) < 20:
        miss.append("only %d of the model's rules fired first at least once" % len(rules))
    if len(agg["sets"].get("conformance_errors", ())) < 18:
        miss.append("fewer than 18 distinct ConformanceError classes observed")
    if c.get("max_accepted_length", 0) < 15:
        miss.append("no accepted history of 15+ units")
    return miss


def evidence_extra(agg, tier):
    return {"exhaustive_box": "every history SH.u1..uL, L<=%d, over each family's full unit alphabet (correct offsets, consecutive numbers)%s"
            % (3 if tier == "quick" else 5, "" if tier == "quick" else " (L<=4 for the two families with more than two slices) -- enumerated completely across the 6 parts per family")}
