"""C08 — the bitstream deserialiser and the validator read identical content.

Monitor: the same conformant stream variant is given to the real validator
(with wrappers bound over the decoder's parse_info, sequence_header and
picture_decode so that what its `state` held is captured at the moment it
became observable) and to the real deserialiser.  The oracle resolves the
*deserialised fields* independently (vc2_data_tables presets, R-slices
geometry, R-dequant, DC prediction) and compares with the captured decoder
state: data-unit sequence, parse_info values, sequence-header values,
transform parameters, and every dequantised coefficient of every picture.
"""
from vlib import jsonx, vc2util
from vlib.gen import configs, streams
from vlib.ref import dequant

PROPERTY = "C08"
LEVEL = "exploration"
TECHNIQUE = ("runtime monitoring: validator state captured by rebinding parse_info/sequence_header/picture_decode vs "
             "deserialiser context resolved with an independent dequantisation/placement model, on conformant stream variants")
RULE = (
    "case = 1-2 configuration recipes (both profiles, pictures and fragments, symmetric/asymmetric transforms, all subsamplings, "
    "fields/frames) + a variation set from vlib.gen.streams (padding/aux units, repeated sequence headers, next_parse_offset 0, "
    "several sequences, one sequence mixing the pictures of 2-3 sibling recipes whose slice counts/depths/wavelet/matrix/fragment size "
    "differ (transform parameters change per picture, both directions), HQ prefix bytes, raised slice_size_scaler, random slice padding bits, extra length, re-packed coefficient "
    "payloads of magnitude class 1..2^40 with random qindex up to 127/255, dangling last values, short/zero-length blocks, free LD "
    "slice_y_length); distinct = distinct (recipes, variation, seed) hash; cases whose every recipe the encoder rejects are trivial"
)
ASSUMPTIONS = [
    "streams are conformant by construction and confirmed by the validator; a variant the validator rejects (or the serialiser "
    "refuses) is reported under its own signature (variant-rejected / generator-failed) instead of being skipped, since on the "
    "unchanged tree every variant is accepted",
    "header/parameter comparison: parse_info fields and offsets, parse parameters, picture coding mode, all 20 video parameters "
    "(deserialised flags/indices/values resolved through the vc2_data_tables preset tables), wavelet indices and depths, slice "
    "parameters, quantisation matrix (custom list or default table), picture numbers; values the validator does not keep in its "
    "state (base_video_format index, fragment_data_length, prefix bytes, padding bits) are not compared",
    "coefficients are compared after R-dequant and, for low-delay parse codes, DC prediction, exactly as the property states; "
    "placement uses the deserialised fragment offsets and slice order only",
    "the deserialiser runs under vc2util.DeserialiserGuard (dwt depths <= 4, slices <= 16x16, prefix <= 64, scaler <= 256, <= 4096 "
    "luma samples); generated streams are far inside these bounds, so a guard hit means a size field was read differently",
    "the deserialiser's own computed `_state` *copies* (TransformData/FragmentData) are additionally compared with the decoder "
    "state for keys present in both; the Sequence-level `_state` is a live reference to one State object shared by all sequences "
    "of the stream (it shows the last sequence's values after parsing) and is therefore not compared (oracle mistake found on "
    "the first run with concatenated sequences)",
]
CASE_TIMEOUT_S = 180  # ~2000x a typical case; the deserialiser guard bounds garbage parses
STEP_BUDGET = 2000000000

N_QUICK = 2400
N_THOROUGH = 96000

LD_CODES = (vc2util.PC_LD_PICTURE, vc2util.PC_LD_FRAGMENT)

STATE_SCALARS = (
    "picture_number", "parse_code", "wavelet_index", "wavelet_index_ho", "dwt_depth", "dwt_depth_ho", "slices_x", "slices_y",
    "slice_bytes_numerator", "slice_bytes_denominator", "slice_prefix_bytes", "slice_size_scaler",
    "luma_width", "luma_height", "color_diff_width", "color_diff_height", "luma_depth", "color_diff_depth",
    "major_version", "minor_version", "profile", "level", "picture_coding_mode",
)
HEADER_SCALARS = ("major_version", "minor_version", "profile", "level", "picture_coding_mode", "luma_width", "luma_height",
                  "color_diff_width", "color_diff_height", "luma_depth", "color_diff_depth")


# --------------------------------------------------------------------------
# monitor on the validator
# --------------------------------------------------------------------------
class Monitor(object):
    def __init__(self):
        self.events = []
        self.rebinds = {}

    def reset(self):
        self.events = []

    def install(self):
        from vlib.rebind import Rebind
        import vc2_conformance.decoder  # noqa: F401
        import vc2_conformance.bitstream  # noqa: F401
        import vc2_conformance.encoder  # noqa: F401
        import importlib

        # (the package namespaces re-export functions under the same names as the modules)
        sh_mod = importlib.import_module("vc2_conformance.decoder.sequence_header")
        stream_mod = importlib.import_module("vc2_conformance.decoder.stream")
        picture_decoding = importlib.import_module("vc2_conformance.pseudocode.picture_decoding")

        mon = self

        def w_parse_info(orig):
            def wrapped(state):
                r = orig(state)
                mon.events.append(("parse_info", int(state["parse_code"]), state["next_parse_offset"],
                                   state["previous_parse_offset"], state["_last_parse_info_offset"]))
                return r
            return wrapped

        def w_sequence_header(orig):
            def wrapped(state):
                vp = orig(state)
                mon.events.append(("sequence_header", {k: _plain(v) for k, v in dict(vp).items()},
                                   {k: _plain(state[k]) for k in HEADER_SCALARS if k in state}))
                return vp
            return wrapped

        def w_picture_decode(orig):
            def wrapped(state):
                cap = {k: _plain(state[k]) for k in STATE_SCALARS if k in state}
                cap["quant_matrix"] = {int(l): {str(o): int(v) for o, v in b.items()} for l, b in state["quant_matrix"].items()}
                for k in ("y_transform", "c1_transform", "c2_transform"):
                    cap[k] = {l: {o: [row[:] for row in band] for o, band in b.items()} for l, b in state[k].items()}
                mon.events.append(("picture", cap))
                return orig(state)
            return wrapped

        self.rebinds["parse_info"] = Rebind(stream_mod.parse_info, w_parse_info).install()
        self.rebinds["sequence_header"] = Rebind(sh_mod.sequence_header, w_sequence_header).install()
        self.rebinds["picture_decode"] = Rebind(picture_decoding.picture_decode, w_picture_decode).install()
        return self

    def sequences(self):
        """events grouped: [[unit, ...], ...] with unit = {"pi": (...), "sh": ..., "pic": ...}"""
        seqs = [[]]
        for ev in self.events:
            if ev[0] == "parse_info":
                if seqs[-1] and seqs[-1][-1]["pi"][0] == vc2util.PC_END_OF_SEQUENCE:
                    seqs.append([])
                seqs[-1].append({"pi": ev[1:], "sh": None, "pic": None})
            elif ev[0] == "sequence_header":
                seqs[-1][-1]["sh"] = ev[1:]
            else:
                seqs[-1][-1]["pic"] = ev[1]
        return [s for s in seqs if s]


def _plain(v):
    if isinstance(v, bool):
        return v
    if isinstance(v, int):
        return int(v)
    return v


MON = None
GUARD = None


def setup(ctx):
    global MON, GUARD
    if MON is None:
        MON = Monitor().install()
        # resource bound for the deserialiser: every generated stream is far inside these bounds, so the guard can only
        # fire when the deserialiser reads a size-determining field differently from what was written (it then raises
        # OutOfScope instead of spinning for minutes on garbage)
        GUARD = vc2util.DeserialiserGuard(bounds=dict(slice_prefix_bytes=64, slice_size_scaler=256)).install()


# --------------------------------------------------------------------------
# plan / cases
# --------------------------------------------------------------------------
def plan(tier, seed):
    n = N_QUICK if tier == "quick" else N_THOROUGH
    nsh = 16 if tier == "quick" else 64
    return [{"shard": i, "n": n // nsh} for i in range(nsh)]


def cases(spec, ctx):
    for i in range(spec["n"]):
        yield streams.random_case(ctx.rng, emphasis=ctx.rng.choice([None, "parse", "parse", "clip"]))


# --------------------------------------------------------------------------
# independent resolution of deserialised header fields
# --------------------------------------------------------------------------
def resolve_header(sh):
    """deserialised SequenceHeader context -> (scalars, video_parameters dict) using
    only the field values and the vc2_data_tables preset tables"""
    from vc2_data_tables import (BASE_VIDEO_FORMAT_PARAMETERS, PRESET_COLOR_SPECS, PRESET_FRAME_RATES,
                                 PRESET_PIXEL_ASPECT_RATIOS, PRESET_SIGNAL_RANGES)

    pp = sh["parse_parameters"]
    scal = {k: int(pp[k]) for k in ("major_version", "minor_version", "profile", "level")}
    scal["picture_coding_mode"] = int(sh["picture_coding_mode"])
    b = BASE_VIDEO_FORMAT_PARAMETERS[int(sh["base_video_format"])]
    fr = PRESET_FRAME_RATES[b.frame_rate_index]
    par = PRESET_PIXEL_ASPECT_RATIOS[b.pixel_aspect_ratio_index]
    sr = PRESET_SIGNAL_RANGES[b.signal_range_index]
    cs = PRESET_COLOR_SPECS[b.color_spec_index]
    vp = dict(
        frame_width=b.frame_width, frame_height=b.frame_height, color_diff_format_index=int(b.color_diff_format_index),
        source_sampling=int(b.source_sampling), top_field_first=bool(b.top_field_first),
        frame_rate_numer=fr.numerator, frame_rate_denom=fr.denominator,
        pixel_aspect_ratio_numer=par.numerator, pixel_aspect_ratio_denom=par.denominator,
        clean_width=b.clean_width, clean_height=b.clean_height, left_offset=b.left_offset, top_offset=b.top_offset,
        luma_offset=sr.luma_offset, luma_excursion=sr.luma_excursion, color_diff_offset=sr.color_diff_offset,
        color_diff_excursion=sr.color_diff_excursion, color_primaries_index=int(cs.color_primaries_index),
        color_matrix_index=int(cs.color_matrix_index), transfer_function_index=int(cs.transfer_function_index),
    )
    v = sh["video_parameters"]
    f = v["frame_size"]
    if f["custom_dimensions_flag"]:
        vp["frame_width"], vp["frame_height"] = f["frame_width"], f["frame_height"]
    f = v["color_diff_sampling_format"]
    if f["custom_color_diff_format_flag"]:
        vp["color_diff_format_index"] = int(f["color_diff_format_index"])
    f = v["scan_format"]
    if f["custom_scan_format_flag"]:
        vp["source_sampling"] = int(f["source_sampling"])
    f = v["frame_rate"]
    if f["custom_frame_rate_flag"]:
        if int(f["index"]) == 0:
            vp["frame_rate_numer"], vp["frame_rate_denom"] = f["frame_rate_numer"], f["frame_rate_denom"]
        else:
            p = PRESET_FRAME_RATES[int(f["index"])]
            vp["frame_rate_numer"], vp["frame_rate_denom"] = p.numerator, p.denominator
    f = v["pixel_aspect_ratio"]
    if f["custom_pixel_aspect_ratio_flag"]:
        if int(f["index"]) == 0:
            vp["pixel_aspect_ratio_numer"], vp["pixel_aspect_ratio_denom"] = f["pixel_aspect_ratio_numer"], f["pixel_aspect_ratio_denom"]
        else:
            p = PRESET_PIXEL_ASPECT_RATIOS[int(f["index"])]
            vp["pixel_aspect_ratio_numer"], vp["pixel_aspect_ratio_denom"] = p.numerator, p.denominator
    f = v["clean_area"]
    if f["custom_clean_area_flag"]:
        for k in ("clean_width", "clean_height", "left_offset", "top_offset"):
            vp[k] = f[k]
    f = v["signal_range"]
    if f["custom_signal_range_flag"]:
        if int(f["index"]) == 0:
            for k in ("luma_offset", "luma_excursion", "color_diff_offset", "color_diff_excursion"):
                vp[k] = f[k]
        else:
            p = PRESET_SIGNAL_RANGES[int(f["index"])]
            vp.update(luma_offset=p.luma_offset, luma_excursion=p.luma_excursion, color_diff_offset=p.color_diff_offset,
                      color_diff_excursion=p.color_diff_excursion)
    f = v["color_spec"]
    if f["custom_color_spec_flag"]:
        p = PRESET_COLOR_SPECS[int(f["index"])]
        vp.update(color_primaries_index=int(p.color_primaries_index), color_matrix_index=int(p.color_matrix_index),
                  transfer_function_index=int(p.transfer_function_index))
        if int(f["index"]) == 0:
            if f["color_primaries"]["custom_color_primaries_flag"]:
                vp["color_primaries_index"] = int(f["color_primaries"]["index"])
            if f["color_matrix"]["custom_color_matrix_flag"]:
                vp["color_matrix_index"] = int(f["color_matrix"]["index"])
            if f["transfer_function"]["custom_transfer_function_flag"]:
                vp["transfer_function_index"] = int(f["transfer_function"]["index"])
    return scal, vp


def resolve_transform_parameters(tp, is_ld):
    """deserialised TransformParameters -> dict of the decoder-state values they imply"""
    out = {"wavelet_index": int(tp["wavelet_index"]), "dwt_depth": tp["dwt_depth"]}
    out["wavelet_index_ho"] = out["wavelet_index"]
    out["dwt_depth_ho"] = 0
    etp = tp.get("extended_transform_parameters")
    if etp is not None:
        if etp["asym_transform_index_flag"]:
            out["wavelet_index_ho"] = int(etp["wavelet_index_ho"])
        if etp["asym_transform_flag"]:
            out["dwt_depth_ho"] = etp["dwt_depth_ho"]
    sp = tp["slice_parameters"]
    out["slices_x"], out["slices_y"] = sp["slices_x"], sp["slices_y"]
    if is_ld:
        out["slice_bytes_numerator"], out["slice_bytes_denominator"] = sp["slice_bytes_numerator"], sp["slice_bytes_denominator"]
    else:
        out["slice_prefix_bytes"], out["slice_size_scaler"] = sp["slice_prefix_bytes"], sp["slice_size_scaler"]
    qm = tp["quant_matrix"]
    if qm["custom_quant_matrix"]:
        out["quant_matrix"] = dequant.matrix_from_list(list(qm["quant_matrix"]), out["dwt_depth"], out["dwt_depth_ho"])
    else:
        out["quant_matrix"] = dequant.default_matrix(out["wavelet_index"], out["wavelet_index_ho"], out["dwt_depth"], out["dwt_depth_ho"])
    return out


# --------------------------------------------------------------------------
# oracle
# --------------------------------------------------------------------------
class Mismatch(Exception):
    def __init__(self, signature, what, detail=None):
        Exception.__init__(self, what)
        self.signature, self.what, self.detail = signature, what, detail


def compare(des_ctx, mon_seqs, ctx):
    """raises Mismatch on the first difference; returns statistics otherwise"""
    stats = {"units": 0, "headers": 0, "pictures": 0, "coefficients": 0, "nonzero": 0, "ld": 0, "hq": 0, "frag": 0, "pic": 0,
             "max_abs": 0, "max_abs_LD": 0, "max_abs_HQ": 0}
    dseqs = des_ctx["sequences"]
    if len(dseqs) != len(mon_seqs):
        raise Mismatch("sequence-count", "deserialiser read %d sequences, validator %d" % (len(dseqs), len(mon_seqs)))
    for si, (dseq, mseq) in enumerate(zip(dseqs, mon_seqs)):
        dunits = dseq["data_units"]
        d_codes = [int(du["parse_info"]["parse_code"]) for du in dunits]
        m_codes = [u["pi"][0] for u in mseq]
        if d_codes != m_codes:
            raise Mismatch("unit-sequence", "sequence %d: deserialiser parse codes %r, validator %r" % (si, d_codes, m_codes))
        header = None
        cur = None  # picture being assembled from deserialised slices
        for ui, (du, mu) in enumerate(zip(dunits, mseq)):
            stats["units"] += 1
            pi = du["parse_info"]
            code = d_codes[ui]
            for name, a, b in (("next_parse_offset", pi["next_parse_offset"], mu["pi"][1]),
                               ("previous_parse_offset", pi["previous_parse_offset"], mu["pi"][2]),
                               ("offset", pi["_offset"], mu["pi"][3])):
                if a != b:
                    raise Mismatch("parse-info:" + name, "sequence %d unit %d (%s): deserialiser %s=%r, validator %r"
                                   % (si, ui, vc2util.PC_NAMES.get(code), name, a, b))
            if code == vc2util.PC_SEQUENCE_HEADER:
                scal, vp = resolve_header(du["sequence_header"])
                if mu["sh"] is None:
                    raise Mismatch("no-header-event", "validator did not run sequence_header for a sequence header unit")
                mvp, mscal = mu["sh"]
                for k in sorted(set(vp) | set(mvp)):
                    if k not in vp or k not in mvp or vp[k] != mvp[k] or isinstance(vp[k], bool) != isinstance(mvp[k], bool):
                        raise Mismatch("sequence-header:" + k, "video parameter %s: deserialised fields give %r, validator holds %r"
                                       % (k, vp.get(k), mvp.get(k)))
                for k, val in scal.items():
                    if mscal.get(k) != val:
                        raise Mismatch("sequence-header:" + k, "%s: deserialised %r, validator %r" % (k, val, mscal.get(k)))
                dd = configs.dims_and_depths(vp["frame_width"], vp["frame_height"], vp["color_diff_format_index"],
                                             scal["picture_coding_mode"], vp["luma_excursion"], vp["color_diff_excursion"])
                header = {"scal": scal, "vp": vp, "dims": dd}
                stats["headers"] += 1
                continue
            if code in vc2util.PICTURE_CODES:
                pp = du["picture_parse"]
                wt = pp["wavelet_transform"]
                td = wt["transform_data"]
                is_ld = code in LD_CODES
                cur = _start_picture(header, wt["transform_parameters"], is_ld, pp["picture_header"]["picture_number"], code)
                sl = td["ld_slices" if is_ld else "hq_slices"]
                _put_slices(cur, sl, 0, is_ld)
                _check_state_copy(td.get("_state"), mu["pic"])
                _finish_picture(cur, mu, stats, "pic")
                cur = None
            elif code in vc2util.FRAGMENT_CODES:
                fp = du["fragment_parse"]
                fh = fp["fragment_header"]
                is_ld = code in LD_CODES
                if fh["fragment_slice_count"] == 0:
                    cur = _start_picture(header, fp["transform_parameters"], is_ld, fh["picture_number"], code)
                    if mu["pic"] is not None:
                        raise Mismatch("early-picture", "validator decoded a picture at a first fragment")
                else:
                    if cur is None:
                        raise Mismatch("fragment-without-picture", "deserialised slice fragment with no picture in progress")
                    if fh["picture_number"] != cur["picture_number"]:
                        raise Mismatch("fragment-picture-number", "deserialised fragments of one picture carry numbers %r and %r"
                                       % (cur["picture_number"], fh["picture_number"]))
                    td = fp["fragment_data"]
                    sl = td["ld_slices" if is_ld else "hq_slices"]
                    if len(sl) != fh["fragment_slice_count"]:
                        raise Mismatch("fragment-slice-count", "fragment declares %d slices, deserialiser read %d"
                                       % (fh["fragment_slice_count"], len(sl)))
                    first = fh["fragment_y_offset"] * cur["tp"]["slices_x"] + fh["fragment_x_offset"]
                    _put_slices(cur, sl, first, is_ld)
                    n_total = cur["tp"]["slices_x"] * cur["tp"]["slices_y"]
                    if cur["pic"].slices == n_total:
                        _check_state_copy(td.get("_state"), mu["pic"])
                        _finish_picture(cur, mu, stats, "frag")
                        cur = None
                    elif mu["pic"] is not None:
                        raise Mismatch("early-picture", "validator decoded a fragmented picture after %d of %d deserialised slices"
                                       % (cur["pic"].slices, n_total))
            elif mu["pic"] is not None:
                raise Mismatch("picture-at-non-picture-unit", "validator decoded a picture at a %s unit" % vc2util.PC_NAMES.get(code))
        if cur is not None:
            raise Mismatch("incomplete-picture", "deserialised stream ends sequence %d with an incomplete fragmented picture" % si)
    return stats


def _start_picture(header, tp, is_ld, picture_number, code):
    if header is None:
        raise Mismatch("picture-before-header", "picture before any sequence header")
    try:
        rtp = resolve_transform_parameters(tp, is_ld)
    except (StopIteration, ValueError) as e:
        raise Mismatch("quant-matrix-length", "deserialised custom quantisation matrix has the wrong number of entries (%r)" % (e,))
    if rtp["quant_matrix"] is None:
        raise Mismatch("no-default-matrix", "no default quantisation matrix for an accepted stream")
    dd = header["dims"]
    pic = dequant.Picture({c: dd[c][:2] for c in dd}, rtp["dwt_depth"], rtp["dwt_depth_ho"], rtp["slices_x"], rtp["slices_y"],
                          rtp["quant_matrix"])
    return {"tp": rtp, "pic": pic, "picture_number": picture_number, "code": code, "is_ld": is_ld, "seen": set(), "maxabs": 0,
            "nonzero": 0}


def _put_slices(cur, slices, first, is_ld):
    nx = cur["tp"]["slices_x"]
    for i, s in enumerate(slices):
        n = first + i
        sx, sy = n % nx, n // nx
        if n in cur["seen"] or sy >= cur["tp"]["slices_y"]:
            raise Mismatch("slice-position", "deserialised slice %d placed twice or outside the picture" % n)
        cur["seen"].add(n)
        if s.get("_sx", sx) != sx or s.get("_sy", sy) != sy:
            raise Mismatch("slice-coordinates", "deserialiser labels slice %d as (%r,%r), stream order says (%d,%d)"
                           % (n, s.get("_sx"), s.get("_sy"), sx, sy))
        try:
            if is_ld:
                cur["pic"].put_ld(sx, sy, s["qindex"], s["y_transform"], s["c_transform"])
                lists = (s["y_transform"], s["c_transform"])
            else:
                cur["pic"].put_hq(sx, sy, s["qindex"], s["y_transform"], s["c1_transform"], s["c2_transform"])
                lists = (s["y_transform"], s["c1_transform"], s["c2_transform"])
        except dequant.CountMismatch as e:
            raise Mismatch("slice-coefficient-count:" + ("LD" if is_ld else "HQ"), "slice %d: %s" % (n, e))
        for l in lists:
            for v in l:
                if v:
                    cur["nonzero"] += 1
                    if abs(v) > cur["maxabs"]:
                        cur["maxabs"] = abs(v)


def _check_state_copy(dstate, cap):
    if dstate is None or cap is None:
        return
    for k in STATE_SCALARS:
        if k in dstate and k in cap and _plain(dstate[k]) != cap[k]:
            raise Mismatch("deserialiser-state:" + k, "%s: deserialiser state %r, validator %r" % (k, dstate[k], cap[k]))


def _finish_picture(cur, mu, stats, how):
    cap = mu["pic"]
    kind = "LD" if cur["is_ld"] else "HQ"
    if cap is None:
        raise Mismatch("picture-not-decoded", "deserialised %s picture complete but the validator did not decode one here" % kind)
    n_total = cur["tp"]["slices_x"] * cur["tp"]["slices_y"]
    if cur["pic"].slices != n_total:
        raise Mismatch("slice-count", "deserialised picture has %d slices, parameters say %d" % (cur["pic"].slices, n_total))
    rtp = cur["tp"]
    for k, val in rtp.items():
        if cap.get(k) != val:
            raise Mismatch("transform-parameters:" + k, "%s: deserialised %r, validator state %r" % (k, val, cap.get(k)))
    if cap["picture_number"] != cur["picture_number"]:
        raise Mismatch("picture-number", "deserialised picture number %r, validator state %r" % (cur["picture_number"], cap["picture_number"]))
    if cap["parse_code"] != cur["code"]:
        raise Mismatch("parse-code-at-decode", "validator decoded with parse code %r, unit has %r" % (cap["parse_code"], cur["code"]))
    arrays = cur["pic"].finish(dc_prediction=cur["is_ld"])
    for c, key in (("Y", "y_transform"), ("C1", "c1_transform"), ("C2", "c2_transform")):
        diff = dequant.first_difference(arrays[c], cap[key])
        if diff is not None:
            raise Mismatch("coefficients-differ:%s:%s:%s" % (kind, how, c),
                           "%s %s component %s: dequantised deserialised coefficients differ from the validator's transform data at %r"
                           % (kind, "fragmented picture" if how == "frag" else "picture", c, diff),
                           detail={"first_difference": repr(diff), "transform_parameters": repr(rtp)})
        for b in arrays[c].values():
            for band in b.values():
                for row in band:
                    stats["coefficients"] += len(row)
    stats["pictures"] += 1
    stats[kind.lower()] += 1
    stats[how] += 1
    stats["nonzero"] += cur["nonzero"]
    stats["max_abs"] = max(stats["max_abs"], cur["maxabs"])
    stats["max_abs_" + kind] = max(stats["max_abs_" + kind], cur["maxabs"])


# --------------------------------------------------------------------------
# run_case
# --------------------------------------------------------------------------
_PRESET_GROUPS = (("frame_rate", "custom_frame_rate_flag"), ("pixel_aspect_ratio", "custom_pixel_aspect_ratio_flag"),
                  ("signal_range", "custom_signal_range_flag"), ("color_spec", "custom_color_spec_flag"))


def _malformed_predecessor(data, ctx):
    """Before the conformant stream of this case: the same process reads a MALFORMED relative of it (one preset index
    out of range) with the deserialiser and the validator.  Nothing is judged here - the point is what such an input
    may leave behind in the process for the conformant streams that follow."""
    try:
        dctx, _ = vc2util.deserialise(data)
        sh = dctx["sequences"][0]["data_units"][0]["sequence_header"]
        grp, flag = ctx.rng.choice(_PRESET_GROUPS)
        old = sh["video_parameters"][grp]
        sh["video_parameters"][grp] = type(old)({flag: True, "index": ctx.rng.randrange(5, 20)})
        bad = vc2util.reserialise(dctx)
    except Exception:
        ctx.count("malformed_predecessor_not_built")
        return
    try:
        vc2util.deserialise(bad)
    except Exception:
        pass
    vc2util.validate(bad, keep_pictures=False)
    ctx.count("malformed_predecessors_read")


def run_case(case, ctx):
    key = jsonx.key_hash(case)
    try:
        v = streams.build(case)
    except streams.Rejected:
        ctx.count("encoder_rejected_cases")
        ctx.seen(key, nontrivial=False)
        return
    except Exception as e:
        import sys
        import traceback

        ctx.violation("generator-failed:%s@%s" % (type(e).__name__, (vc2util._site(sys.exc_info()[2]) or "verif").rsplit(":", 1)[0]),
                      "building/serialising the variant raised %r" % (e,), detail=traceback.format_exc()[-2500:])
        ctx.seen(key)
        return
    ctx.seen(key)
    data = v.data
    if ctx.rng.random() < 0.06:
        _malformed_predecessor(data, ctx)
    MON.reset()
    calls0 = {k: r.calls for k, r in MON.rebinds.items()}
    verdict = vc2util.validate(data, keep_pictures=False)
    calls = {k: r.calls - calls0[k] for k, r in MON.rebinds.items()}
    for k, n in calls.items():
        ctx.count("rebind_calls:" + k, n)
    if verdict.kind != "ok":
        ctx.violation("variant-rejected:%s" % verdict.exc_class,
                      "validator did not accept a conformant variant (%s at %s); applied=%s" % (verdict.exc_class, verdict.site, sorted(v.applied)),
                      detail=verdict.tb or _explain(verdict.exc))
        return
    ctx.count("accepted")
    # independent count of pictures
    try:
        units = vc2util.framing(data)
    except ValueError as e:
        ctx.violation("framing-broken", "independent parse_info walk failed: %s" % e)
        return
    n_pics = sum(1 for u in units if u.parse_code in vc2util.PICTURE_CODES
                 or (u.parse_code in vc2util.FRAGMENT_CODES and u.frag_slice_count == 0))
    if calls["picture_decode"] != n_pics or calls["parse_info"] != len(units):
        ctx.inconclusive_note("rebind counters disagree with the stream: picture_decode %d for %d pictures, parse_info %d for %d units"
                              % (calls["picture_decode"], n_pics, calls["parse_info"], len(units)))
        return
    mon_seqs = MON.sequences()
    try:
        des_ctx, eof = vc2util.deserialise(data)
    except vc2util.OutOfScope as e:
        ctx.violation("deserialiser-reads-oversized:%s" % (e.args[0] if e.args else "?"),
                      "deserialiser read an implausibly large %s from a stream the validator accepts; applied=%s"
                      % (e.args[0] if e.args else "?", sorted(v.applied)))
        return
    except Exception as e:
        import sys
        import traceback

        ctx.violation("deserialiser-raised:%s@%s" % (type(e).__name__, (vc2util._site(sys.exc_info()[2]) or "?").rsplit(":", 1)[0]),
                      "deserialiser raised %r on a stream the validator accepts; applied=%s" % (e, sorted(v.applied)),
                      detail=traceback.format_exc()[-2500:])
        return
    if not eof:
        ctx.violation("deserialiser-stops-early", "deserialiser finished before the end of a stream the validator accepts")
        return
    try:
        stats = compare(des_ctx, mon_seqs, ctx)
    except Mismatch as m:
        ctx.violation(m.signature, m.what + "; applied=%s" % sorted(v.applied), detail=m.detail)
        return
    ctx.count("compared_cases")
    for k in ("units", "headers", "pictures", "coefficients", "nonzero"):
        ctx.count("compared_" + k, stats[k])
    ctx.count("pictures:LD", stats["ld"])
    ctx.count("pictures:HQ", stats["hq"])
    ctx.count("pictures:fragmented", stats["frag"])
    ctx.count("pictures:unfragmented", stats["pic"])
    ctx.maxi("max_abs_coefficient_bits", stats["max_abs"].bit_length())
    ctx.maxi("max_abs_coefficient_bits_LD", stats["max_abs_LD"].bit_length())
    ctx.maxi("max_abs_coefficient_bits_HQ", stats["max_abs_HQ"].bit_length())
    for a in v.applied:
        ctx.count("variation:" + a)
    if not v.applied:
        ctx.count("variation:none")
    for k, n in v.stats.items():
        if k != "max_scaler_seen":
            ctx.count("gen:" + k, n)
        else:
            ctx.maxi("max_slice_size_scaler", n)
    for s in v.seqs:
        ctx.count("stratum:" + configs.stratum(s["recipe"]))
        ctx.note("wavelet_pairs", "%d/%d" % (s["recipe"]["wi"], s["recipe"]["wih"]))
        ctx.note("depth_pairs", "%d/%d" % (s["recipe"]["d"], s["recipe"]["dh"]))
    if ctx.rng.random() < 0.003:
        ctx.sample({"case": case, "applied": sorted(v.applied), "bytes": len(data), "pictures": stats["pictures"]})


def evidence_extra(agg, tier):
    c = agg["counters"]
    return {
        "rebind_call_counts": {k.split(":", 1)[1]: v for k, v in c.items() if k.startswith("rebind_calls:")},
        "pictures_captured_and_compared": c.get("compared_pictures", 0),
        "variation_strata": {k.split(":", 1)[1]: v for k, v in c.items() if k.startswith("variation:")},
        "magnitude_classes": {k.split(":", 2)[2]: v for k, v in c.items() if k.startswith("variation:repack:")},
        "mixed_parameter_transitions": {k.split(":", 2)[2]: v for k, v in c.items() if k.startswith("gen:mixed:")},
    }


def _explain(e):
    try:
        return e.explain()
    except Exception as e2:
        return "explain() failed: %r" % (e2,)


# --------------------------------------------------------------------------
# floor
# --------------------------------------------------------------------------
REQUIRED_VARIATIONS = (
    "pad_units", "aux_units", "rep_seq_header", "npo_zero", "multi_seq", "prefix_bytes", "scaler_raised", "slice_padding",
    "extra_length", "mixed_params", "dangling", "short_block", "zero_block", "repack:1", "repack:3", "repack:40", "repack:2000", "repack:2^20",
    "repack:2^40", "ld_ylen:natural", "ld_ylen:random", "ld_ylen:zero", "ld_ylen:all", "none",
)


def floor(agg, tier):
    c = agg["counters"]
    miss = []
    scale = 1 if tier == "quick" else 20
    if c.get("compared_cases", 0) < 1200 * scale:
        miss.append("fewer than %d cases compared (%d)" % (1200 * scale, c.get("compared_cases", 0)))
    for k, need in (("pictures:LD", 300), ("pictures:HQ", 300), ("pictures:fragmented", 300), ("pictures:unfragmented", 300)):
        if c.get(k, 0) < need * scale:
            miss.append("%s: %d < %d" % (k, c.get(k, 0), need * scale))
    for name in REQUIRED_VARIATIONS:
        if c.get("variation:" + name, 0) < 15 * scale:
            miss.append("variation %s exercised %d times (< %d)" % (name, c.get("variation:" + name, 0), 15 * scale))
    for rb in ("parse_info", "sequence_header", "picture_decode"):
        if c.get("rebind_calls:" + rb, 0) == 0:
            miss.append("rebind wrapper %s never called" % rb)
    if c.get("rebind_calls:picture_decode", 0) < c.get("compared_pictures", 0):
        miss.append("fewer picture_decode captures than pictures compared")
    if c.get("gen:dangling_blocks", 0) < 200 * scale:
        miss.append("fewer than %d dangling blocks" % (200 * scale))
    if c.get("max_abs_coefficient_bits_HQ", 0) < 40:
        miss.append("no HQ coefficient of 2^39 or more was compared")
    if c.get("max_abs_coefficient_bits_LD", 0) < 30:
        miss.append("no LD coefficient of 2^29 or more was compared")
    if c.get("compared_nonzero", 0) < 50000 * scale:
        miss.append("fewer than %d non-zero coefficients compared" % (50000 * scale))
    for t, need in (("plain->frag", 60), ("frag->plain", 60), ("frag->frag", 100), ("geometry_change_into_frag", 100),
                    ("geometry_change_into_plain", 100), ("geometry_change+plain->frag", 50), ("geometry_change+frag->plain", 50),
                    ("slices_up", 40), ("slices_down", 40), ("dh_up", 20), ("dh_down", 20), ("dh1->0_same_d", 25), ("dh0->1_same_d", 25),
                    ("d_up", 20), ("d_down", 20), ("wavelet_change", 40), ("matrix_change", 40)):
        if c.get("gen:mixed:" + t, 0) < need * scale:
            miss.append("mixed-parameter transition %s seen %d times (< %d)" % (t, c.get("gen:mixed:" + t, 0), need * scale))
    strata = [k for k in c if k.startswith("stratum:")]
    for must in ("LD/lossy/frag/sym", "LD/lossy/frag/asym", "LD/lossy/pic/sym", "LD/lossy/pic/asym", "HQ/lossy/frag/asym",
                 "HQ/lossless/pic/sym", "HQ/lossy/pic/asym", "HQ/lossless/frag/sym"):
        if not any(must in k for k in strata):
            miss.append("stratum %s never exercised" % must)
    if len(agg["sets"].get("wavelet_pairs", ())) < 25:
        miss.append("fewer than 25 wavelet pairs")
    return miss
