"""C24 — test case generation is deterministic and schedule-independent.

The one property with real concurrency (OS processes).  Monitors:
  * output trees (relative path -> sha256) of serial runs under different
    PYTHONHASHSEED values and of the emitted `--parallel` worker commands run as
    real concurrent subprocesses in random orders, k at a time, released together
    at a start barrier or with injected random start delays, each with its own
    hash seed;
  * per process, the set of paths opened for writing / directories created,
    recorded by a sys.addaudithook installed by a bootstrap before any
    repository code runs.
Oracle: all trees identical; every process exits 0; write sets of distinct
commands are pairwise disjoint.
"""
import hashlib
import json
import os
import random
import shutil
import subprocess
import sys
import tempfile
import time

from vlib import jsonx

PROPERTY = "C24"
LEVEL = "exploration"
TECHNIQUE = "runtime monitoring: real concurrent worker processes under sampled schedules with start barriers/delays and varied hash seeds; output-tree equality plus an audit-hook monitor of per-command write sets (pairwise disjointness)"
RULE = (
    "case = (codec configuration, list of schedules); per case one serial reference run (PYTHONHASHSEED=0), one serial run "
    "under another hash seed, and N schedules of the emitted --parallel commands; a schedule = (random order, concurrency k in "
    "{1,4,16}, release mode barrier|delays, per-process hash seed); an evaluation is one run (serial or schedule); distinct = "
    "distinct (configuration, schedule description); the reference run itself is trivial"
)
ASSUMPTIONS = [
    "natural pictures are replaced by the repository's tiny test images in every process, as tests/smaller_real_pictures.py does (DESIGN section 7 item 14)",
    "timing never decides anything: only exit statuses, file contents and recorded write sets do",
    "if no two commands ever write the same file and each command is a deterministic function of its pickled argument, every interleaving yields the same tree: the write-set monitor is what makes the sampled schedules representative",
]
CASE_TIMEOUT_S = 3000
SHARD_TIMEOUT_S = {"quick": 3000, "thorough": 6 * 3600}

PY = "/venv/bin/python"

BOOT = r'''
import sys, os, json, time, atexit
_LOG = os.environ.get("VERIF_AUDIT_LOG")
_MKD = float(os.environ.get("VERIF_MKDIR_DELAY", "0") or 0)
_w = []
def _hook(ev, args):
    try:
        if ev == "open":
            path, mode, flags = args
            if isinstance(path, (str, bytes)) and ((mode and any(c in mode for c in "wax+")) or
                    (isinstance(flags, int) and flags & (os.O_WRONLY | os.O_RDWR | os.O_CREAT))):
                _w.append(["open", os.fsdecode(path)])
        elif ev == "os.mkdir":
            _w.append(["mkdir", os.fsdecode(args[0])])
            if _MKD:
                # injected delay at the system-call boundary (the event fires before the mkdir itself): a process that
                # decided "directory missing" is held here while its siblings reach the same decision
                time.sleep(_MKD)
        elif ev in ("os.remove", "os.rename", "os.rmdir", "os.truncate", "shutil.move", "shutil.rmtree"):
            _w.append([ev, os.fsdecode(args[0])])
            if ev in ("os.rename", "shutil.move") and len(args) > 1:
                _w.append([ev + ":dst", os.fsdecode(args[1])])
    except Exception:
        pass
sys.addaudithook(_hook)
def _dump():
    if _LOG:
        with open(_LOG + ".tmp", "w") as f:
            f.write(json.dumps(_w))
        os.replace(_LOG + ".tmp", _LOG)
atexit.register(_dump)
from vc2_conformance_data import NATURAL_PICTURES_FILENAMES
_repo = os.environ["VERIF_REPO"]
del NATURAL_PICTURES_FILENAMES[:]
NATURAL_PICTURES_FILENAMES.extend(os.path.join(_repo, "tests", "test_images", f) for f in ("square.raw", "wide.raw", "tall.raw"))
import vc2_conformance.scripts.vc2_test_case_generator.cli as _cli
import vc2_conformance.scripts.vc2_test_case_generator.worker as _worker
import vc2_conformance.test_cases
_t = float(os.environ.get("VERIF_START_AT", "0") or 0)
if _t:
    d = _t - time.time()
    if d > 0:
        time.sleep(d)
'''

# configurations: columns of a generated codec-features CSV (derived from the repository's "minimal" sample)
ROWS = ["name", "level", "profile", "base_video_format", "picture_coding_mode", "frame_width", "frame_height",
        "color_diff_format_index", "source_sampling", "top_field_first", "frame_rate_numer", "frame_rate_denom",
        "pixel_aspect_ratio_numer", "pixel_aspect_ratio_denom", "clean_width", "clean_height", "left_offset", "top_offset",
        "luma_offset", "luma_excursion", "color_diff_offset", "color_diff_excursion", "color_primaries_index",
        "color_matrix_index", "transfer_function_index", "wavelet_index", "wavelet_index_ho", "dwt_depth", "dwt_depth_ho",
        "slices_x", "slices_y", "lossless", "picture_bytes", "fragment_slice_count", "quantization_matrix"]
MINIMAL = dict(level="unconstrained", profile="high_quality", base_video_format="hd1080p_50", picture_coding_mode="pictures_are_frames",
               frame_width="8", frame_height="4", color_diff_format_index="color_4_4_4", source_sampling="progressive",
               top_field_first="TRUE", frame_rate_numer="1", frame_rate_denom="1", pixel_aspect_ratio_numer="1",
               pixel_aspect_ratio_denom="1", clean_width="8", clean_height="4", left_offset="0", top_offset="0", luma_offset="0",
               luma_excursion="255", color_diff_offset="128", color_diff_excursion="255", color_primaries_index="hdtv",
               color_matrix_index="hdtv", transfer_function_index="tv_gamma", wavelet_index="haar_with_shift",
               wavelet_index_ho="haar_with_shift", dwt_depth="1", dwt_depth_ho="0", slices_x="2", slices_y="1", lossless="FALSE",
               picture_bytes="24", fragment_slice_count="0", quantization_matrix="default")
CONFIGS = {
    "minimal_hq": {},
    "ld_fragments": dict(profile="low_delay", slices_x="2", slices_y="2", fragment_slice_count="2", picture_bytes="40"),
    "lossless": dict(lossless="TRUE", picture_bytes=""),
    "fields": dict(picture_coding_mode="pictures_are_fields", frame_height="8", clean_height="8"),
    "asym_custom_matrix": dict(dwt_depth="1", dwt_depth_ho="1", wavelet_index_ho="le_gall_5_3", quantization_matrix="0 1 2 3 4"),
    "asym_custom_matrix_ho2": dict(dwt_depth="1", dwt_depth_ho="1", wavelet_index_ho="haar_no_shift", quantization_matrix="0 1 2 3 4"),
    # 32x16: large enough for the signal-range (bit width) test patterns to exist
    "ho_pair_a": dict(frame_width="32", frame_height="16", clean_width="32", clean_height="16", wavelet_index="haar_no_shift",
                      wavelet_index_ho="haar_no_shift", quantization_matrix="4 2 2 0", picture_bytes="256"),
    "ho_pair_b": dict(frame_width="32", frame_height="16", clean_width="32", clean_height="16", wavelet_index="haar_no_shift",
                      wavelet_index_ho="le_gall_5_3", quantization_matrix="4 2 2 0", picture_bytes="256"),
    "ten_bit_422": dict(color_diff_format_index="color_4_2_2", luma_excursion="1023", color_diff_excursion="1023", color_diff_offset="512"),
    "hq_fragments": dict(fragment_slice_count="1"),
    "ld_plain": dict(profile="low_delay", picture_bytes="32"),
    # a custom matrix for a transform that also has a default one (generators that switch between the two run)
    "custom_matrix_with_default": dict(quantization_matrix="2 3 3 5", picture_bytes="40"),
}
QUICK_CONFIGS = ["minimal_hq", "ld_fragments", "custom_matrix_with_default"]


def csv_text(names):
    cols = []
    for n in names:
        c = dict(MINIMAL)
        c.update(CONFIGS[n])
        c["name"] = n
        cols.append(c)
    return "\n".join(",".join([row] + [c[row] for c in cols]) for row in ROWS) + "\n"


# configuration *sets* (several columns in one CSV): names that are distinct but differ only in punctuation/spacing/case
CONFIG_SETS = {
    "similar_names": [("cam A: 8x4 10 bit", "minimal_hq"), ("cam_A_8x4_10_bit", "ld_plain")],
    # two columns that differ in ONE attribute only (the horizontal-only wavelet; same custom matrix): whatever the
    # serial run memoises per configuration under too coarse a key differs from the fresh worker processes
    "ho_pair": [("ho_a", "ho_pair_a"), ("ho_b", "ho_pair_b")],
}


def plan(tier, seed):
    shards = []
    if tier == "quick":
        i = 0
        shards.append({"shard": 100, "config": "set:similar_names", "group": 0, "schedules": 1, "hashseed_runs": 0})
        shards.append({"shard": 101, "config": "set:ho_pair", "group": 0, "schedules": 1, "hashseed_runs": 0})
        shards.append({"shard": 102, "config": "probe:make_sequence", "group": 0, "schedules": 7, "hashseed_runs": 0})
        for cfg in QUICK_CONFIGS:
            for g in range(3 if cfg == "custom_matrix_with_default" else 4):
                shards.append({"shard": i, "config": cfg, "group": g, "schedules": 2, "hashseed_runs": 1 if g == 0 else 0})
                i += 1
    else:
        i = 0
        shards.append({"shard": 1200, "config": "probe:make_sequence", "group": 0, "schedules": 40, "hashseed_runs": 0})
        for g in range(3):
            shards.append({"shard": 1000 + g, "config": "set:similar_names", "group": g, "schedules": 5, "hashseed_runs": 1 if g == 0 else 0})
            shards.append({"shard": 1100 + g, "config": "set:ho_pair", "group": g, "schedules": 5, "hashseed_runs": 1 if g == 0 else 0})
        for cfg in sorted(c for c in CONFIGS if not c.startswith("ho_pair_")):
            for g in range(6):
                shards.append({"shard": i, "config": cfg, "group": g, "schedules": 5, "hashseed_runs": 1 if g < 3 else 0})
                i += 1
    return shards


def cases(spec, ctx):
    rng = ctx.rng
    if spec["config"] == "probe:make_sequence":
        yield {"config": spec["config"], "hashseeds": [0] + [rng.randrange(1, 1 << 31) for _ in range(spec["schedules"])]}
        return
    scheds = []
    for s in range(spec["schedules"]):
        scheds.append({"order_seed": rng.randrange(1 << 30), "k": rng.choice([1, 4, 16, 16]),
                       "release": rng.choice(["barrier", "barrier", "delays"]), "hashseed_base": rng.randrange(1, 1 << 20)})
    yield {"config": spec["config"], "schedules": scheds,
           "serial_hashseeds": [rng.randrange(1, 1 << 31) for _ in range(spec["hashseed_runs"])]}


def _env(extra):
    e = dict(os.environ)
    e.update(extra)
    e["PYTHONDONTWRITEBYTECODE"] = "1"
    return e


def tree_hashes(root):
    out = {}
    for dp, dn, fn in os.walk(root):
        for f in fn:
            p = os.path.join(dp, f)
            with open(p, "rb") as fh:
                out[os.path.relpath(p, root)] = hashlib.sha256(fh.read()).hexdigest()
        if not dn and not fn:
            out[os.path.relpath(dp, root) + "/"] = "empty-dir"
    return out


def run_py(code, env, timeout=1500):
    p = subprocess.run([PY, "-c", BOOT + code], env=env, capture_output=True, text=True, timeout=timeout)
    return p


def diff_trees(a, b):
    keys = sorted(set(a) | set(b))
    return [k for k in keys if a.get(k) != b.get(k)]


PROBE = r'''
import sys, json
from io import StringIO
from vc2_conformance.codec_features import read_codec_features_csv
from vc2_conformance.encoder import make_sequence
from vc2_conformance.picture_generators import mid_gray
cf = read_codec_features_csv(StringIO(sys.argv[1]))["probe"]
pics = list(mid_gray(cf["video_parameters"], cf["picture_coding_mode"]))
out = []
for npics, patterns in json.loads(sys.argv[2]):
    try:
        seq = make_sequence(cf, pics[:1] * npics, *patterns)
        out.append([du["parse_info"]["parse_code"].name for du in seq["data_units"]])
    except Exception as e:
        out.append(type(e).__name__)
print(json.dumps(out))
'''
# data-unit patterns (as the padding_data / repeated header generators pass them) that leave the search free choices
# between equally short completions: which one is taken must not depend on the process
PROBE_PATTERNS = [
    [1, ["sequence_header high_quality_picture (auxiliary_data padding_data | end_of_sequence sequence_header | . padding_data padding_data padding_data) end_of_sequence $"]],
    [2, ["sequence_header (high_quality_picture (auxiliary_data | padding_data | sequence_header))* end_of_sequence"]],
    [1, ["sequence_header . high_quality_picture . end_of_sequence"]],
    [1, ["sequence_header (auxiliary_data | padding_data | .) (padding_data | auxiliary_data) high_quality_picture end_of_sequence"]],
    [0, ["sequence_header (auxiliary_data | padding_data) .* end_of_sequence"]],
    [2, ["(sequence_header | auxiliary_data | padding_data)* high_quality_picture . high_quality_picture (auxiliary_data | .) end_of_sequence"]],
]


def _run_probe(case, ctx):
    """the same make_sequence() calls in fresh processes under several hash seeds: one answer"""
    import json as _json

    repo = os.environ.get("VERIF_REPO", "/repo")
    results = {}
    for hs in case["hashseeds"]:
        p = subprocess.run([PY, "-c", PROBE, csv_text(["minimal_hq"]).replace("minimal_hq", "probe"), _json.dumps(PROBE_PATTERNS)],
                           env=_env({"VERIF_REPO": repo, "PYTHONHASHSEED": str(hs), "PYTHONPATH": repo}), capture_output=True, text=True, timeout=900)
        ctx.count("probe_processes")
        if p.returncode != 0:
            ctx.violation("process-failed:probe", "make_sequence probe failed under PYTHONHASHSEED=%s: %s" % (hs, p.stderr[-600:]))
            return
        results[hs] = p.stdout.strip()
    ctx.count("probe_sequences_compared", len(PROBE_PATTERNS) * len(results))
    ctx.seen(jsonx.key_hash(["probe", case["hashseeds"]]))
    distinct = sorted(set(results.values()))
    if len(distinct) > 1:
        a, b = [k for k, v in results.items() if v == distinct[0]][0], [k for k, v in results.items() if v == distinct[1]][0]
        ra, rb = _json.loads(results[a]), _json.loads(results[b])
        i = [x != y for x, y in zip(ra, rb)].index(True)
        ctx.violation("hashseed-differs:make_sequence",
                      "make_sequence with data-unit pattern %r gives %r under PYTHONHASHSEED=%s and %r under %s" % (PROBE_PATTERNS[i][1], ra[i], a, rb[i], b))


def run_case(case, ctx):
    cfg = case["config"]
    if cfg == "probe:make_sequence":
        return _run_probe(case, ctx)
    work = tempfile.mkdtemp(prefix="c24-", dir=os.path.join(os.environ.get("VERIF_HOME", "/verif"), ".work"))
    try:
        _run(case, cfg, work, ctx)
    finally:
        shutil.rmtree(work, ignore_errors=True)


def _run(case, cfg, work, ctx):
    repo = os.environ.get("VERIF_REPO", "/repo")
    csvp = os.path.join(work, "features.csv")
    with open(csvp, "w") as f:
        if cfg.startswith("set:"):
            cols = []
            for nm, basecfg in CONFIG_SETS[cfg[4:]]:
                c = dict(MINIMAL)
                c.update(CONFIGS[basecfg])
                c["name"] = nm
                cols.append(c)
            f.write("\n".join(",".join([row] + ['"%s"' % c[row] if "," in c[row] or " " in c[row] else c[row] for c in cols]) for row in ROWS) + "\n")
        else:
            f.write(csv_text([cfg]))
    base_env = {"VERIF_REPO": repo}

    def serial(tag, hashseed):
        out = os.path.join(work, tag)
        log = os.path.join(work, tag + ".audit.json")
        p = run_py("sys.exit(_cli.main([%r, '-o', %r]))" % (csvp, out), _env(dict(base_env, PYTHONHASHSEED=str(hashseed), VERIF_AUDIT_LOG=log)))
        return p, out

    # ---- reference: serial, hash seed 0
    p, ref_out = serial("serial0", 0)
    ctx.seen(jsonx.key_hash([cfg, "serial", 0]), nontrivial=False)
    if p.returncode != 0:
        ctx.violation("process-failed:serial", "serial vc2-test-case-generator run failed (exit %s) for %s: %s" % (p.returncode, cfg, p.stderr[-800:]))
        return
    ref = tree_hashes(ref_out)
    ctx.count("files_in_reference_tree", len(ref))
    if len(ref) < 20:
        ctx.inconclusive_note("reference tree has only %d files" % len(ref))
        return
    # ---- serial under other hash seeds
    for hs in case["serial_hashseeds"]:
        p, out = serial("serial_%d" % hs, hs)
        ctx.seen(jsonx.key_hash([cfg, "serial", hs]))
        ctx.count("serial_hashseed_runs")
        ctx.note("hash_seeds", hs % 1000)
        if p.returncode != 0:
            ctx.violation("process-failed:serial", "serial run under PYTHONHASHSEED=%d failed: %s" % (hs, p.stderr[-800:]))
            continue
        t = tree_hashes(out)
        d = diff_trees(ref, t)
        ctx.count("files_compared", len(ref))
        if d:
            ctx.violation("nondeterministic-across-hash-seeds:" + _family(d[0]),
                          "%d file(s) differ between PYTHONHASHSEED=0 and %d, e.g. %s" % (len(d), hs, d[:4]))
        shutil.rmtree(out, ignore_errors=True)
    # ---- parallel schedules
    for si, sch in enumerate(case["schedules"]):
        tag = "par%d" % si
        out = os.path.join(work, tag)
        p = run_py("sys.exit(_cli.main([%r, '-o', %r, '--parallel']))" % (csvp, out),
                   _env(dict(base_env, PYTHONHASHSEED=str(sch["hashseed_base"]))))
        if p.returncode != 0:
            ctx.violation("process-failed:emit", "--parallel emission failed: %s" % p.stderr[-800:])
            continue
        cmds = [l.split(" ", 1)[1].strip() for l in p.stdout.strip().splitlines() if l.startswith("vc2-test-case-generator-worker ")]
        if not cmds:
            ctx.violation("no-parallel-commands", "--parallel emitted no worker commands")
            continue
        ctx.count("commands", len(cmds))
        rng = random.Random(sch["order_seed"])
        order = list(range(len(cmds)))
        rng.shuffle(order)
        k = sch["k"]
        results = {}
        pos = 0
        sched_desc = {"order": order, "k": k, "release": sch["release"], "delays_ms": []}
        while pos < len(order):
            batch = order[pos:pos + k]
            pos += k
            start_at = time.time() + (2.5 + 0.15 * len(batch) if sch["release"] == "barrier" else 0)
            procs = []
            for ci in batch:
                log = os.path.join(work, "%s.w%d.audit.json" % (tag, ci))
                extra = dict(base_env, PYTHONHASHSEED=str(sch["hashseed_base"] + ci + 1), VERIF_AUDIT_LOG=log)
                if sch["release"] == "barrier":
                    extra["VERIF_START_AT"] = repr(start_at)
                    extra["VERIF_MKDIR_DELAY"] = "0.3"
                else:
                    dl = rng.randrange(0, 200)
                    sched_desc["delays_ms"].append(dl)
                    time.sleep(dl / 1000.0)
                pr = subprocess.Popen([PY, "-c", BOOT + "_worker.main([%r])" % cmds[ci]], env=_env(extra),
                                      stdout=subprocess.DEVNULL, stderr=subprocess.PIPE, text=True)
                procs.append((ci, pr, log))
            for ci, pr, log in procs:
                try:
                    _, err = pr.communicate(timeout=1500)
                except subprocess.TimeoutExpired:
                    pr.kill()
                    err = "timeout"
                results[ci] = (pr.returncode, err, log)
        ctx.seen(jsonx.key_hash([cfg, "schedule", sched_desc]))
        ctx.count("schedules_run")
        ctx.count("schedules_k%d_%s" % (k, sch["release"]))
        ctx.count("worker_processes", len(results))
        failed = [(ci, rc, err) for ci, (rc, err, _) in results.items() if rc != 0]
        if failed:
            ci, rc, err = failed[0]
            ctx.violation("process-failed:worker", "%d of %d worker commands failed under schedule k=%d/%s (first: command %d exit %s: %s)"
                          % (len(failed), len(cmds), k, sch["release"], ci, rc, (err or "")[-600:]), detail=sched_desc)
        # write sets
        writers = {}
        mkdirs = {}
        missing_logs = 0
        for ci, (rc, err, log) in results.items():
            if not os.path.exists(log):
                missing_logs += 1
                continue
            with open(log) as f:
                evs = json.load(f)
            for kind, path in evs:
                path = os.path.abspath(path)
                if not path.startswith(out + os.sep) and path != out:
                    if kind != "mkdir" and not path.startswith(("/dev/", "/proc/")) and not path.endswith(".audit.json.tmp"):
                        ctx.note("writes_outside_output_dir", os.path.basename(path)[:40])
                    continue
                rel = os.path.relpath(path, out)
                if kind == "mkdir":
                    mkdirs.setdefault(rel, set()).add(ci)
                else:
                    writers.setdefault(rel, set()).add(ci)
        if missing_logs and not failed:
            ctx.inconclusive_note("%d audit logs missing" % missing_logs)
        ctx.count("audit_write_events_files", len(writers))
        multi = {p_: sorted(w) for p_, w in writers.items() if len(w) > 1}
        ctx.count("files_written_by_more_than_one_command", len(multi))
        ctx.count("dirs_created_by_more_than_one_command", sum(1 for w in mkdirs.values() if len(w) > 1))
        if multi:
            ex = sorted(multi.items())[:3]
            ctx.violation("overlapping-writes:" + _family(ex[0][0]),
                          "%d file(s) are written by more than one worker command, e.g. %r" % (len(multi), ex), detail=sched_desc)
        t = tree_hashes(out)
        d = diff_trees(ref, t)
        ctx.count("files_compared", len(ref))
        if d and not failed:
            ctx.violation("parallel-differs-from-serial:" + _family(d[0]),
                          "%d file(s) differ between the serial run and schedule k=%d/%s, e.g. %s" % (len(d), k, sch["release"], d[:4]),
                          detail=sched_desc)
        if len(ctx.samples) < 2:
            ctx.sample({"config": cfg, "schedule": {"order": order[:12] + ["..."], "k": k, "release": sch["release"],
                                                   "delays_ms": sched_desc["delays_ms"][:8]}, "commands": len(cmds), "files": len(t)})
        shutil.rmtree(out, ignore_errors=True)
        for ci, (rc, err, log) in results.items():
            try:
                os.remove(log)
            except OSError:
                pass


def _family(relpath):
    """mechanism-level name of a file: extension + whether it is a bitstream / picture / metadata"""
    b = os.path.basename(relpath.rstrip("/"))
    if b.endswith(".vc2"):
        return "bitstream"
    if b.endswith(".raw"):
        return "picture-raw"
    if b.endswith("_metadata.json"):
        return "test-case-metadata"
    if b.endswith(".json"):
        return "picture-json"
    return "other"


def floor(agg, tier):
    c = agg["counters"]
    miss = []
    s = 1 if tier == "quick" else 12
    if c.get("schedules_run", 0) < 12 * s:
        miss.append("fewer than %d parallel schedules run (%d)" % (12 * s, c.get("schedules_run", 0)))
    if c.get("serial_hashseed_runs", 0) < 2 * s:
        miss.append("fewer than %d serial runs under other hash seeds" % (2 * s))
    if c.get("audit_write_events_files", 0) < 2000 * s:
        miss.append("audit hook recorded too few written files (%d)" % c.get("audit_write_events_files", 0))
    if c.get("worker_processes", 0) < 300 * s:
        miss.append("fewer than %d worker processes observed" % (300 * s))
    if c.get("files_compared", 0) < 4000 * s:
        miss.append("too few files compared")
    return miss
