"""C09 — every picture the reference decoder outputs is well-formed.

Monitor: the `_output_picture_callback` of the real validator/decoder on
conformant stream variants whose slice payloads were re-packed with extreme
coefficient magnitudes and quantisation indices.  The oracle knows only the
recipe (component dimensions and depths by the rule of 11.6.2/11.6.3, written
in vlib.gen.configs without the repository) and an independent reading of the
coded picture numbers (R-framing).
"""
from vlib import jsonx, vc2util
from vlib.gen import configs, streams

PROPERTY = "C09"
LEVEL = "exploration"
TECHNIQUE = ("runtime monitoring: output-picture callback invariant (dimensions, sample type and range, picture number, "
             "callback count) on conformant stream variants with extreme re-packed coefficients; independent framing reader")
RULE = (
    "case = 1-2 configuration recipes (both profiles, pictures/fragments, all wavelet pairs, transform depths 0-3 x 0-3, 4:4:4/4:2:2/"
    "4:2:0, frames/fields, 1-16 bit asymmetric luma/chroma depths and, in 15% of recipes, 17-48 bit custom signal ranges with excursion "
    "exactly 2^k-1 (k=29,31,39,47 favoured) or deep non-powers of two, odd component sizes; the output callback is registered as a plain "
    "function or as a callable object whose truth value is False (empty list subclass, __bool__ False)) + stream variations (30% of cases mix the "
    "pictures of 2-3 sibling recipes with different slice counts/depths/wavelets/fragment sizes into one sequence), 90% with re-packed "
    "payloads biased to magnitude classes 2^20 and 2^40 and qindex 0 / maximum (127 LD, 255 HQ) so that both clip bounds are "
    "reached; distinct = distinct (recipes, variation, seed) hash; cases the encoder rejects are trivial"
)
ASSUMPTIONS = [
    "streams are conformant by construction and confirmed by the validator; a variant the validator rejects is reported under "
    "its own signature (variant-rejected) instead of being skipped",
    "expected component width/height/depth come from the recipe via vlib.gen.configs.dims_and_depths (11.6.2, 11.6.3), the "
    "picture of a sequence is matched to its recipe by the position of the sequence in the stream",
    "the output callback is any callable registered in state['_output_picture_callback']; callable objects that evaluate as False "
    "(an empty list subclass with __call__, an object with __bool__ False) are registered in half of the cases",
    "signal ranges deeper than 16 bits are used with mid-grey input only (DESIGN section 7 item 5 keeps lossy rate control within "
    "16 bits; mid-grey gives all-zero coefficients before re-packing, so every profile encodes it)",
    "'integer' is read as exactly the built-in int (type(x) is int): bool, numpy integers and floats are reported",
    "clip-bound hits are counted as samples equal to 0 and to 2^depth-1 per component; nothing is claimed about *which* samples "
    "must clip (that would need an independent inverse transform, which is C11/C05's subject)",
]
CASE_TIMEOUT_S = 180
STEP_BUDGET = 2000000000

N_QUICK = 2400
N_THOROUGH = 96000


def plan(tier, seed):
    n = N_QUICK if tier == "quick" else N_THOROUGH
    nsh = 16 if tier == "quick" else 64
    return [{"shard": i, "n": n // nsh} for i in range(nsh)]


CALLBACK_KINDS = ("function", "function", "empty_list_subclass", "bool_false_object")


def cases(spec, ctx):
    for i in range(spec["n"]):
        case = streams.random_case(ctx.rng, emphasis=ctx.rng.choice(["clip", "clip", "clip", None]), p_deep=0.15)
        case["cb"] = ctx.rng.choice(CALLBACK_KINDS)
        yield case


class ListCollector(list):
    """a callable that is also an (always empty, hence falsy) list: hands the pictures to another list"""

    def __init__(self, sink):
        list.__init__(self)
        self.sink = sink

    def __call__(self, picture, video_parameters, picture_coding_mode):
        self.sink.append((picture, video_parameters, picture_coding_mode))


class FalseCollector(object):
    """a callable whose truth value is False"""

    def __init__(self, sink):
        self.sink = sink

    def __bool__(self):
        return False

    def __call__(self, picture, video_parameters, picture_coding_mode):
        self.sink.append((picture, video_parameters, picture_coding_mode))


def validate(data, cb_kind):
    """vc2util.validate with a chosen kind of registered callback object (pictures kept without copying)"""
    import sys
    import traceback
    from io import BytesIO

    from vc2_conformance.decoder import ConformanceError, init_io, parse_stream
    from vc2_conformance.pseudocode.state import State

    v = vc2util.Verdict()
    sink = v.pictures
    if cb_kind == "empty_list_subclass":
        cb = ListCollector(sink)
    elif cb_kind == "bool_false_object":
        cb = FalseCollector(sink)
    else:
        def cb(picture, video_parameters, picture_coding_mode):
            sink.append((picture, video_parameters, picture_coding_mode))
    state = State(_output_picture_callback=cb)
    v.state = state
    init_io(state, BytesIO(data))
    try:
        parse_stream(state)
        v.kind = "ok"
    except ConformanceError as e:
        v.kind, v.exc, v.exc_class, v.site = "ce", e, type(e).__name__, vc2util._site(sys.exc_info()[2])
    except Exception as e:
        v.kind, v.exc, v.exc_class, v.site = "crash", e, type(e).__name__, vc2util._site(sys.exc_info()[2])
        v.tb = traceback.format_exc()[-3000:]
    return v


def coded_pictures(data):
    """R-framing: per sequence, the coded picture numbers in output order -> ([[num, ...], ...], picture units, fragmented pictures).
    A fragmented picture is counted at its first fragment (slice count 0); in an accepted stream it is complete before the
    next picture, first fragment or end of sequence, so completion order equals start order."""
    units = vc2util.framing(data)
    seqs = [[]]
    n_pic_units = n_frag_pics = 0
    for u in units:
        if u.parse_code in vc2util.PICTURE_CODES:
            seqs[-1].append(u.picture_number)
            n_pic_units += 1
        elif u.parse_code in vc2util.FRAGMENT_CODES and u.frag_slice_count == 0:
            seqs[-1].append(u.picture_number)
            n_frag_pics += 1
        elif u.parse_code == vc2util.PC_END_OF_SEQUENCE:
            seqs.append([])
    if not seqs[-1]:
        seqs.pop()
    return seqs, n_pic_units, n_frag_pics


def run_case(case, ctx):
    key = jsonx.key_hash(case)
    try:
        v = streams.build(case)
    except streams.Rejected:
        ctx.count("encoder_rejected_cases")
        ctx.seen(key, nontrivial=False)
        return
    except Exception as e:
        import sys
        import traceback

        ctx.violation("generator-failed:%s@%s" % (type(e).__name__, (vc2util._site(sys.exc_info()[2]) or "verif").rsplit(":", 1)[0]),
                      "building/serialising the variant raised %r" % (e,), detail=traceback.format_exc()[-2500:])
        ctx.seen(key)
        return
    ctx.seen(key)
    data = v.data
    # pictures are fresh objects per callback (state["current_picture"] is re-created), no copy needed
    cb_kind = case.get("cb", "function")
    verdict = validate(data, cb_kind)
    if verdict.kind != "ok":
        ctx.violation("variant-rejected:%s" % verdict.exc_class,
                      "validator did not accept a conformant variant (%s at %s); applied=%s" % (verdict.exc_class, verdict.site, sorted(v.applied)),
                      detail=verdict.tb or _explain(verdict.exc))
        return
    ctx.count("accepted")
    try:
        coded, n_pic_units, n_frag_pics = coded_pictures(data)
    except ValueError as e:
        ctx.violation("framing-broken", "independent parse_info walk failed: %s" % e)
        return
    out = verdict.pictures
    ctx.count("callbacks", len(out))
    ctx.count("callbacks_via:" + cb_kind, len(out))
    ctx.count("cases_via:" + cb_kind)
    ctx.count("picture_units", n_pic_units)
    ctx.count("fragmented_pictures", n_frag_pics)
    if len(out) != n_pic_units + n_frag_pics:
        ctx.violation("callback-count:" + ("more" if len(out) > n_pic_units + n_frag_pics else "fewer" if out else "none"),
                      "%d callbacks for %d picture units + %d completed fragmented pictures (callback registered as %s); applied=%s"
                      % (len(out), n_pic_units, n_frag_pics, cb_kind, sorted(v.applied)))
        return
    if len(coded) != len(v.seqs):
        ctx.violation("sequence-count", "framing finds %d sequences with pictures, generator emitted %d" % (len(coded), len(v.seqs)))
        return
    # identity: every callback must hand over its own picture object
    if len(set(id(p[0]) for p in out)) != len(out):
        ctx.inconclusive_note("the same picture object was passed to two callbacks: pictures were kept without copying, cannot judge")
        return
    i = 0
    ok = True
    for si, (nums, sq) in enumerate(zip(coded, v.seqs)):
        recipe = sq["recipe"]
        dd = configs.recipe_dims(recipe, sq["cf"]["video_parameters"])
        strat = configs.stratum(recipe)
        prs = sq.get("picture_recipes") or []
        for j, num in enumerate(nums):
            pic = out[i][0]
            i += 1
            if not check_picture(pic, num, dd, strat, ctx):
                ok = False
                break
            ctx.count("pictures_checked")
            pr = prs[j] if j < len(prs) else recipe  # with mixed_params every picture has its own transform parameters
            ctx.count("pictures:" + ("fragmented" if pr["fsc"] else "unfragmented"))
            ctx.count("pictures:" + ("LD" if recipe["profile"] == 0 else "HQ"))
            ctx.count("pictures:" + ("fields" if recipe["pcm"] else "frames"))
        if not ok:
            break
        ctx.count("stratum:" + strat)
        ctx.note("wavelet_pairs", "%d/%d" % (recipe["wi"], recipe["wih"]))
        ctx.note("depth_pairs", "%d/%d" % (recipe["d"], recipe["dh"]))
        ctx.note("bit_depths", "%d/%d" % (dd["Y"][2], dd["C1"][2]))
        if dd["Y"][2] > 16:
            ctx.count("deep_sequences:luma")
            ctx.count("deep_luma_bits:%d" % dd["Y"][2])
            if recipe["range"][1] == (1 << dd["Y"][2]) - 1:
                ctx.count("deep_luma_full_range_bits:%d" % dd["Y"][2])
        if dd["C1"][2] > 16:
            ctx.count("deep_sequences:chroma")
            ctx.count("deep_chroma_bits:%d" % dd["C1"][2])
            if recipe["range"][3] == (1 << dd["C1"][2]) - 1:
                ctx.count("deep_chroma_full_range_bits:%d" % dd["C1"][2])
        ctx.note("luma_sizes", "%dx%d" % (dd["Y"][0], dd["Y"][1]))
        if dd["Y"][0] % 2 or dd["Y"][1] % 2 or dd["C1"][0] % 2 or dd["C1"][1] % 2:
            ctx.count("sequences_with_odd_component_size")
    if not ok:
        return
    ctx.count("checked_cases")
    for a in v.applied:
        ctx.count("variation:" + a)
    for k, n in v.stats.items():
        if k != "max_scaler_seen":
            ctx.count("gen:" + k, n)
    if ctx.rng.random() < 0.002:
        ctx.sample({"case": case, "applied": sorted(v.applied), "bytes": len(data), "pictures": len(out)})


def check_picture(pic, coded_number, dd, strat, ctx):
    if set(pic) != {"Y", "C1", "C2", "pic_num"}:
        ctx.violation("picture-keys", "callback picture has keys %r" % sorted(pic))
        return False
    pn = pic["pic_num"]
    if type(pn) is not int or pn != coded_number:
        ctx.violation("picture-number" if type(pn) is int else "picture-number-type",
                      "callback pic_num %r (%s), coded number %r (%s)" % (pn, type(pn).__name__, coded_number, strat))
        return False
    for c in ("Y", "C1", "C2"):
        w, h, depth = dd[c]
        comp = pic[c]
        if len(comp) != h:
            ctx.violation("dimensions:height:" + ("luma" if c == "Y" else "chroma"),
                          "component %s has %d rows, expected %d (%s)" % (c, len(comp), h, strat))
            return False
        mx = (1 << depth) - 1
        lo = hi = 0
        for row in comp:
            if len(row) != w:
                ctx.violation("dimensions:width:" + ("luma" if c == "Y" else "chroma"),
                              "component %s has a row of %d samples, expected %d (%s)" % (c, len(row), w, strat))
                return False
            for x in row:
                if type(x) is not int:
                    ctx.violation("sample-type:" + type(x).__name__, "component %s holds a %s sample %r (%s)" % (c, type(x).__name__, x, strat))
                    return False
                if x <= 0:
                    if x < 0:
                        ctx.violation("sample-below-zero:" + ("luma" if c == "Y" else "chroma"),
                                      "component %s sample %d < 0 (depth %d, %s)" % (c, x, depth, strat))
                        return False
                    lo += 1
                if x >= mx:
                    if x > mx:
                        ctx.violation("sample-above-max:" + ("luma" if c == "Y" else "chroma"),
                                      "component %s sample %d > %d (depth %d, %s)" % (c, x, mx, depth, strat))
                        return False
                    hi += 1
        ctx.count("samples:" + c, w * h)
        ctx.count("clip_low_hits:" + c, lo)
        ctx.count("clip_high_hits:" + c, hi)
        if lo and hi:
            ctx.count("components_hitting_both_bounds:" + c)
        if depth > 16:
            ctx.count("deep_samples:" + ("luma" if c == "Y" else "chroma"), w * h)
            ctx.count("deep_clip_low_hits:" + ("luma" if c == "Y" else "chroma"), lo)
            ctx.count("deep_clip_high_hits:" + ("luma" if c == "Y" else "chroma"), hi)
            ctx.count("deep_interior_samples:" + ("luma" if c == "Y" else "chroma"), w * h - lo - hi)
        if depth > 1:
            # at depth 1 every sample is a bound; keep a separate count where hitting a bound is informative
            ctx.count("clip_low_hits_depth>1:" + c, lo)
            ctx.count("clip_high_hits_depth>1:" + c, hi)
    return True


def evidence_extra(agg, tier):
    c = agg["counters"]
    out = {"clip_bound_hits": {}, "callback_accounting": {
        "callbacks": c.get("callbacks", 0), "picture_units": c.get("picture_units", 0),
        "completed_fragmented_pictures": c.get("fragmented_pictures", 0)}}
    for comp in ("Y", "C1", "C2"):
        out["clip_bound_hits"][comp] = {
            "samples": c.get("samples:" + comp, 0),
            "at_0": c.get("clip_low_hits:" + comp, 0), "at_max": c.get("clip_high_hits:" + comp, 0),
            "at_0_depth>1": c.get("clip_low_hits_depth>1:" + comp, 0), "at_max_depth>1": c.get("clip_high_hits_depth>1:" + comp, 0),
            "components_with_both": c.get("components_hitting_both_bounds:" + comp, 0)}
    out["deep_depths"] = {k: v for k, v in c.items() if k.startswith("deep_")}
    out["callback_object_kinds"] = {k: v for k, v in c.items() if k.startswith("cases_via:") or k.startswith("callbacks_via:")}
    out["mixed_parameter_transitions"] = {k.split(":", 2)[2]: v for k, v in c.items() if k.startswith("gen:mixed:")}
    out["magnitude_classes"] = {k.split(":", 1)[1]: v for k, v in c.items() if k.startswith("variation:repack:")}
    return out


def _explain(e):
    try:
        return e.explain()
    except Exception as e2:
        return "explain() failed: %r" % (e2,)


def floor(agg, tier):
    c = agg["counters"]
    miss = []
    scale = 1 if tier == "quick" else 20
    if c.get("checked_cases", 0) < 1200 * scale:
        miss.append("fewer than %d cases checked (%d)" % (1200 * scale, c.get("checked_cases", 0)))
    if c.get("callbacks", 0) < 2000 * scale or c.get("pictures_checked", 0) < 0.98 * c.get("callbacks", 0):
        miss.append("callbacks observed (%d) too few or not all checked (%d)" % (c.get("callbacks", 0), c.get("pictures_checked", 0)))
    for k in ("pictures:fragmented", "pictures:unfragmented", "pictures:LD", "pictures:HQ", "pictures:fields", "pictures:frames"):
        if c.get(k, 0) < 500 * scale:
            miss.append("%s: %d < %d" % (k, c.get(k, 0), 500 * scale))
    for comp in ("Y", "C1", "C2"):
        for b in ("low", "high"):
            k = "clip_%s_hits_depth>1:%s" % (b, comp)
            if c.get(k, 0) < 5000 * scale:
                miss.append("%s: %d < %d samples at the bound" % (k, c.get(k, 0), 5000 * scale))
        if c.get("components_hitting_both_bounds:" + comp, 0) < 300 * scale:
            miss.append("fewer than %d %s components reached both clip bounds" % (300 * scale, comp))
    for t, need in (("plain->frag", 60), ("frag->plain", 60), ("frag->frag", 100), ("geometry_change_into_frag", 100),
                    ("geometry_change_into_plain", 100), ("geometry_change+plain->frag", 50), ("geometry_change+frag->plain", 50),
                    ("slices_up", 40), ("slices_down", 40), ("dh_up", 20), ("dh_down", 20), ("dh1->0_same_d", 25), ("dh0->1_same_d", 25),
                    ("d_up", 20), ("d_down", 20)):
        if c.get("gen:mixed:" + t, 0) < need * scale:
            miss.append("mixed-parameter transition %s seen %d times (< %d)" % (t, c.get("gen:mixed:" + t, 0), need * scale))
    for comp in ("luma", "chroma"):
        if c.get("deep_sequences:" + comp, 0) < 100 * scale:
            miss.append("fewer than %d sequences with %s deeper than 16 bits (%d)" % (100 * scale, comp, c.get("deep_sequences:" + comp, 0)))
        for k in (29, 31, 39, 47):
            if c.get("deep_%s_full_range_bits:%d" % (comp, k), 0) < 5 * scale:
                miss.append("fewer than %d sequences with %s excursion exactly 2^%d-1" % (5 * scale, comp, k))
        for what in ("deep_clip_low_hits", "deep_clip_high_hits", "deep_interior_samples"):
            if c.get("%s:%s" % (what, comp), 0) < 500 * scale:
                miss.append("%s:%s %d < %d" % (what, comp, c.get("%s:%s" % (what, comp), 0), 500 * scale))
    for kind in ("function", "empty_list_subclass", "bool_false_object"):
        if c.get("cases_via:" + kind, 0) < 250 * scale or c.get("callbacks_via:" + kind, 0) < 400 * scale:
            miss.append("callback registered as %s: %d cases, %d callbacks" % (kind, c.get("cases_via:" + kind, 0), c.get("callbacks_via:" + kind, 0)))
    for name in ("mixed_params", "repack:2^20", "repack:2^40", "repack:2000", "dangling", "npo_zero", "multi_seq", "pad_units", "rep_seq_header",
                 "scaler_raised", "ld_ylen:random"):
        if c.get("variation:" + name, 0) < 30 * scale:
            miss.append("variation %s exercised %d times" % (name, c.get("variation:" + name, 0)))
    if c.get("gen:inserted_between_fragments", 0) < 50 * scale:
        miss.append("fewer than %d units inserted between the fragments of a picture" % (50 * scale))
    if c.get("sequences_with_odd_component_size", 0) < 200 * scale:
        miss.append("fewer than %d sequences with an odd component dimension" % (200 * scale))
    if len(agg["sets"].get("bit_depths", ())) < 60:
        miss.append("fewer than 60 luma/chroma depth pairs")
    if len(agg["sets"].get("wavelet_pairs", ())) < 30:
        miss.append("fewer than 30 wavelet pairs")
    if len(agg["sets"].get("depth_pairs", ())) < 12:
        miss.append("fewer than 12 transform depth pairs")
    return miss
