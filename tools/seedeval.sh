#!/bin/sh
# usage: tools/seedeval.sh <seeded-dir> <check>[,<check>...] [tier]
# Applies <seeded-dir>/patch.diff to a scratch copy of /repo, confirms the demo (exit 1 with, 0 without), runs the checks.
D="$1"; CHECKS="$2"; TIER="${3:-quick}"
S=/tmp/scratch-seed-$$
rsync -a --exclude .git --exclude SEEDED /repo/ $S/
echo "== demo on unchanged tree:"; (cd $D && PYTHONPATH=$S timeout 900 /venv/bin/python demo.py >/tmp/seedeval-$$.out 2>&1; echo "exit $?"; tail -2 /tmp/seedeval-$$.out)
(cd $S && git init -q . 2>/dev/null; git apply --unsafe-paths -p1 "$D/patch.diff" 2>&1 || patch -p1 < "$D/patch.diff") || { echo "PATCH FAILED"; rm -rf $S; exit 9; }
echo "== demo on patched tree:"; (cd $D && PYTHONPATH=$S timeout 900 /venv/bin/python demo.py >/tmp/seedeval-$$.out 2>&1; echo "exit $?"; tail -3 /tmp/seedeval-$$.out)
cd /verif
for C in $(echo $CHECKS | tr , ' '); do
  VERIF_REPO=$S timeout 3000 ./vcheck $C --tier $TIER > /tmp/seedeval-$$.chk 2>&1; rc=$?
  grep -E "^(VIOLATION|INCONCLUSIVE)" /tmp/seedeval-$$.chk | cut -c1-330 | head -4
  grep -E "^SUMMARY" /tmp/seedeval-$$.chk | cut -c1-260
  echo "== $C $TIER exit: $rc"
done
rm -rf $S /tmp/seedeval-$$.out /tmp/seedeval-$$.chk
