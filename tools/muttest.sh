#!/bin/sh
# usage: tools/muttest.sh <check> <file-relative-to-repo> <python-expr-old> <python-expr-new>
# copies /repo to a scratch dir, replaces the first occurrence of OLD by NEW in FILE, runs the quick check
CHECK="$1"; FILE="$2"; OLD="$3"; NEW="$4"
S=/tmp/scratch-mut-$$
rsync -a --exclude .git /repo/ $S/
/venv/bin/python - "$S/$FILE" "$OLD" "$NEW" <<'PY'
import sys
p, old, new = sys.argv[1:4]
s = open(p).read()
assert s.count(old) >= 1, "pattern not found"
open(p, "w").write(s.replace(old, new, 1))
PY
[ $? -eq 0 ] || { rm -rf $S; exit 9; }
cd /verif
for C in $(echo $CHECK | tr , ' '); do
  VERIF_REPO=$S timeout 900 ./vcheck $C --tier quick 2>&1 | grep -E "^(VIOLATION|SUMMARY|INCONCLUSIVE|KNOWN)" | cut -c1-400 | head -6
  echo "== $C exit: $?"
done
rm -rf $S
