#!/usr/bin/env python3
"""print the prompt for an independent property-breaking sub-agent: tools/seedprompt.py <worktree> <id> [<id> ...]"""
import json, sys
wt = sys.argv[1]
ids = sys.argv[2:]
props = {json.loads(l)["id"]: json.loads(l) for l in open("/verif/properties.jsonl")}
out = []
out.append("""You are helping to evaluate a verification harness for the open-source Python project bbc/vc2_conformance (BBC's VC-2 / SMPTE ST 2042-1 video codec conformance toolkit: bitstream serialiser/deserialiser, validating reference decoder, encoder, test-case generators). Your own private git worktree of the project is at %(wt)s (a checkout of the current main branch). Work ONLY inside %(wt)s; never read or write /repo, /verif or any other worktree, and do not look for any verification tooling: your change must be independent of it.

Task: for EACH property below, write %(n)s (each by a different mechanism, in different functions where possible) to the project's source (under %(wt)s/vc2_conformance/, not the tests) that BREAKS the property while the code still imports, and the project's existing test suite still passes exactly as before. The changes must be realistic bugs a maintainer could plausibly introduce (an off-by-one, a dropped mask, a wrong variable, a condition that is slightly too weak or too strong, a missed reset, a cache keyed too coarsely, an ordering dependence, two sites that each look fine alone ...) and must need something SPECIFIC to manifest: an unusual input, a multi-step sequence of operations, a particular combination of configuration values, a particular interleaving or order of processes, a value beyond a threshold. Not something ordinary use would expose at once, and not something that crashes on every input.

How to run the existing tests (the interpreter /venv/bin/python has an editable install pointing elsewhere, so ALWAYS set PYTHONPATH to your worktree):
    cd %(wt)s && PYTHONPATH=%(wt)s /venv/bin/python -m pytest -q -p no:cacheprovider -n 4 --timeout=900 <paths>
The full suite (about 4 500 tests, takes 5-10 minutes with -n 4 because the machine is shared; please do not use more than -n 4) currently has exactly 14 known failures unrelated to you (tests/test_color_conversion.py float tests x10, tests/verification/test_compare.py::TestCompareSources::test_tokenisation_errors, tests/test_cases/test_bit_widths_common.py::TestGetBundleFileName::test_completeness, tests/scripts/test_vc2_test_case_generator.py::test_parallel, tests/scripts/test_vc2_test_case_generator_worker.py::test_roundtrip) and 3499 passes; with your change the set of passing/failing tests must be identical. Run the relevant test files first, then the full suite once per final change. Note tests/verification compares some functions with the standard's pseudocode text (functions decorated @ref_pseudocode): code between '## Begin not in spec' / '## End not in spec' markers or lines ending '## Not in spec' is free to change, other lines of those functions are not.

Deliverables, for each change, in the directory %(wt)s/SEEDED/<property id>-<a|b>/ :
  patch.diff   - `git diff` of exactly that one change against the worktree's HEAD (apply/revert each change separately: deliver independent patches, each against a clean tree)
  demo.py      - a small self-contained program (run as `PYTHONPATH=<tree> /venv/bin/python demo.py`) that exits 0 on the unchanged tree and exits 1 (printing what went wrong) on the tree with the patch applied, demonstrating the property violation through the project's public behaviour
  meta.json    - {"property": "<id>", "summary": "<one sentence: what the change does>", "needs": "<what specific input / sequence / configuration / interleaving is needed for it to manifest>", "files": [...], "tests_run": "<the pytest command lines you ran and their pass/fail counts>"}
Before finishing, verify for each patch from a clean tree (`git checkout -- .`): patch applies with `git apply`, demo.py exits 1 with it and 0 without it, test suite unchanged. Never use `git stash` (the stash is shared between worktrees of other people): use `git diff > file`, `git checkout -- .` and `git apply` instead. Leave the worktree clean (no applied patch) at the end, with only the SEEDED/ directory added (untracked). Final answer: a short list of the changes (property, summary, needs) and anything you could not do.
""" % {"wt": wt, "n": "TWO different changes" })
import glob, os
NAMES = os.environ.get("SEED_NAMES", "e,f").split(",")
for i in ids:
    p = props[i]
    prev = []
    for mp in sorted(glob.glob("/verif/seeded/%s-*/meta.json" % i)):
        try:
            prev.append(json.load(open(mp)).get("summary", ""))
        except Exception:
            pass
    if prev and os.environ.get("SEED_ROUND2"):
        out.append("For %s the following changes have ALREADY been made by someone else - yours must use different mechanisms, in different functions, and need different circumstances to manifest (name your directories %s-%s and %s-%s):\n%s\n" % (i, i, NAMES[0], i, NAMES[1], "\n".join("  - " + x for x in prev)))
    out.append("PROPERTY %s - %s\nStatement: %s\nQuantified over: %s\nWhy the existing tests cannot settle it: %s\nCode it is anchored in: %s\n" % (
        i, p["title"], p["statement"], p["quantifier"]["text"], p["why_tests_cant"], ", ".join(p["anchors"]["files"])))
print("\n".join(out))
