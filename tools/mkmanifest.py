#!/venv/bin/python
"""Regenerate MANIFEST.json from the check modules present in checks/.

A check module is claimed when it defines CLAIMED = True (default) and PROPERTY.
Properties without a claimed module are listed under not_applicable with the
reason given in NOT_APPLICABLE below (or a work-in-progress note).
"""
import importlib
import json
import os
import sys

HOME = os.path.dirname(os.path.dirname(os.path.abspath(__file__)))
sys.path[:0] = ["/repo", HOME, os.path.join(HOME, ".deps")]

NOT_APPLICABLE = {}


def main():
    props = [json.loads(l) for l in open(os.path.join(HOME, "properties.jsonl"))]
    checks = []
    na = []
    claimed = set(open(os.path.join(HOME, "tools", "claimed.txt")).read().split())
    for p in props:
        pid = p["id"]
        path = os.path.join(HOME, "checks", pid.lower() + ".py")
        mod = None
        if os.path.exists(path):
            mod = importlib.import_module("checks." + pid.lower())
        if mod is None or not getattr(mod, "CLAIMED", True) or pid not in claimed:
            na.append({"property_id": pid, "reason": NOT_APPLICABLE.get(pid, "check not yet built (work in progress); runtime monitoring applies, see DESIGN.md section 5")})
            continue
        checks.append(
            {
                "property_id": pid,
                "quick_cmd": "./vcheck %s --tier quick" % pid,
                "thorough_cmd": "./vcheck %s --tier thorough" % pid,
                "evidence_file": "/verif/evidence/%s.json" % pid,
                "replay_cmd_template": "./vcheck %s --replay {path}" % pid,
                "engine": "vlib",
                "level_claimed": {
                    "category": getattr(mod, "LEVEL", "exploration"),
                    "text": getattr(mod, "LEVEL_TEXT", "The real code is executed on generated workloads while a monitor compares every observation with an independent oracle; the property held on the executions reported in the evidence file, nothing more."),
                    "design_ref": "DESIGN.md section 5, " + pid,
                },
                "level_note": getattr(mod, "LEVEL_NOTE", "; ".join(getattr(mod, "ASSUMPTIONS", [])) or "trusted base: CPython, the harness's reference oracles (vlib/ref)"),
                "technique": getattr(mod, "TECHNIQUE", "runtime monitoring"),
            }
        )
    man = {
        "version": 1,
        "setup_cmd": "/venv/bin/pip install -q --no-index --find-links /opt/veriftools/wheels --target /verif/.deps icontract deal jsonschema",
        "hooks": {
            "guard": "VC2_CONFORMANCE_VERIF",
            "enable": "none needed: every monitor is bound over the real functions from the harness (vlib/rebind.py, class attribute wrapping, sys.monitoring, sys.addaudithook); the guard name is reserved and unused; checks import /repo's working tree directly (PYTHONPATH=/repo)",
            "baseline_off_cmd": "cd /repo && /venv/bin/python -m pytest -ra -q -p no:cacheprovider --timeout=900 --continue-on-collection-errors",
            "source_commits": [],
            "add_only": True,
        },
        "engines": [
            {
                "name": "vlib",
                "path": "/verif/vlib",
                "serves_properties": [c["property_id"] for c in checks],
                "kind_free_text": "runtime monitoring harness: sharded subprocess workers run the real vc2_conformance code on generated workloads; monitors (reference models, invariants at rebound hooks, sys.monitoring step counters, audit hooks) judge each execution; three-valued verdicts",
            }
        ],
        "checks": checks,
        "not_applicable": na,
        "notes": "All checks: ./vcheck <id> --tier quick|thorough; exit 0 held (KNOWN-FINDING lines for open entries of known_findings.json), 1 violation, 2 inconclusive (coverage floor missed / monitor never reached). VERIF_SEED selects the workload seed.",
    }
    try:
        import jsonschema

        jsonschema.validate(man, json.load(open("/root/.vp/MANIFEST.schema.json")))
    except ImportError:
        pass
    with open(os.path.join(HOME, "MANIFEST.json"), "w") as f:
        json.dump(man, f, indent=1)
        f.write("\n")
    print("claimed:", [c["property_id"] for c in checks])
    print("not_applicable:", [c["property_id"] for c in na])


if __name__ == "__main__":
    main()
