#!/usr/bin/env python3
"""Record, in every seeded/<id>/meta.json, what the maintainer of /verif confirmed and which checks catch the change."""
import json, os
R = {
 # id: (checks that catch it now, first result, what was strengthened)
 "C01-a": (["C01"], "escaped C01 (unit pools only held encoder-made fragment offsets)", "C01: fragment (x, y) offset stratum incl. wrong offsets with the right raster index"),
 "C01-b": (["C01"], "caught", ""),
 "C10-a": (["C10"], "escaped C10 (no two pool members shared luma size/transform/slicing while differing in chroma sampling)", "C10: sibling members (one recipe re-encoded with exactly one attribute changed)"),
 "C10-b": (["C10", "C01"], "caught", ""),
 "C03-a": (["C03"], "escaped C03 (generator always supplied a matrix when no default exists)", "C03: configurations with no quantisation matrix at all, which the encoder must refuse"),
 "C03-b": (["C03", "C15"], "caught", ""),
 "C04-a": (["C04", "C11"], "caught", ""),
 "C04-b": (["C04"], "caught (surfaces as a serialisation failure)", ""),
 "C07-a": (["C07"], "caught", ""),
 "C07-b": (["C07"], "escaped C07 (fragment headers never omitted fragment_slice_count)", "C07: omitted fragment-header defaults and default-only fragments"),
 "C14-a": (["C14"], "caught", ""),
 "C14-b": (["C14"], "caught", ""),
 "C27-a": (["C27"], "caught", ""),
 "C27-b": (["C27"], "caught", ""),
 "C16-a": (["C16"], "escaped C16 (explicit matrices were never value-identical to the default one)", "C16: explicit matrix equal to the default in 25% of default-matrix cases"),
 "C16-b": (["C16"], "caught", ""),
 "C15-a": (["C15"], "caught", ""),
 "C15-b": (["C15", "C03"], "escaped C15 (header-only streams hit the validator's empty-sequence exception), caught by C03", "C15: 30% of level-0 cases put real pictures after every generated header"),
 "C05-a": (["C05"], "escaped C05 (too few low-delay multi-row configurations with uneven slice sizes)", "C05: every remainder of picture_bytes modulo the slice count; 96 configurations in the quick tier"),
 "C05-b": (["C05"], "escaped C05 (pictures too small for length fields beyond one byte)", "C05: 32x32 / 64x32 lossless configurations in 20% of cases"),
 "C11-a": (["C11"], "caught", ""), "C11-b": (["C11"], "caught", ""),
 "C13-a": (["C13"], "caught", ""), "C13-b": (["C13"], "caught", ""),
 "C12-a": (["C12"], "caught", ""), "C12-b": (["C12"], "caught", ""),
 "C17-a": (["C17"], "caught", ""), "C17-b": (["C17"], "caught", ""),
 "C20-a": (["C20"], "caught", ""), "C20-b": (["C20"], "caught", ""),
 "C21-a": (["C21"], "caught", ""),
 "C21-b": (["C21"], "escaped C21 (input contexts were never instances of a subclass of the declared type)", "C21: subclass-instance input contexts with exact-type oracle"),
 "C22-a": (["C22"], "caught", ""), "C22-b": (["C22", "C23"], "caught", ""),
 "C23-a": (["C23"], "caught", ""), "C23-b": (["C23"], "caught", ""),
 "C28-a": (["C28"], "escaped C28 (no infinity-valued cells among the junk values)", "C28: inf / -inf / Infinity / 1e999 / 25.0 cells"),
 "C28-b": (["C28"], "escaped C28 (a silently replaced column still yields unique names)", "C28: every non-empty column must come back as its own configuration (column-lost oracle)"),
 "C24-a": (["C24"], "caught (write-set overlap and tree difference)", ""),
 "C24-b": (["C24"], "caught", ""),
}
import sys
extra = {}
if os.path.exists("/verif/seeded/results_extra.json"):
    extra = json.load(open("/verif/seeded/results_extra.json"))
R.update({k: tuple(v) for k, v in extra.items()})
for sid, (checks, first, strengthened) in sorted(R.items()):
    p = os.path.join("/verif/seeded", sid, "meta.json")
    if not os.path.exists(p):
        continue
    m = json.load(open(p))
    m["breaks_property"] = m.get("property", sid.split("-")[0])
    m["needs_to_manifest"] = m.get("needs", "")
    m["confirmed_by_maintainer"] = ("tools/seedeval.sh: patch.diff applied to a scratch copy of /repo HEAD; demo.py exits 0 on the unchanged copy and 1 on the "
                                    "patched copy; the author's full-suite result (14 known failures / 3499 passes, identical set) is recorded in tests_run; "
                                    "quick tier of the listed checks run with VERIF_REPO pointing at the patched copy")
    m["caught_by_checks"] = checks
    m["first_result"] = first
    if strengthened:
        m["check_strengthened"] = strengthened
    json.dump(m, open(p, "w"), indent=1)
print(len(R), "entries")
