"""encode -> autofill+serialise -> validate/decode, observed end to end.

Shared by C03 (conformance + format), C04 (exact reconstruction) and others.
"""
import copy
import sys
import traceback

from vlib import vc2util
from vlib.gen import configs


class Obs(object):
    """What one pipeline execution showed."""

    def __init__(self):
        self.stage = None  # "encoder-rejected" | "encoder-crash" | "serialise-failed" | "done"
        self.error = None
        self.error_class = None
        self.tb = None
        self.cf = None
        self.pics = None
        self.seq = None
        self.data = None
        self.verdict = None
        self.qindices = None  # per picture: list of qindex (from the encoder's description)


def slices_of_sequence(seq):
    """Yield (picture_index, slice_dict, kind) for every slice in an encoder
    description, in order.  A new picture index starts at each picture_parse
    and each first fragment (fragment_slice_count == 0)."""
    pic = -1
    for du in seq["data_units"]:
        if "picture_parse" in du:
            pic += 1
            td = du["picture_parse"]["wavelet_transform"]["transform_data"]
        elif "fragment_parse" in du:
            fp = du["fragment_parse"]
            if fp["fragment_header"].get("fragment_slice_count", 0) == 0:
                pic += 1
                continue
            td = fp["fragment_data"]
        else:
            continue
        for kind in ("hq_slices", "ld_slices"):
            for s in td.get(kind, ()):
                yield pic, s, kind


def run(recipe, make_sequence_kwargs=None, patterns=()):
    from vc2_conformance.encoder import make_sequence, UnsatisfiableCodecFeaturesError

    o = Obs()
    o.cf = cf = configs.build_cf(recipe)
    o.pics = pics = configs.build_pictures(recipe, cf["video_parameters"])
    try:
        o.seq = make_sequence(cf, copy.deepcopy(pics), *patterns, **(make_sequence_kwargs or {}))
    except UnsatisfiableCodecFeaturesError as e:
        o.stage = "encoder-rejected"
        o.error_class = type(e).__name__
        return o
    except Exception as e:
        o.stage = "encoder-crash"
        o.error_class = type(e).__name__
        o.error = repr(e)
        o.tb = traceback.format_exc()[-2500:]
        o.site = vc2util._site(sys.exc_info()[2])
        return o
    q = {}
    for pic, s, kind in slices_of_sequence(o.seq):
        q.setdefault(pic, []).append(s.get("qindex"))
    o.qindices = [q.get(i, []) for i in range(len(pics))]
    try:
        o.data = vc2util.serialise([o.seq])
    except Exception as e:
        o.stage = "serialise-failed"
        o.error_class = type(e).__name__
        o.error = repr(e)
        o.tb = traceback.format_exc()[-2500:]
        o.site = vc2util._site(sys.exc_info()[2])
        return o
    o.verdict = vc2util.validate(o.data)
    o.stage = "done"
    return o
