"""Deterministic hand-packed streams with degenerate bounded blocks.

    degenerate_streams() -> [(label, bytes), ...]

Low-delay pictures and fragments whose slice_bytes_numerator /
slice_bytes_denominator gives some or all slices 0 or 1 bytes (a 0-byte slice
makes the (de)serialiser open a bounded block of *negative* length), HQ
pictures and fragments whose slice length fields are 0 or whose
slice_size_scaler is 0 (zero-length blocks), for several slice grids,
transform depths and stream versions; bounded blocks with more than 8192
unused bits whose only non-zero bits lie late in the block (HQ scaler 8..64 x
length 128..255, LD slices of 1100..2047 bytes); streams of two or three
sequences in which a later sequence starts with a corrupted parse_info prefix.

Everything here is written with this module's own bit packer straight from
the syntax of the standard (10.5, 11, 12, 13.5, 14): **no repository code is
used**, in particular not the Serialiser -- a writer that cannot reproduce
such a stream must not be able to hide that by failing to generate it.
The streams are *not* conformant; they are candidates for the tools that
accept non-conformant input (deserialiser, viewer) and hostile input for the
validator.
"""
import random
import struct

_CACHE = []


class Bits(object):
    def __init__(self):
        self.bits = []

    def bit(self, b):
        self.bits.append(1 if b else 0)

    def nbits(self, n, v):
        for i in range(n - 1, -1, -1):
            self.bits.append((v >> i) & 1)

    def uint(self, v):
        """unsigned interleaved exp-Golomb (A.4.3)"""
        v += 1
        for i in range(v.bit_length() - 2, -1, -1):
            self.bits.append(0)
            self.bits.append((v >> i) & 1)
        self.bits.append(1)

    def align(self, fill=0):
        while len(self.bits) % 8:
            self.bits.append(fill)

    def raw(self, data):
        for byte in data:
            self.nbits(8, byte)

    def tobytes(self):
        assert len(self.bits) % 8 == 0
        out = bytearray()
        for i in range(0, len(self.bits), 8):
            v = 0
            for b in self.bits[i:i + 8]:
                v = (v << 1) | b
            out.append(v)
        return bytes(out)


def intlog2(n):
    """(5.5.3) for positive n; for n <= 0 the value Python's integer arithmetic
    gives the pseudocode's implementation, (n - 1).bit_length()"""
    return (n - 1).bit_length()


def ld_slice_bytes(num, den, slices_x, sx, sy):
    """(13.5.3.2)"""
    k = sy * slices_x + sx
    return ((k + 1) * num) // den - (k * num) // den


def sequence_header_payload(major_version, profile, w, h, pcm=0):
    b = Bits()
    b.uint(major_version)
    b.uint(0)  # minor_version
    b.uint(profile)
    b.uint(0)  # level
    b.uint(0)  # base_video_format: custom
    b.bit(1)  # custom_dimensions_flag
    b.uint(w)
    b.uint(h)
    b.bit(1)  # custom_color_diff_format_flag
    b.uint(0)  # 4:4:4
    for _ in range(3):  # scan format, frame rate, aspect ratio: defaults
        b.bit(0)
    b.bit(1)  # custom_clean_area_flag: the whole frame
    b.uint(w)
    b.uint(h)
    b.uint(0)
    b.uint(0)
    for _ in range(2):  # signal range, colour spec: defaults
        b.bit(0)
    b.uint(pcm)
    b.align()
    return b.tobytes()


def transform_parameters(b, major_version, wavelet, depth, depth_ho, sx, sy, ld=None, hq=None):
    b.uint(wavelet)
    b.uint(depth)
    if major_version >= 3:
        b.bit(0)  # asym_transform_index_flag
        if depth_ho:
            b.bit(1)
            b.uint(depth_ho)
        else:
            b.bit(0)
    b.uint(sx)
    b.uint(sy)
    if ld is not None:
        b.uint(ld[0])
        b.uint(ld[1])
    else:
        b.uint(hq[0])  # slice_prefix_bytes
        b.uint(hq[1])  # slice_size_scaler
    b.bit(0)  # custom_quant_matrix


def ld_slice(b, rng, nbytes, ylen_mode):
    """bits of one low-delay slice as the (de)serialiser consumes them"""
    if nbytes == 0:
        # qindex (7) + slice_y_length (intlog2(-7) = 4 bits); both blocks have no room
        b.nbits(7, rng.randrange(128))
        b.nbits(4, rng.choice([0, 0, 5, 15]))
        return
    total = 8 * nbytes
    lb = intlog2(total - 7)
    left = total - 7 - lb
    b.nbits(7, rng.randrange(128))
    if lb:
        if ylen_mode == "zero":
            y = 0
        elif ylen_mode == "all":
            y = left
        elif ylen_mode == "over":
            y = min((1 << lb) - 1, left + 1 + rng.randrange(3))
        else:
            y = rng.randrange(left + 1)
        b.nbits(lb, y)
    for _ in range(left):
        b.bit(rng.random() < 0.7)  # mostly 1s: short coefficients, room for padding bits


def hq_slice(b, rng, prefix_bytes, scaler, mode):
    b.raw(bytes(rng.randrange(256) for _ in range(prefix_bytes)))
    b.nbits(8, rng.randrange(256))  # qindex
    for c in range(3):
        if mode == "zero":
            n = 0
        elif mode == "y-only":
            n = rng.randrange(1, 3) if c == 0 else 0
        elif mode == "c-only":
            n = 0 if c == 0 else rng.randrange(1, 3)
        else:
            n = rng.choice([0, 0, 1, 2])
        b.nbits(8, n)
        for _ in range(8 * n * scaler):
            b.bit(rng.random() < 0.7)


def join(units, zero_next=False):
    """units: list of (parse_code, payload bytes) -> stream with consistent offsets"""
    out = bytearray()
    prev = 0
    for code, payload in units:
        n = 13 + len(payload)
        nxt = 0 if code == 0x10 else n
        if zero_next and code in (0xC8, 0xE8, 0xCC, 0xEC):
            nxt = 0
        out += b"BBCD" + bytes([code]) + struct.pack(">II", nxt, prev) + payload
        prev = n
    return bytes(out)


def ld_picture_stream(rng, version, w, h, wavelet, depth, depth_ho, sx, sy, num, den, ylen_mode, npics=1, zero_next=False):
    units = [(0x00, sequence_header_payload(version, 0, w, h))]
    for p in range(npics):
        b = Bits()
        b.nbits(32, p)
        transform_parameters(b, version, wavelet, depth, depth_ho, sx, sy, ld=(num, den))
        b.align(rng.randrange(2))
        for y in range(sy):
            for x in range(sx):
                ld_slice(b, rng, ld_slice_bytes(num, den, sx, x, y), ylen_mode)
        b.align(rng.randrange(2))
        units.append((0xC8, b.tobytes()))
    units.append((0x10, b""))
    return join(units, zero_next)


def fragment_stream(rng, ld, w, h, wavelet, depth, depth_ho, sx, sy, per_fragment, num=1, den=2, ylen_mode="rand",
                    prefix=0, scaler=1, hq_mode="zero"):
    version = 3
    code = 0xCC if ld else 0xEC
    units = [(0x00, sequence_header_payload(version, 0 if ld else 3, w, h))]
    b = Bits()
    b.nbits(32, 0)
    b.nbits(16, 0)
    b.nbits(16, 0)
    transform_parameters(b, version, wavelet, depth, depth_ho, sx, sy, ld=(num, den) if ld else None, hq=(prefix, scaler))
    b.align()
    units.append((code, b.tobytes()))
    n = sx * sy
    k = 0
    while k < n:
        cnt = min(per_fragment, n - k)
        b = Bits()
        b.nbits(32, 0)
        b.nbits(16, 0)
        b.nbits(16, cnt)
        b.nbits(16, k % sx)
        b.nbits(16, k // sx)
        for i in range(k, k + cnt):
            if ld:
                ld_slice(b, rng, ld_slice_bytes(num, den, sx, i % sx, i // sx), ylen_mode)
            else:
                hq_slice(b, rng, prefix, scaler, hq_mode)
        b.align(rng.randrange(2))
        units.append((code, b.tobytes()))
        k += cnt
    units.append((0x10, b""))
    return join(units)


def hq_picture_stream(rng, version, w, h, wavelet, depth, depth_ho, sx, sy, prefix, scaler, mode, npics=1):
    units = [(0x00, sequence_header_payload(version, 3, w, h))]
    for p in range(npics):
        b = Bits()
        b.nbits(32, p)
        transform_parameters(b, version, wavelet, depth, depth_ho, sx, sy, hq=(prefix, scaler))
        b.align(rng.randrange(2))
        for _ in range(sx * sy):
            hq_slice(b, rng, prefix, scaler, mode)
        units.append((0xE8, b.tobytes()))
    units.append((0x10, b""))
    return join(units)


def _tail(b, rng, n, mode):
    """n unused bits of a bounded block"""
    if n <= 0:
        return
    if mode == "random":
        for _ in range(n):
            b.bit(rng.randrange(2))
    elif mode == "ones":
        for _ in range(n):
            b.bit(1)
    elif mode == "last16":
        for _ in range(max(0, n - 16)):
            b.bit(0)
        b.nbits(min(16, n), 0xBEEF & ((1 << min(16, n)) - 1))
    elif mode == "lastbit":
        for _ in range(n - 1):
            b.bit(0)
        b.bit(1)
    else:  # "mid": a few bits set somewhere after the first 8192
        lo = min(n - 1, 8192)
        on = set(rng.randrange(lo, n) for _ in range(3)) | {lo}
        for i in range(n):
            b.bit(i in on)


def _block(b, rng, nbits, ncoeffs, mode):
    """a bounded block: ncoeffs zero coefficients (one 1-bit each), then unused bits"""
    used = min(nbits, ncoeffs)
    for _ in range(used):
        b.bit(1)
    _tail(b, rng, nbits - used, mode)


def hq_long_tail_stream(rng, sx, scaler, lengths, mode, prefix=0):
    """8x8 4:4:4, no transform: 64 coefficients per component, split over sx slices"""
    units = [(0x00, sequence_header_payload(2, 3, 8, 8))]
    b = Bits()
    b.nbits(32, 0)
    transform_parameters(b, 2, 3, 0, 0, sx, 1, hq=(prefix, scaler))
    b.align()
    for _ in range(sx):
        b.raw(bytes(rng.randrange(256) for _ in range(prefix)))
        b.nbits(8, rng.randrange(256))
        for n in lengths:
            b.nbits(8, n)
            _block(b, rng, 8 * n * scaler, 64 // sx, mode)
    units.append((0xE8, b.tobytes()))
    units.append((0x10, b""))
    return join(units)


def ld_long_tail_stream(rng, num, ymode, mode):
    """one slice of `num` bytes, 64 + 128 coefficients"""
    units = [(0x00, sequence_header_payload(1, 0, 8, 8))]
    b = Bits()
    b.nbits(32, 0)
    transform_parameters(b, 1, 3, 0, 0, 1, 1, ld=(num, 1))
    b.align()
    total = 8 * num
    lb = intlog2(total - 7)
    left = total - 7 - lb
    y = {"all": left, "half": left // 2, "none": 0}[ymode]
    b.nbits(7, rng.randrange(128))
    b.nbits(lb, y)
    _block(b, rng, y, 64, mode)
    _block(b, rng, left - y, 128, mode)
    units.append((0xC8, b.tobytes()))
    units.append((0x10, b""))
    return join(units)


def long_tail_streams():
    """bounded blocks with more than 8192 unused bits whose non-zero bits lie late"""
    out = []
    i = 0
    for sx, scaler, lengths in [(1, 8, (255, 0, 0)), (1, 8, (0, 255, 130)), (2, 16, (128, 0, 70)), (1, 33, (0, 0, 128)),
                                (1, 64, (128, 0, 0)), (2, 9, (200, 200, 200))]:
        for mode in ("last16", "lastbit", "mid", "random", "ones"):
            i += 1
            if i % 2 and mode in ("random", "ones"):
                continue
            if scaler >= 33 and mode not in ("last16", "mid"):
                continue
            rng = random.Random("degenerate/hq-long/%d" % i)
            out.append(("hq-longtail-%dx1-scaler%d-len%s-%s" % (sx, scaler, "_".join(map(str, lengths)), mode),
                        hq_long_tail_stream(rng, sx, scaler, lengths, mode, prefix=i % 2)))
    j = 0
    for num in (1100, 1500, 2047):
        for ymode in ("all", "half", "none"):
            for mode in ("last16", "lastbit", "mid", "random"):
                j += 1
                if j % 3 != 1 and mode != "last16":
                    continue
                rng = random.Random("degenerate/ld-long/%d" % j)
                out.append(("ld-longtail-%dbytes-y%s-%s" % (num, ymode, mode), ld_long_tail_stream(rng, num, ymode, mode)))
    return out


def _corrupt_prefix(stream, how, rng):
    b = bytearray(stream)
    if how == "zero":
        b[0:4] = bytes(4)
    elif how == "flip":
        b[rng.randrange(4)] ^= 1 << rng.randrange(8)
    elif how == "ones":
        b[0:4] = b"\xff" * 4
    else:  # last byte only
        b[3] ^= 0x01
    return bytes(b)


def bad_prefix_sequence_streams(base):
    """several sequences; the second / third starts with a corrupted parse_info
    prefix, everything else (offsets, payloads) intact"""
    out = []
    singles = [(l, d) for l, d in base if len(d) < 400]
    hows = ["zero", "flip", "ones", "lsb"]
    for i in range(12):
        rng = random.Random("degenerate/badprefix/%d" % i)
        a = singles[(7 * i) % len(singles)][1]
        b_ = singles[(11 * i + 3) % len(singles)][1]
        c = singles[(13 * i + 5) % len(singles)][1]
        how = hows[i % 4]
        if i % 3 == 0:
            data = a + _corrupt_prefix(b_, how, rng)
            label = "2seq-second-prefix-%s-%d" % (how, i)
        elif i % 3 == 1:
            data = a + b_ + _corrupt_prefix(c, how, rng)
            label = "3seq-third-prefix-%s-%d" % (how, i)
        else:
            data = a + _corrupt_prefix(b_, how, rng) + _corrupt_prefix(c, hows[(i + 1) % 4], rng)
            label = "3seq-second+third-prefix-%s-%d" % (how, i)
        out.append((label, data))
    return out


def degenerate_streams():
    """-> list of (label, bytes); deterministic, cached per process"""
    if _CACHE:
        return list(_CACHE)
    out = []

    def add(label, data):
        out.append((label, data))

    grids = [(1, 1), (2, 1), (1, 2), (2, 2), (3, 2), (4, 3)]
    ratios = [(0, 1), (1, 2), (1, 3), (2, 3), (1, 1), (3, 2), (1, 4), (5, 4), (1, 12), (7, 3)]
    i = 0
    for sx, sy in grids:
        for num, den in ratios:
            i += 1
            if (i % 3) and (sx, sy) not in ((2, 1), (2, 2)):
                continue  # every grid gets a third of the ratios, two grids get all of them
            version = 3 if i % 2 else 1
            depth = [0, 1, 2][i % 3]
            depth_ho = 1 if (version == 3 and i % 4 == 1) else 0
            wavelet = [4, 1, 3, 0][i % 4]
            mode = ["rand", "zero", "all", "over"][i % 4]
            rng = random.Random("degenerate/ld-pic/%d" % i)
            add("ld-pic-%dx%d-%d/%d-v%d-d%d+%d-%s" % (sx, sy, num, den, version, depth, depth_ho, mode),
                ld_picture_stream(rng, version, 8, 8, wavelet, depth, depth_ho, sx, sy, num, den, mode,
                                  npics=1 + (i % 2), zero_next=(i % 5 == 0)))
    j = 0
    for sx, sy in [(2, 1), (2, 2), (3, 2)]:
        for num, den in [(0, 1), (1, 2), (1, 1), (2, 3), (3, 2)]:
            for per in (1, 2, sx * sy):
                j += 1
                if j % 2 and (num, den) != (1, 2):
                    continue
                rng = random.Random("degenerate/ld-frag/%d" % j)
                add("ld-frag-%dx%d-%d/%d-per%d" % (sx, sy, num, den, per),
                    fragment_stream(rng, True, 8, 8, [4, 1][j % 2], j % 2, 0, sx, sy, per, num, den,
                                    ["rand", "over", "zero"][j % 3]))
    k = 0
    for sx, sy in [(1, 1), (2, 2), (3, 2)]:
        for prefix, scaler in [(0, 1), (2, 1), (0, 0), (1, 0), (0, 3)]:
            for mode in ("zero", "y-only", "c-only", "rand"):
                k += 1
                if k % 2 and mode != "zero":
                    continue
                rng = random.Random("degenerate/hq-pic/%d" % k)
                version = 3 if k % 3 == 0 else 2
                add("hq-pic-%dx%d-prefix%d-scaler%d-%s-v%d" % (sx, sy, prefix, scaler, mode, version),
                    hq_picture_stream(rng, version, 8, 8, [4, 1, 3][k % 3], k % 3, 1 if version == 3 and k % 2 else 0,
                                      sx, sy, prefix, scaler, mode, npics=1 + k % 2))
    m = 0
    for sx, sy in [(2, 1), (2, 2)]:
        for prefix, scaler, mode in [(0, 1, "zero"), (0, 0, "rand"), (2, 1, "c-only"), (0, 2, "rand")]:
            for per in (1, sx * sy):
                m += 1
                rng = random.Random("degenerate/hq-frag/%d" % m)
                add("hq-frag-%dx%d-prefix%d-scaler%d-%s-per%d" % (sx, sy, prefix, scaler, mode, per),
                    fragment_stream(rng, False, 8, 8, [4, 1][m % 2], m % 2, 0, sx, sy, per, prefix=prefix,
                                    scaler=scaler, hq_mode=mode))
    out.extend(bad_prefix_sequence_streams(list(out)))
    out.extend(long_tail_streams())
    _CACHE.extend(out)
    return list(out)
