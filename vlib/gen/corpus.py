"""Deterministic seed corpus of *valid* VC-2 streams for the fuzzing checks
(C02, C06, C25, C26).

    seed_corpus(seed=0, size="quick"|"thorough") -> [(label, bytes), ...]

Every stream is produced by the real encoder (`make_sequence`) from a recipe of
`vlib.gen.configs`, optionally edited at description level into a *conformant
variant* (padding / auxiliary units, repeated sequence headers, several
sequences, slice prefix bytes, non-zero slice padding bits, absent next
offsets on pictures ...), serialised with the real autofill+serialiser and
**accepted by the real validator** (asserted while building; `STATS` counts).
The corpus is cached per process.  `seed` only affects the randomly drawn
tail of the corpus; the hand-written head is fixed.
"""
import copy
import random

from vlib import vc2util
from vlib.gen import configs

STATS = {"built": 0, "validated": 0, "encoder_rejected": 0, "not_accepted": 0}
_CACHE = {}

# --------------------------------------------------------------------------
# hand-written recipes
# --------------------------------------------------------------------------
_BASE = dict(
    base=0, cdf=0, pcm=0, ss=0, tff=True, w=8, h=4, fr=None, par=None, range=[0, 255, 128, 255],
    prim=None, mat=None, tf=None, profile=3, lossless=False, wi=1, wih=1, d=1, dh=0, sx=2, sy=2,
    fsc=0, pb=60, qm=None, level=0,
)


def R(pics=None, **kw):
    r = dict(_BASE)
    r.update(kw)
    p = dict(n=2, seed=7, nums=None)
    p["class"] = "noise"
    p.update(pics or {})
    if r["pcm"] == 1 and p["n"] % 2:
        p["n"] += 1
    r["pics"] = p
    return r


def _qm(d, dh, seed):
    return configs.random_matrix(random.Random("qm/%s" % seed), d, dh)


def fixed_recipes():
    """-> list of (label, recipe).  Labels name the stratum the seed is there for."""
    L = []
    a = L.append
    a(("hq-min", R()))
    a(("ld-min", R(profile=0, pb=40)))
    a(("hq-lossless", R(lossless=True, pb=None)))
    a(("hq-1pic-zero", R(pics={"n": 1, "class": "zero"})))
    a(("hq-frag1", R(fsc=1)))
    a(("hq-frag2-3x2", R(fsc=2, sx=3, sy=2, w=12, pb=90)))
    a(("hq-frag-all", R(fsc=4)))
    a(("hq-frag-n+1", R(fsc=5)))
    a(("ld-frag3-2x2", R(profile=0, fsc=3, pb=40)))
    a(("ld-frag1", R(profile=0, fsc=1, pb=24, pics={"n": 1})))
    a(("hq-fields", R(pcm=1, h=8)))
    a(("ld-fields", R(profile=0, pcm=1, h=8, pb=30)))
    a(("hq-fields-frag2", R(pcm=1, h=8, fsc=2)))
    a(("hq-lossless-fields-frag1", R(pcm=1, h=8, fsc=1, lossless=True, pb=None, pics={"class": "ramp"})))
    a(("hq-asym-idx", R(wi=1, wih=4, d=1, dh=1, qm=_qm(1, 1, "a"))))
    a(("hq-asym-ho-only", R(wi=4, wih=4, d=0, dh=2, w=16, sx=2, sy=1, qm=_qm(0, 2, "b"))))
    a(("ld-asym", R(profile=0, wi=3, wih=0, d=1, dh=2, w=16, pb=48, qm=_qm(1, 2, "c"))))
    a(("hq-asym-frag1", R(wi=0, wih=1, d=1, dh=1, fsc=1, qm=_qm(1, 1, "d"), pics={"n": 1})))
    a(("hq-custom-qm", R(qm=_qm(1, 0, "e"))))
    a(("ld-custom-qm", R(profile=0, pb=40, d=2, w=8, h=8, qm=_qm(2, 0, "f"))))
    a(("hq-depth0", R(d=0, dh=0, qm={"0": {"LL": 0}})))
    a(("hq-d3", R(d=3, w=16, h=8, sx=2, sy=1, pb=120, pics={"n": 1})))
    a(("hq-422", R(cdf=1, pb=60)))
    a(("hq-420", R(cdf=2, pb=60)))
    a(("ld-420-fields", R(profile=0, cdf=2, pcm=1, h=8, pb=30)))
    a(("hq-10bit", R(range=[64, 876, 512, 896], pb=80)))
    a(("hq-16bit-lossless", R(range=[0, 65535, 32768, 65535], lossless=True, pb=None, pics={"n": 1, "class": "max"})))
    a(("hq-1bit", R(range=[0, 1, 0, 1], pics={"class": "checker"})))
    a(("hq-custom-src", R(fr=[30000, 1001], par=[12, 11], prim=1, mat=2, tf=1, ss=1, tff=False)))
    a(("hq-custom-src2", R(fr=[7, 3], par=[3, 5], prim=3, mat=0, tf=3)))
    # presets that only exist from major_version 3 on
    a(("hq-v3-presets-uhdtv", R(fr=[120, 1], range=[0, 1023, 512, 1023], prim=4, mat=4, tf=0, pics={"n": 1})))
    a(("ld-v3-presets-hlg", R(profile=0, pb=40, fr=[96, 1], range=[0, 4095, 2048, 4095], prim=4, mat=3, tf=5, pics={"n": 1})))
    a(("hq-base-qsif", R(base=1, w=8, h=4)))
    a(("ld-base-hd720", R(base=9, profile=0, w=8, h=4, pb=40)))
    a(("hq-1x1", R(sx=1, sy=1, pb=40)))
    a(("hq-4x3-more-slices-than-dc", R(sx=4, sy=3, w=8, h=4, d=2, pb=120, pics={"n": 1})))
    a(("hq-picnum-wrap", R(pics={"n": 3, "nums": 2 ** 32 - 2})))
    a(("hq-frag-picnum-100", R(fsc=1, pics={"n": 2, "nums": 100})))
    a(("hq-scaler", R(pb=1300, pics={"n": 1})))
    a(("ld-min-bytes", R(profile=0, pb=4, pics={"n": 1, "class": "mid"})))
    a(("hq-haar-d2", R(wi=3, wih=3, d=2, w=8, h=8, pb=80, pics={"n": 1, "class": "ramp"})))
    a(("ld-daub97", R(profile=0, wi=6, wih=6, d=1, pb=60, pics={"n": 1})))
    a(("hq-fidelity", R(wi=5, wih=5, d=1, pb=60, pics={"n": 1, "class": "mixed"})))
    return L


# --------------------------------------------------------------------------
# conformant description-level variants
# --------------------------------------------------------------------------
def _du_padding(rng, aux=False, payload=None):
    from vc2_conformance.bitstream import AuxiliaryData, DataUnit, Padding, ParseInfo
    from vc2_data_tables import ParseCodes

    if payload is None:
        n = rng.choice([0, 0, 1, 3, 12, 13, 40])
        payload = bytes(rng.randrange(256) for _ in range(n))
        if rng.random() < 0.25:
            payload += b"BBCD\x10" + bytes(8)  # a fake parse_info inside the payload
    if aux:
        return DataUnit(parse_info=ParseInfo(parse_code=ParseCodes.auxiliary_data), auxiliary_data=AuxiliaryData(bytes=payload))
    return DataUnit(parse_info=ParseInfo(parse_code=ParseCodes.padding_data), padding=Padding(bytes=payload))


def v_padding_aux(seq, rng):
    """padding and auxiliary units between (and after) the real units"""
    dus = seq["data_units"]
    out = []
    for i, du in enumerate(dus):
        out.append(du)
        if i < len(dus) - 1 and (i == 0 or rng.random() < 0.6):
            for _ in range(rng.choice([1, 1, 2])):
                out.append(_du_padding(rng, aux=rng.random() < 0.5))
    seq["data_units"] = out
    return seq


def v_repeat_header(seq, rng):
    """the sequence header repeated (byte identical) before later pictures"""
    dus = seq["data_units"]
    hdr = dus[0]
    out = [dus[0]]
    fragments_open = False
    for du in dus[1:]:
        pc = int(du["parse_info"]["parse_code"])
        first = True
        if pc in vc2util.FRAGMENT_CODES:
            first = du["fragment_parse"]["fragment_header"].get("fragment_slice_count", 0) == 0
        if pc != vc2util.PC_END_OF_SEQUENCE and first and len(out) > 1:
            out.append(copy.deepcopy(hdr))
        out.append(du)
    out.insert(-1, copy.deepcopy(hdr))  # also right before the end of sequence
    seq["data_units"] = out
    return seq


def _iter_transform_parameters(seq):
    for du in seq["data_units"]:
        if "picture_parse" in du:
            yield du["picture_parse"]["wavelet_transform"]["transform_parameters"]
        elif "fragment_parse" in du and "transform_parameters" in du["fragment_parse"]:
            yield du["fragment_parse"]["transform_parameters"]


def _iter_slices(seq, kind):
    for du in seq["data_units"]:
        td = None
        if "picture_parse" in du:
            td = du["picture_parse"]["wavelet_transform"]["transform_data"]
        elif "fragment_parse" in du and "fragment_data" in du["fragment_parse"]:
            td = du["fragment_parse"]["fragment_data"]
        if td is not None:
            for s in td.get(kind, ()):
                yield s


def v_hq_prefix_bytes(seq, rng):
    """HQ: slice_prefix_bytes = 2 with random prefix bytes in every slice"""
    for tp in _iter_transform_parameters(seq):
        tp["slice_parameters"]["slice_prefix_bytes"] = 2
    for s in _iter_slices(seq, "hq_slices"):
        s["prefix_bytes"] = bytes(rng.randrange(256) for _ in range(2))
    return seq


def _sint_bits(v):
    """length in bits of the signed exp-Golomb code of v (from the definition)"""
    v = abs(int(v))
    return 2 * ((v + 1).bit_length() - 1) + 1 + (1 if v else 0)


def v_hq_slack_padding(seq, rng):
    """HQ: every component length raised by 0-2 units, unused bits random"""
    from bitarray import bitarray

    scaler = 1
    for tp in _iter_transform_parameters(seq):
        scaler = tp["slice_parameters"].get("slice_size_scaler", 1)
    for s in _iter_slices(seq, "hq_slices"):
        for c in ("y", "c1", "c2"):
            k = "slice_%s_length" % c
            extra = rng.choice([0, 1, 2])
            if s.get(k, 0) + extra > 255:
                extra = 0
            s[k] = s.get(k, 0) + extra
            used = sum(_sint_bits(v) for v in s.get("%s_transform" % c, ()))
            unused = max(0, 8 * scaler * s[k] - used)
            # (the serialiser right-pads a short bit array with zeros)
            s["%s_block_padding" % c] = bitarray([rng.randrange(2) for _ in range(rng.randrange(0, unused + 1))])
    return seq


def v_zero_next_offsets(seq, rng):
    """pictures/fragments carry next_parse_offset = 0 (allowed for picture-bearing units)"""
    for du in seq["data_units"]:
        pc = int(du["parse_info"]["parse_code"])
        if pc in vc2util.PICTURE_CODES or pc in vc2util.FRAGMENT_CODES:
            if rng.random() < 0.7:
                du["parse_info"]["next_parse_offset"] = 0
    return seq


VARIANTS = {
    "pad": v_padding_aux,
    "rephdr": v_repeat_header,
    "prefix": v_hq_prefix_bytes,
    "slack": v_hq_slack_padding,
    "zeronext": v_zero_next_offsets,
}

# (label, [recipe labels forming the sequences], [variant names applied to each sequence])
COMPOSITES = [
    ("hq-min+pad", ["hq-min"], ["pad"]),
    ("ld-frag3-2x2+pad", ["ld-frag3-2x2"], ["pad"]),
    ("hq-frag1+rephdr", ["hq-frag1"], ["rephdr"]),
    ("ld-min+rephdr+pad", ["ld-min"], ["rephdr", "pad"]),
    ("hq-min+prefix", ["hq-min"], ["prefix"]),
    ("hq-frag2-3x2+prefix+slack", ["hq-frag2-3x2"], ["prefix", "slack"]),
    ("hq-lossless+slack", ["hq-lossless"], ["slack"]),
    ("hq-min+zeronext", ["hq-min"], ["zeronext"]),
    ("hq-frag1+zeronext", ["hq-frag1"], ["zeronext"]),
    ("2seq:hq-min,ld-min", ["hq-min", "ld-min"], []),
    ("3seq:hq-frag1,hq-fields,ld-frag1", ["hq-frag1", "hq-fields", "ld-frag1"], []),
    ("2seq:hq-asym-idx,hq-frag-all+pad", ["hq-asym-idx", "hq-frag-all"], ["pad"]),
]


def _header_only_sequence(seq):
    """sequence header + end of sequence, no pictures"""
    dus = seq["data_units"]
    seq["data_units"] = [dus[0], dus[-1]]
    return seq


# --------------------------------------------------------------------------
def _encode(recipe):
    from vc2_conformance.encoder import UnsatisfiableCodecFeaturesError

    try:
        cf, pics, seq = vc2util.encode(recipe)
    except UnsatisfiableCodecFeaturesError:
        STATS["encoder_rejected"] += 1
        return None
    return seq


VALIDATION_STEP_BUDGET = 60000000


def _validate_bounded(data):
    """validator verdict kind, or "no-result" when it does not come back within
    VALIDATION_STEP_BUDGET repository function entries (a tree under test may hang)"""
    import sys

    from vlib import worker

    if hasattr(sys, "monitoring") and sys.monitoring.get_tool(worker.StepCounter.TOOL) is None:
        try:
            with worker.StepCounter(VALIDATION_STEP_BUDGET):
                return vc2util.validate(data, keep_pictures=False)
        except worker.StepBudgetExceeded:
            return None
    return vc2util.validate(data, keep_pictures=False)


def _finish(label, seqs, out, strict=True, validate=True):
    data = vc2util.serialise(seqs)
    STATS["built"] += 1
    if not validate:
        out.append((label, data))
        return True
    v = _validate_bounded(data)
    if v is None or v.kind != "ok":
        what = "no verdict within step budget" if v is None else "%s %s at %s" % (v.kind, v.exc_class, v.site)
        if strict:
            raise AssertionError("corpus stream %s is not accepted by the validator: %s" % (label, what))
        STATS["not_accepted"] = STATS.get("not_accepted", 0) + 1
        return False
    STATS["validated"] += 1
    out.append((label, data))
    return True


def seed_corpus(seed=0, size="quick", validate=True, strict=True):
    """-> list of (label, bytes) valid streams; cached per process.

    validate: run the real validator over every stream while building (under a
    step budget) -- a check that validates the seeds itself as cases (C02) may
    switch this off.  strict: a hand-written stream that is not accepted raises
    AssertionError; with strict=False it is dropped and counted in
    STATS["not_accepted"] (the randomly drawn tail is always non-strict)."""
    key = (int(seed), size, bool(validate), bool(strict))
    if key in _CACHE:
        return _CACHE[key]
    out = []
    seqs = {}
    for label, recipe in fixed_recipes():
        seq = _encode(recipe)
        if seq is None:
            raise AssertionError("hand-written corpus recipe %s rejected by the encoder" % label)
        seqs[label] = seq
        _finish(label, [seq], out, strict, validate)
    rng = random.Random("corpus-variants")
    for label, members, variants in COMPOSITES:
        ss = []
        for m in members:
            s = copy.deepcopy(seqs[m])
            for vname in variants:
                s = VARIANTS[vname](s, rng)
            ss.append(s)
        _finish(label, ss, out, strict, validate)
    _finish("hdr-eos-only", [_header_only_sequence(copy.deepcopy(seqs["hq-asym-idx"]))], out, strict, validate)
    _finish("hdr-eos-only-v1+2seq", [_header_only_sequence(copy.deepcopy(seqs["ld-min"])), copy.deepcopy(seqs["ld-min"])],
            out, strict, validate)
    # randomly drawn tail (small pictures so that the streams stay a few hundred bytes)
    nrand = 10 if size == "quick" else 60
    rng = random.Random("corpus/%d" % int(seed))
    tries = 0
    got = 0
    while got < nrand and tries < nrand * 6:
        tries += 1
        space = {"maxw": 12, "maxh": 8, "max_dwt": 2, "max_depth_bits": 12}
        if rng.random() < 0.3:
            space["lossless"] = "yes"
        r = configs.random_recipe(rng, space)
        r["pics"]["n"] = min(r["pics"]["n"], 2)
        if r["pb"] is not None and r["pb"] > 400:
            r["pb"] = 400
        seq = _encode(r)
        if seq is None:
            continue
        if rng.random() < 0.3:
            seq = VARIANTS[rng.choice(["pad", "rephdr", "zeronext"])](seq, rng)
        if _finish("rand%d:%s" % (got, configs.stratum(r)), [seq], out, False, validate):
            got += 1
    _CACHE[key] = out
    return out


def corpus_summary(corpus):
    """Small JSON-able description for evidence files."""
    sizes = [len(d) for _, d in corpus]
    return {"streams": len(corpus), "min_bytes": min(sizes), "max_bytes": max(sizes), "total_bytes": sum(sizes)}
