"""Workload generators for the pattern-language properties (C18, C19).

* exhaustive enumeration of pattern syntax trees with exactly N nodes,
  rendered to pattern *text* in several styles (so the parser of the code under
  test, and the reference's own parser, both start from text);
* enumeration of symbol sequences;
* the shape-directed pattern family for C19 (unions of two symbol chains);
* loaders for the patterns the repository really uses: the level table and the
  string literals handed to make_sequence / make_matching_sequence / Matcher in
  the tree under test.

Generator trees (distinct from the reference's AST on purpose):
    "a" | "." | "$"                     leaf (1 node)
    ("*", x) ("+", x) ("?", x)          unary (1 + |x| nodes)
    ("cat", x, y) ("alt", x, y)         binary (1 + |x| + |y| nodes)
"""
import ast as pyast
import itertools
import os

UNARY = ("*", "+", "?")
BINARY = ("cat", "alt")


# --------------------------------------------------------------------------
# syntax trees
# --------------------------------------------------------------------------

_TREE_CACHE = {}


def trees(n, leaves):
    """All trees with exactly n nodes (no `$` restriction applied), as a list."""
    key = (n, tuple(leaves))
    r = _TREE_CACHE.get(key)
    if r is None:
        r = []
        if n == 1:
            r = list(leaves)
        elif n > 1:
            for x in trees(n - 1, leaves):
                for u in UNARY:
                    r.append((u, x))
            for l in range(1, n - 1):
                for x in trees(l, leaves):
                    for y in trees(n - 1 - l, leaves):
                        for b in BINARY:
                            r.append((b, x, y))
        _TREE_CACHE[key] = r
    return r


def t_nullable(t):
    if isinstance(t, str):
        return t == "$"
    if t[0] in ("*", "?"):
        return True
    if t[0] == "+":
        return t_nullable(t[1])
    if t[0] == "cat":
        return t_nullable(t[1]) and t_nullable(t[2])
    return t_nullable(t[1]) or t_nullable(t[2])


def t_dollar_ok(t, tail_optional=True):
    """`$` only where nothing mandatory follows (DESIGN section 7 item 13)."""
    if isinstance(t, str):
        return tail_optional if t == "$" else True
    if t[0] in UNARY:
        return t_dollar_ok(t[1], tail_optional)
    if t[0] == "alt":
        return t_dollar_ok(t[1], tail_optional) and t_dollar_ok(t[2], tail_optional)
    return t_dollar_ok(t[2], tail_optional) and t_dollar_ok(t[1], tail_optional and t_nullable(t[2]))


def t_has(t, leaf):
    if isinstance(t, str):
        return t == leaf
    return any(t_has(x, leaf) for x in t[1:])


_VALID_CACHE = {}


def valid_trees(n, leaves):
    """Trees with exactly n nodes in which every `$` is admissible (cached list; do not modify)."""
    if "$" not in leaves:
        return trees(n, leaves)
    key = (n, tuple(leaves))
    r = _VALID_CACHE.get(key)
    if r is None:
        r = _VALID_CACHE[key] = [t for t in trees(n, leaves) if t_dollar_ok(t)]
    return r


STYLES = ("spaced", "tight", "parens", "airy")


def render(t, style="spaced", names=None):
    """Pattern text of a tree.  Concatenations inside alternations and
    alternations inside concatenations are always parenthesised (the pattern
    language leaves precedence undefined), and so is a left operand of the
    same kind (which makes the rendering injective); `parens` wraps every
    compound node, `tight` uses the least whitespace, `airy` uses
    tabs/newlines."""
    names = names or {}

    def r(t, ctx):
        # ctx: top | mod | catL | catR | altL | altR.  A left operand of the
        # same kind is grouped, a right operand is not, so that different trees
        # always give different texts (the rendering is injective per style).
        if isinstance(t, str):
            return names.get(t, t)
        k = t[0]
        if k in UNARY:
            s = r(t[1], "mod") + k
            # a modifier directly on a modifier is a syntax error: group first
            return "(" + s + ")" if (ctx == "mod" or style == "parens") else s
        if k == "cat":
            a, b = r(t[1], "catL"), r(t[2], "catR")
            if style == "tight":
                sep = "" if (a[-1] in ")?*+.$" or b[0] in "(.$") else " "
            elif style == "airy":
                sep = " \n\t "
            else:
                sep = " "
            s = a + sep + b
            return "(" + s + ")" if (ctx in ("mod", "altL", "altR", "catL") or style == "parens") else s
        a, b = r(t[1], "altL"), r(t[2], "altR")
        sep = "|" if style == "tight" else (" |\n" if style == "airy" else " | ")
        s = a + sep + b
        return "(" + s + ")" if (ctx in ("mod", "catL", "catR", "altL") or style == "parens") else s

    s = r(t, "top")
    if style == "airy":
        s = "\n  " + s + "\t"
    return s


def to_ref_shape(t, names=None):
    """The tree in the reference AST's vocabulary with cat/alt flattened, for
    cross-checking the reference parser (not used for judging)."""
    names = names or {}
    if isinstance(t, str):
        if t == ".":
            return ("any",)
        if t == "$":
            return ("end",)
        return ("sym", names.get(t, t))
    if t[0] in UNARY:
        return ({"*": "star", "+": "plus", "?": "opt"}[t[0]], to_ref_shape(t[1], names))
    kind = t[0]
    kids = []
    for x in (t[1], t[2]):
        y = to_ref_shape(x, names)
        if y[0] == kind:
            kids.extend(y[1])
        else:
            kids.append(y)
    return (kind, kids)


def flatten_ref(a):
    """Flatten nested cat/alt in a reference AST (parenthesised groups of the
    same kind are the same language; used by the parser cross-check)."""
    k = a[0]
    if k in ("cat", "alt"):
        kids = []
        for x in a[1]:
            y = flatten_ref(x)
            if y[0] == k:
                kids.extend(y[1])
            else:
                kids.append(y)
        return (k, kids)
    if k in ("star", "plus", "opt"):
        return (k, flatten_ref(a[1]))
    return a


def sequences(alphabet, length):
    return itertools.product(alphabet, repeat=length)


# --------------------------------------------------------------------------
# shape-directed family for C19
# --------------------------------------------------------------------------


def chain(symbols):
    t = symbols[0]
    for s in symbols[1:]:
        t = ("cat", t, s)
    return t


def chain_unions(alphabet, short_max=2, long_max=4):
    """Unions of two symbol chains (1..short_max and 1..long_max symbols): the
    shape in which taking a required symbol as soon as it fits can be wrong."""
    for l1 in range(1, short_max + 1):
        for l2 in range(1, long_max + 1):
            for s1 in itertools.product(alphabet, repeat=l1):
                for s2 in itertools.product(alphabet, repeat=l2):
                    yield ("alt", chain(s1), chain(s2))


# --------------------------------------------------------------------------
# the repository's own patterns
# --------------------------------------------------------------------------


def data_unit_names():
    from vc2_data_tables import ParseCodes

    return [p.name for p in ParseCodes]


def level_patterns():
    """[(level number, pattern text)] from the level table of the tree under test."""
    from vc2_conformance.level_constraints import LEVEL_SEQUENCE_RESTRICTIONS

    return sorted((int(k), v.sequence_restriction_regex) for k, v in LEVEL_SEQUENCE_RESTRICTIONS.items())


PATTERN_TAKERS = ("make_sequence", "make_matching_sequence", "Matcher")


def source_patterns():
    """String literals passed positionally to make_sequence /
    make_matching_sequence / Matcher anywhere in the package under test:
    {pattern text: sorted list of 'relative/file.py:function'}."""
    import vc2_conformance

    root = os.path.dirname(os.path.abspath(vc2_conformance.__file__))
    found = {}
    for d, _, files in sorted(os.walk(root)):
        for fn in sorted(files):
            if not fn.endswith(".py"):
                continue
            path = os.path.join(d, fn)
            try:
                with open(path, encoding="utf-8") as f:
                    tree = pyast.parse(f.read())
            except (SyntaxError, UnicodeDecodeError):
                continue
            for node in pyast.walk(tree):
                if not isinstance(node, pyast.Call):
                    continue
                fname = getattr(node.func, "id", None) or getattr(node.func, "attr", None)
                if fname not in PATTERN_TAKERS:
                    continue
                for arg in node.args:
                    if isinstance(arg, pyast.Constant) and isinstance(arg.value, str):
                        found.setdefault(arg.value, set()).add("%s:%s" % (os.path.relpath(path, root), fname))
    return {k: sorted(v) for k, v in sorted(found.items())}


GENERIC_PATTERN_HINT = "sequence_header .* end_of_sequence"


def real_pattern_set():
    """All distinct real patterns with where they come from:
    [(text, [origins])], levels first."""
    out = {}
    for lvl, text in level_patterns():
        out.setdefault(text, []).append("level %d" % lvl)
    for text, origins in source_patterns().items():
        out.setdefault(text, []).extend(origins)
    return list(out.items())
