"""Pools of individually valid, pre-serialised data units per *family*, cut out of
real encoder output, and assembly of abstract histories into byte strings.

History item (JSON-able):  {"k": kind, "pn": int or None, "off": op or None, "offv": int or None, "fxy": [x, y] or None (fragment offsets override)}
kinds: SH, SH2 (header differing in one field), SH3 (header differing only in the last coded value), XF0/XFS (first/complete
       fragment of the other profile), PIC, F0, "FS:<cnt>:<start>", PAD, AUX, EOS,
       FOREIGN (picture of the other profile)
offset ops: next0, nextwrong, nextsmall, prevwrong, prev0
"""
import copy
import struct

from vlib import vc2util
from vlib.gen import configs

FAMILIES = {
    # name: profile, version, level, fields, sx, sy
    "hq2": dict(profile=3, version=2, level=0, fields=False, sx=2, sy=1),
    "hq3": dict(profile=3, version=3, level=0, fields=False, sx=2, sy=1),
    "ld1": dict(profile=0, version=1, level=0, fields=False, sx=2, sy=1),
    "ld3": dict(profile=0, version=3, level=0, fields=False, sx=2, sy=2),
    # a header version above what any low-delay sequence without fragments needs, and not 3: every history with a
    # picture is non-conformant (version not minimal) and so is the picture-less one (only version 3 is excused there)
    "ld2": dict(profile=0, version=2, level=0, fields=False, sx=2, sy=1),
    "hq2f": dict(profile=3, version=2, level=0, fields=True, sx=2, sy=1),
    "hq3f": dict(profile=3, version=3, level=0, fields=True, sx=2, sy=1),
    "hq3w": dict(profile=3, version=3, level=0, fields=False, sx=3, sy=1),
    "hq3l1": dict(profile=3, version=3, level=1, fields=False, sx=2, sy=1),
    "hq2l1": dict(profile=3, version=2, level=1, fields=False, sx=2, sy=1),
    "ld3l1": dict(profile=0, version=3, level=1, fields=False, sx=2, sy=1),
    "hq2l66": dict(profile=3, version=2, level=66, fields=False, sx=2, sy=1),
    "ld1l64": dict(profile=0, version=1, level=64, fields=False, sx=2, sy=1),
}
PERMISSIVE_LEVELS = (1, 64, 66)

_BASE = dict(base=0, cdf=0, pcm=0, ss=0, tff=True, w=8, h=4, fr=None, par=None, range=[0, 255, 128, 255], prim=None,
             mat=None, tf=None, profile=3, lossless=False, wi=4, wih=4, d=1, dh=0, sx=2, sy=1, fsc=0, pb=32, qm=None,
             level=0, pics={"n": 1, "class": "noise", "seed": 11, "nums": None})


def install_permissive_levels(levels=PERMISSIVE_LEVELS):
    """Replace the allowed-value columns of the given levels by a single all-permissive
    column (the data-unit ordering *patterns* of those levels stay the real ones).  This is the
    same in-place mutation the repository's tests/alternative_level_constraints.py performs."""
    from vc2_conformance.constraint_table import AnyValue, ValueSet
    from vc2_conformance.level_constraints import LEVEL_CONSTRAINTS
    from vc2_data_tables import Levels

    keys = sorted(LEVEL_CONSTRAINTS[0].keys())
    for lv in levels:
        lvl = Levels(lv)
        for i in reversed(range(len(LEVEL_CONSTRAINTS))):
            if lvl in LEVEL_CONSTRAINTS[i]["level"] and not isinstance(LEVEL_CONSTRAINTS[i]["level"], AnyValue):
                del LEVEL_CONSTRAINTS[i]
        col = {k: AnyValue() for k in keys}
        col["level"] = ValueSet(lvl)
        LEVEL_CONSTRAINTS.append(col)


class Family(object):
    def __init__(self, name):
        from vc2_conformance.encoder import make_sequence

        f = FAMILIES[name]
        self.name = name
        self.profile, self.version, self.level = f["profile"], f["version"], f["level"]
        self.fields, self.sx, self.sy = f["fields"], f["sx"], f["sy"]
        self.nsl = self.sx * self.sy
        r = copy.deepcopy(_BASE)
        r.update(profile=self.profile, level=self.level, sx=self.sx, sy=self.sy, pcm=1 if self.fields else 0,
                 pb=16 * self.nsl, h=8 if self.fields else 4)
        self.recipe = r
        version = self.version

        def build(frag, rr=r):
            rr = copy.deepcopy(rr)
            rr["fsc"] = frag
            cf = configs.build_cf(rr)
            pics = configs.build_pictures(rr, cf["video_parameters"])
            seq = make_sequence(cf, pics)
            seq["data_units"][0]["sequence_header"]["parse_parameters"]["major_version"] = version
            if version < 3:
                for du in seq["data_units"]:
                    if "picture_parse" in du:
                        du["picture_parse"]["wavelet_transform"]["transform_parameters"].pop("extended_transform_parameters", None)
            return vc2util.split_units(vc2util.serialise([seq]))

        self.units = {}
        u = build(0)
        self.units["SH"], self.units["PIC"], self.units["EOS"] = u[0], u[1], u[-1]
        # fragments exist as byte strings for every family (a v1/v2 header simply must reject them);
        # they are cut from a version-3 encoding of the same configuration
        fam3 = self if version >= 3 else None
        saved = version
        version = 3
        r0 = copy.deepcopy(r)
        r0["level"] = 0  # fragment units do not carry the level; some level patterns admit no fragments
        for k in range(1, self.nsl + 1):
            u = build(k, r0)
            self.units["F0"] = u[1]
            start = 0
            for fu in u[2:-1]:
                cnt = struct.unpack(">H", fu[19:21])[0]
                self.units["FS:%d:%d" % (cnt, start)] = fu
                start += cnt
        # fragments of the *other* profile (same slice grid): their parse codes are not allowed by this family's profile
        ro = copy.deepcopy(r0)
        ro["profile"] = 0 if self.profile == 3 else 3
        ro["pb"] = 16 * self.nsl
        u = build(self.nsl, ro)
        self.units["XF0"] = u[1]
        self.units["XFS"] = u[2]
        version = saved
        r2 = copy.deepcopy(r)
        r2["fr"] = [2, 1]
        self.units["SH2"] = build(0, r2)[0]
        # a header differing from SH only in its very last coded value (picture coding mode): same length, and with
        # this frame width the difference sits in the final, partially used byte
        r3 = copy.deepcopy(r)
        r3["pcm"] = 0 if r["pcm"] else 1
        sh3 = build(0, r3)[0]
        if len(sh3) == len(self.units["SH"]) and sh3 != self.units["SH"]:
            self.units["SH3"] = sh3
        self.units["PAD"] = b"BBCD\x30" + struct.pack(">II", 16, 0) + b"\x01\x02\x03"
        self.units["AUX"] = b"BBCD\x20" + struct.pack(">II", 15, 0) + b"\xAA\xBB"
        other = 0xC8 if self.profile == 3 else 0xE8
        self.units["FOREIGN"] = b"BBCD" + bytes([other]) + struct.pack(">II", 0, 0) + b"\x00" * 8

    def kinds(self):
        return sorted(self.units)

    def model_family(self):
        """family description for vlib.ref.structure (pattern filled in by the caller)"""
        return {"profile": self.profile, "version": self.version, "fields": self.fields,
                "slices_x": self.sx, "slices_y": self.sy, "pattern": None}


_cache = {}


def family(name):
    if name not in _cache:
        _cache[name] = Family(name)
    return _cache[name]


def assemble(fam, hist):
    """hist: list of items -> (bytes, abstract units for vlib.ref.structure)"""
    out = bytearray()
    abstract = []
    prev_len = 0
    for it in hist:
        key = it["k"]
        u = bytearray(fam.units[key])
        code = u[4]
        pn = None
        cnt = x = y = None
        if code in vc2util.PICTURE_CODES + vc2util.FRAGMENT_CODES and key != "FOREIGN":
            pn = it.get("pn") or 0
            u[13:17] = struct.pack(">I", pn)
        if code in vc2util.FRAGMENT_CODES:
            cnt = struct.unpack(">H", u[19:21])[0]
            if cnt:
                if it.get("fxy") is not None:
                    u[21:25] = struct.pack(">HH", it["fxy"][0] & 0xFFFF, it["fxy"][1] & 0xFFFF)
                x, y = struct.unpack(">HH", u[21:25])
        length = len(u)
        nxt = 0 if code == 0x10 else length
        prv = prev_len
        op = it.get("off")
        if op == "next0":
            nxt = 0
        elif op == "nextwrong":
            nxt = length + (it.get("offv") or 1)
        elif op == "nextlen":
            nxt = length  # for an end_of_sequence: 13, "pointing" at whatever follows it in a concatenation
        elif op == "nextsmall":
            nxt = 1 + (it.get("offv") or 0) % 12
        elif op == "prevwrong":
            prv = prev_len + (it.get("offv") or 1)
        elif op == "prev0":
            prv = 0
        u[5:9] = struct.pack(">I", nxt & 0xFFFFFFFF)
        u[9:13] = struct.pack(">I", prv & 0xFFFFFFFF)
        abstract.append({"code": code, "pn": pn, "next": nxt & 0xFFFFFFFF, "prev": prv & 0xFFFFFFFF, "length": length,
                         "header_id": key if code == 0 else None, "cnt": cnt, "x": x, "y": y, "k": key})
        out += u
        prev_len = 0 if code == 0x10 else length
    return bytes(out), abstract
