"""Generator of codec configurations (as JSON-able *recipes*) and pictures.

A recipe is a plain dict of ints/strings/lists so that a case can be written
to a replay file; `build_cf(recipe)` turns it into a real CodecFeatures,
`build_pictures(recipe)` into the list of input pictures.

The component dimension/depth computation used to build pictures is written
here from the standard's rule (11.6.2/11.6.3) and does not call the repository.
"""
import random

from vc2_data_tables import (
    BaseVideoFormats,
    ColorDifferenceSamplingFormats,
    Levels,
    PictureCodingModes,
    PresetColorMatrices,
    PresetColorPrimaries,
    PresetTransferFunctions,
    Profiles,
    SourceSamplingModes,
    WaveletFilters,
    QUANTISATION_MATRICES,
    PRESET_SIGNAL_RANGES,
    PRESET_FRAME_RATES,
    PRESET_PIXEL_ASPECT_RATIOS,
)

WAVELETS = [int(w) for w in WaveletFilters]
BASES = [int(b) for b in BaseVideoFormats]


def dims_and_depths(w, h, cdf, pcm, luma_exc, chroma_exc):
    """-> {"Y": (w, h, depth), "C1": ..., "C2": ...}  (independent of the repository)"""
    cw, ch = w, h
    if cdf == 1:  # 4:2:2
        cw //= 2
    elif cdf == 2:  # 4:2:0
        cw //= 2
        ch //= 2
    lh = h
    if pcm == 1:  # fields
        lh //= 2
        ch //= 2
    dl = (luma_exc).bit_length()  # intlog2(exc + 1) == ceil(log2(exc+1)) == bit_length(exc) for exc >= 1
    dc = (chroma_exc).bit_length()
    return {"Y": (w, lh, dl), "C1": (cw, ch, dc), "C2": (cw, ch, dc)}


def has_default_matrix(wi, wih, d, dh):
    return (WaveletFilters(wi), WaveletFilters(wih), d, dh) in QUANTISATION_MATRICES


def random_matrix(rng, d, dh, maxv=8):
    qm = {}
    if dh == 0:
        qm["0"] = {"LL": rng.randrange(maxv + 1)}
    else:
        qm["0"] = {"L": rng.randrange(maxv + 1)}
        for l in range(1, dh + 1):
            qm[str(l)] = {"H": rng.randrange(maxv + 1)}
    for l in range(dh + 1, dh + d + 1):
        qm[str(l)] = {"HL": rng.randrange(maxv + 1), "LH": rng.randrange(maxv + 1), "HH": rng.randrange(maxv + 1)}
    return qm


def random_recipe(rng, space=None):
    """Draw one configuration recipe.  `space` narrows choices:
       profiles, lossless ('yes'|'no'|'any'), max_depth_bits, fragments ('no'|'any'),
       sizes (list of (w,h) multipliers), lossy_bytes ('min'|'any'|'roomy'), depth0 (allow dwt 0/0)
    """
    sp = dict(profiles=[0, 3], lossless="any", max_depth_bits=16, fragments="any", depth0=False,
              lossy_bytes="any", max_dwt=3, bases="any", max_slices=(4, 3), maxw=16, maxh=16)
    sp.update(space or {})
    r = {}
    r["base"] = rng.choice(BASES) if sp["bases"] == "any" else rng.choice(sp["bases"])
    cdf = rng.choice([0, 1, 2])
    pcm = rng.choice([0, 1])
    ss = rng.choice([0, 1])
    r["cdf"], r["pcm"], r["ss"] = cdf, pcm, ss
    r["tff"] = rng.choice([True, False])
    xm = 2 if cdf in (1, 2) else 1
    ym = 2 if cdf == 2 else 1
    if pcm == 1 or ss == 1:
        ym *= 2
    r["w"] = xm * rng.randrange(1, max(2, sp["maxw"] // xm + 1))
    r["h"] = ym * rng.randrange(1, max(2, sp["maxh"] // ym + 1))
    if rng.random() < 0.25:
        # a clean area strictly inside the frame
        r["cw"] = rng.randrange(1, r["w"] + 1)
        r["ch"] = rng.randrange(1, r["h"] + 1)
        if rng.random() < 0.08:
            # an empty clean area (nothing in 11.4.8 or the codec-features reader forbids a zero width or height)
            if rng.random() < 0.5:
                r["cw"] = 0
            else:
                r["ch"] = 0
        r["lo"] = rng.randrange(0, r["w"] - r["cw"] + 1)
        r["to"] = rng.randrange(0, r["h"] - r["ch"] + 1)
    # frame rate / aspect ratio: preset, custom, or base default
    k = rng.random()
    if k < 0.4:
        r["fr"] = None
    elif k < 0.7:
        fr = PRESET_FRAME_RATES[rng.choice(list(PRESET_FRAME_RATES))]
        r["fr"] = [fr.numerator, fr.denominator]
    else:
        r["fr"] = [rng.randrange(1, 200), rng.randrange(1, 5)]
    k = rng.random()
    if k < 0.5:
        r["par"] = None
    elif k < 0.8:
        pa = PRESET_PIXEL_ASPECT_RATIOS[rng.choice(list(PRESET_PIXEL_ASPECT_RATIOS))]
        r["par"] = [pa.numerator, pa.denominator]
    else:
        r["par"] = [rng.randrange(1, 50), rng.randrange(1, 50)]
    # signal range
    k = rng.random()
    maxbits = sp["max_depth_bits"]
    if k < 0.3:
        sr = PRESET_SIGNAL_RANGES[rng.choice(list(PRESET_SIGNAL_RANGES))]
        r["range"] = [sr.luma_offset, sr.luma_excursion, sr.color_diff_offset, sr.color_diff_excursion]
        if max(sr.luma_excursion, sr.color_diff_excursion).bit_length() > maxbits:
            r["range"] = [0, 255, 128, 255]
    else:
        dl = rng.randrange(1, maxbits + 1)
        dc = rng.randrange(1, maxbits + 1) if rng.random() < 0.5 else dl
        le = rng.randrange(1 << (dl - 1), 1 << dl) if dl > 1 else 1
        ce = rng.randrange(1 << (dc - 1), 1 << dc) if dc > 1 else 1
        if rng.random() < 0.5:
            le, ce = (1 << dl) - 1, (1 << dc) - 1
        r["range"] = [rng.choice([0, le // 2, le]), le, rng.choice([0, (ce + 1) // 2, ce]), ce]
    r["prim"] = rng.choice([None] + [int(x) for x in PresetColorPrimaries])
    r["mat"] = rng.choice([None] + [int(x) for x in PresetColorMatrices])
    r["tf"] = rng.choice([None] + [int(x) for x in PresetTransferFunctions])
    # codec
    profile = rng.choice(sp["profiles"])
    r["profile"] = profile
    if sp["lossless"] == "yes":
        lossless = True
        r["profile"] = profile = 3
    elif sp["lossless"] == "no":
        lossless = False
    else:
        lossless = profile == 3 and rng.random() < 0.35
    r["lossless"] = lossless
    wi = rng.choice(WAVELETS)
    wih = wi if rng.random() < 0.6 else rng.choice(WAVELETS)
    d = rng.randrange(0, sp["max_dwt"] + 1)
    dh = rng.choice([0, 0, 0, 1, 2, 3][: 3 + sp["max_dwt"]])
    if d + dh == 0 and not sp["depth0"]:
        d = 1
    if dh == 0 and rng.random() >= 0.12:
        # (otherwise: no horizontal-only level but another horizontal-only wavelet index -- legal, signalled through
        # asym_transform_index_flag alone, needs a custom matrix since no default exists for such a pair)
        wih = wi
    r["wi"], r["wih"], r["d"], r["dh"] = wi, wih, d, dh
    sx = rng.randrange(1, sp["max_slices"][0] + 1)
    sy = rng.randrange(1, sp["max_slices"][1] + 1)
    r["sx"], r["sy"] = sx, sy
    n = sx * sy
    if sp["fragments"] == "no":
        r["fsc"] = 0
    else:
        r["fsc"] = rng.choice([0, 0, 0, 1, 2, n, n + 1])
    if lossless:
        r["pb"] = None
    else:
        mode = sp["lossy_bytes"]
        if profile == 3:
            opts = {"min": [n * 4, n * 4 + 1], "any": [n * 4, n * 4 + 1, n * 5, n * 8 + 1, n * 20 + 3, n * 64, 1000],
                    "roomy": [n * 400, n * 1000 + 7], "huge": [n * 300, n * 700 + 13, n * 1100]}[mode]
        else:
            opts = {"min": [n, n + 1], "any": [n, n + 1, 2 * n + 1, n * 5, n * 9, n * 40 + 7, 1000],
                    "roomy": [n * 400, n * 1000 + 7], "huge": [n * 300, n * 700 + 13]}[mode]
        r["pb"] = rng.choice(opts)
    if sp.get("allow_missing_matrix") and not has_default_matrix(wi, wih, d, dh) and rng.random() < 0.25:
        # no default matrix exists and none is supplied: the encoder must refuse this configuration
        r["qm"] = None
        r["expect_rejection"] = "MissingQuantizationMatrixError"
    elif not has_default_matrix(wi, wih, d, dh) or rng.random() < 0.2:
        r["qm"] = random_matrix(rng, d, dh)
    else:
        r["qm"] = None
    r["level"] = 0
    # pictures
    npics = rng.choice([1, 1, 2, 3]) * (2 if pcm == 1 else 1)
    r["pics"] = {
        "n": npics,
        "class": rng.choice(["zero", "max", "mid", "noise", "noise", "checker", "ramp", "mixed"]),
        "seed": rng.randrange(1 << 30),
        "nums": rng.choice([None, None, 0, 2, 100, 2 ** 32 - 2]),
    }
    return r


SIBLING_ATTRS = ["cdf", "chroma_depth", "luma_depth", "wi", "dh", "d", "sx", "sy", "pcm", "size", "qm", "fsc", "pb", "range_same_depth",
                 "colour"]


def sibling(rng, r, attr=None):
    """A copy of recipe `r` with exactly one attribute changed (and whatever must follow from it: a matrix where no
    default exists, regular dimensions).  Running siblings one after the other in the same process exposes state
    that survives between encodes/decodes under too coarse a key (caches, memoised geometry, tables written in place)."""
    import copy

    s = copy.deepcopy(r)
    attr = attr or rng.choice(SIBLING_ATTRS)
    rg = list(s.get("range") or [0, 255, 128, 255])
    if attr == "cdf":
        s["cdf"] = rng.choice([c for c in (0, 1, 2) if c != r["cdf"]])
    elif attr == "chroma_depth":
        rg[2], rg[3] = (512, 1023) if rg[3] != 1023 else (128, 255)
        s["range"] = rg
    elif attr == "luma_depth":
        rg[0], rg[1] = (64, 1023) if rg[1] != 1023 else (16, 255)
        s["range"] = rg
    elif attr == "range_same_depth":
        # other offsets/excursions, same bit depths (e.g. full range 0/255 -> video range 16/219)
        for o, e in ((0, 1), (2, 3)):
            bits = rg[e].bit_length()
            lo = 1 << (bits - 1)
            rg[e] = rg[e] - max(1, rg[e] // 7) if rg[e] - max(1, rg[e] // 7) >= lo else min((1 << bits) - 1, rg[e] + 1)
            rg[o] = rg[o] + max(1, rg[e] // 16) if rg[o] + max(1, rg[e] // 16) < (1 << bits) else 0
        s["range"] = rg
    elif attr == "colour":
        s["prim"] = 1 if r.get("prim") != 1 else 3
        s["tf"] = 1 if r.get("tf") != 1 else 2
    elif attr == "wi":
        s["wi"] = (r["wi"] + 1) % 7
        if r["dh"] == 0:
            s["wih"] = s["wi"]
    elif attr == "dh":
        s["dh"] = 0 if r["dh"] else 1
        if s["dh"] == 0:
            s["wih"] = s["wi"]
    elif attr == "d":
        s["d"] = r["d"] + 1 if r["d"] < 2 else r["d"] - 1
    elif attr == "sx":
        s["sx"] = r["sx"] + 1 if r["sx"] < 3 else 1
    elif attr == "sy":
        s["sy"] = r["sy"] + 1 if r["sy"] < 2 else 1
    elif attr == "pcm":
        s["pcm"] = 1 - r["pcm"]
        s["pics"]["n"] = max(1, r["pics"]["n"] // 2) * (2 if s["pcm"] else 1)
    elif attr == "size":
        s["w"], s["h"] = r["w"] * 2, r["h"]
        for k in ("cw", "ch", "lo", "to"):
            s.pop(k, None)
    elif attr == "qm":
        s["qm"] = random_matrix(rng, s["d"], s["dh"])
    elif attr == "fsc":
        s["fsc"] = 0 if r["fsc"] else rng.choice([1, 2])
    elif attr == "pb":
        if s["pb"] is not None:
            s["pb"] = s["pb"] + rng.choice([1, 3, s["sx"] * s["sy"]])
    # keep the recipe in the generator's domain
    xm = 2 if s["cdf"] in (1, 2) else 1
    ym = (2 if s["cdf"] == 2 else 1) * (2 if (s["pcm"] == 1 or s["ss"] == 1) else 1)
    if s["w"] % xm:
        s["w"] += xm - s["w"] % xm
    if s["h"] % ym:
        s["h"] += ym - s["h"] % ym
    if "cw" in s:
        s["cw"], s["ch"] = min(s["cw"], s["w"]), min(s["ch"], s["h"])
        s["lo"], s["to"] = min(s["lo"], s["w"] - s["cw"]), min(s["to"], s["h"] - s["ch"])
    if s.get("qm") is not None and attr in ("wi", "dh", "d"):
        s["qm"] = random_matrix(rng, s["d"], s["dh"])
    if s.get("qm") is None and not has_default_matrix(s["wi"], s["wih"], s["d"], s["dh"]):
        s["qm"] = random_matrix(rng, s["d"], s["dh"])
    s.pop("expect_rejection", None)
    if s["pb"] is not None:
        n = s["sx"] * s["sy"]
        s["pb"] = max(s["pb"], n * (4 if s["profile"] == 3 else 1))
    s["sibling_of"] = attr
    return s


def build_vp(r):
    from vc2_conformance.pseudocode.video_parameters import set_source_defaults

    vp = set_source_defaults(BaseVideoFormats(r["base"]))
    vp["frame_width"] = r["w"]
    vp["frame_height"] = r["h"]
    vp["clean_width"] = r.get("cw", r["w"])
    vp["clean_height"] = r.get("ch", r["h"])
    vp["left_offset"] = r.get("lo", 0)
    vp["top_offset"] = r.get("to", 0)
    vp["color_diff_format_index"] = ColorDifferenceSamplingFormats(r["cdf"])
    vp["source_sampling"] = SourceSamplingModes(r["ss"])
    vp["top_field_first"] = bool(r["tff"])
    if r.get("fr"):
        vp["frame_rate_numer"], vp["frame_rate_denom"] = r["fr"]
    if r.get("par"):
        vp["pixel_aspect_ratio_numer"], vp["pixel_aspect_ratio_denom"] = r["par"]
    if r.get("range"):
        vp["luma_offset"], vp["luma_excursion"], vp["color_diff_offset"], vp["color_diff_excursion"] = r["range"]
    if r.get("prim") is not None:
        vp["color_primaries_index"] = PresetColorPrimaries(r["prim"])
    if r.get("mat") is not None:
        vp["color_matrix_index"] = PresetColorMatrices(r["mat"])
    if r.get("tf") is not None:
        vp["transfer_function_index"] = PresetTransferFunctions(r["tf"])
    return vp


def build_cf(r, name="cfg"):
    from vc2_conformance.codec_features import CodecFeatures

    qm = None
    if r.get("qm") is not None:
        qm = {int(l): dict(o) for l, o in r["qm"].items()}
    return CodecFeatures(
        name=name,
        level=Levels(r.get("level", 0)),
        profile=Profiles(r["profile"]),
        picture_coding_mode=PictureCodingModes(r["pcm"]),
        video_parameters=build_vp(r),
        wavelet_index=WaveletFilters(r["wi"]),
        wavelet_index_ho=WaveletFilters(r["wih"]),
        dwt_depth=r["d"],
        dwt_depth_ho=r["dh"],
        slices_x=r["sx"],
        slices_y=r["sy"],
        fragment_slice_count=r["fsc"],
        lossless=bool(r["lossless"]),
        picture_bytes=r["pb"],
        quantization_matrix=qm,
    )


def recipe_dims(r, vp=None):
    if vp is None:
        vp = build_vp(r)
    return dims_and_depths(
        vp["frame_width"], vp["frame_height"], int(vp["color_diff_format_index"]), r["pcm"],
        vp["luma_excursion"], vp["color_diff_excursion"],
    )


def _codelen_component(rng, w, h, depth, target_bytes):
    """w x h samples at `depth` bits: mid-grey (coefficient 0) everywhere when target_bytes is None, else
    coefficients (sample - 2**(depth-1)) whose signed exp-golomb code lengths sum to a bit count in
    (8*(target_bytes-1), 8*target_bytes], so a depth-0 lossless slice component is exactly target_bytes long."""
    mid = 1 << (depth - 1)
    n = w * h
    if target_bytes is None:
        return [[mid] * w for _ in range(h)]
    # magnitude tiers: |v| in [2**k - 1, 2**(k+1) - 2] costs 2k+1 bits plus a sign bit (k >= 1); 0 costs 1 bit
    maxk = depth - 1  # |v| <= 2**(depth-1) - 1 always representable on both sides
    tiers = [0] * n
    cost = lambda k: 1 if k == 0 else 2 * k + 2
    lo, hi = 8 * (target_bytes - 1) + 1, 8 * target_bytes
    want = rng.randrange(lo, hi + 1)
    total = n
    guard = 0
    while total != want and guard < 200000:
        guard += 1
        i = rng.randrange(n)
        if total < want:
            if tiers[i] < maxk - 1:
                total += cost(tiers[i] + 1) - cost(tiers[i])
                tiers[i] += 1
        else:
            if tiers[i] > 0:
                total += cost(tiers[i] - 1) - cost(tiers[i])
                tiers[i] -= 1
        if lo <= total <= hi and guard > 4 * n:
            break
    vals = []
    for k in tiers:
        if k == 0:
            vals.append(mid)
        else:
            m = rng.randrange((1 << k) - 1, (1 << (k + 1)) - 1)
            vals.append(mid + (m if rng.random() < 0.5 else -m))
    return [vals[y * w:(y + 1) * w] for y in range(h)]


def codelen_recipe(rng, target_bytes):
    """A lossless, transform-depth-0, single-slice HQ recipe whose one slice has a component of exactly target_bytes."""
    r = random_recipe(rng, {"lossless": "yes", "depth0": True, "fragments": "no"})
    for k in ("cw", "ch", "lo", "to"):
        r.pop(k, None)
    r["d"] = r["dh"] = 0
    r["wih"] = r["wi"]
    r["qm"] = None
    r.pop("expect_rejection", None)
    r["sx"] = r["sy"] = 1
    r["fsc"] = 0
    r["cdf"] = 0
    r["pcm"] = 0
    r["range"] = rng.choice([[0, 255, 128, 255], [0, 1023, 512, 1023], [0, 4095, 2048, 4095]])
    depth = r["range"][1].bit_length()
    # enough samples that target_bytes is reachable with codes of at most 2*depth bits each, few enough that it needs > 1 bit each
    need = target_bytes * 8
    side = [(8, 8), (16, 8), (16, 16), (32, 16), (32, 32), (64, 32)]
    fits = [(w, h) for w, h in side if w * h * 2 <= need <= w * h * (2 * depth - 4)]
    r["w"], r["h"] = rng.choice(fits or [(32, 32)])
    r["pics"] = {"n": rng.choice([1, 2]), "class": "codelen", "seed": rng.randrange(1 << 30), "nums": None,
                 "L": target_bytes, "tc": rng.choice(["Y", "Y", "C1", "C2"])}
    return r


def build_pictures(r, vp=None):
    dd = recipe_dims(r, vp)
    spec = r["pics"]
    rng = random.Random(spec["seed"])
    pics = []
    for i in range(spec["n"]):
        cls = spec["class"]
        if cls == "mixed":
            cls = rng.choice(["zero", "max", "mid", "noise", "checker", "ramp"])
        p = {}
        for c, (w, h, depth) in dd.items():
            mx = (1 << depth) - 1
            if cls == "codelen":
                # samples whose signed exp-golomb codes (transform depth 0, lossless) total a chosen number of bytes
                p[c] = _codelen_component(rng, w, h, depth, spec["L"] if c == spec["tc"] else None)
                continue
            if cls == "zero":
                p[c] = [[0] * w for _ in range(h)]
            elif cls == "max":
                p[c] = [[mx] * w for _ in range(h)]
            elif cls == "mid":
                p[c] = [[1 << (depth - 1)] * w for _ in range(h)]
            elif cls == "noise":
                p[c] = [[rng.randrange(mx + 1) for _ in range(w)] for _ in range(h)]
            elif cls == "checker":
                p[c] = [[mx if (x + y) & 1 else 0 for x in range(w)] for y in range(h)]
            else:  # ramp
                p[c] = [[((x * 37 + y * 11 + i) * max(1, mx // 16)) % (mx + 1) for x in range(w)] for y in range(h)]
        if spec["nums"] is not None:
            p["pic_num"] = (spec["nums"] + i) & 0xFFFFFFFF
        pics.append(p)
    return pics


def stratum(r):
    """Coarse stratum label for evidence."""
    return "%s/%s/%s/%s/%s/%s" % (
        "LD" if r["profile"] == 0 else "HQ",
        "lossless" if r["lossless"] else "lossy",
        "frag" if r["fsc"] else "pic",
        "asym" if r["dh"] else "sym",
        ["444", "422", "420"][r["cdf"]],
        "fields" if r["pcm"] else "frames",
    )
