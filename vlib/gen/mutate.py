"""Mutators for the fuzzing checks (C02, C06, C25, C26).

All functions are deterministic given the `random.Random` they are handed.

    mutate_bytes(data, rng, corpus=None)  -> (bytes, opname)
    mutate_fields(data, rng)              -> (bytes | None, opname)
    coordinated(data, rng, corpus=None)   -> (bytes | None, opname)
    random_case(corpus, rng)              -> {"data": bytes, "op": str, "seed": label}
    truncations(data)                     -> iterator over every proper prefix

`corpus` is a list of (label, bytes) as returned by vlib.gen.corpus.seed_corpus.

Only the *generation* of inputs happens here; nothing in this module judges
anything.  The repository's Deserialiser / Serialiser are used as tools to
turn a byte string into a description and back (without autofill).
"""
import pickle
import struct
from io import BytesIO

from vlib import vc2util
from vlib.worker import OutOfScope
from vlib.vc2util import (
    FRAGMENT_CODES, PC_AUX, PC_END_OF_SEQUENCE, PC_PADDING, PC_SEQUENCE_HEADER, PICTURE_CODES,
)

STATS = {"fields_strict": 0, "fields_tolerant": 0, "fields_unserialisable": 0, "fields_undeserialisable": 0}

VALID_CODES = [0x00, 0x10, 0x20, 0x30, 0xC8, 0xE8, 0xCC, 0xEC]
ODD_CODES = [0x01, 0x08, 0x11, 0x21, 0x31, 0x40, 0x80, 0xC9, 0xCA, 0xE9, 0xED, 0xFF, 0xC0, 0xE0, 0x88, 0x0C]


# ==========================================================================
# byte level
# ==========================================================================
def _rbytes(rng, n):
    return bytes(rng.randrange(256) for _ in range(n))


def _unit_list(data):
    """-> (list of bytearray per unit, list of Unit) or (None, None)"""
    try:
        us = vc2util.framing(data, strict=False)
    except Exception:
        return None, None
    if not us:
        return None, None
    return [bytearray(data[u.offset:u.offset + u.length]) for u in us], us


def _join_units(units, fix_offsets=True):
    """vc2util.join_units, tolerating units shorter than a parse_info (which
    framing() produces for next offsets 1..12): those are copied verbatim"""
    if not fix_offsets or all(len(u) >= 13 for u in units):
        return vc2util.join_units([bytes(u) for u in units], fix_offsets=fix_offsets)
    out = bytearray()
    prev_len = 0
    for u in units:
        u = bytearray(u)
        if len(u) >= 13:
            is_eos = u[4] == PC_END_OF_SEQUENCE
            u[5:9] = struct.pack(">I", 0 if is_eos else len(u))
            u[9:13] = struct.pack(">I", prev_len)
            prev_len = 0 if is_eos else len(u)
        else:
            prev_len += len(u)
        out += u
    return bytes(out)


def _other(corpus, rng, data):
    if corpus:
        return rng.choice(corpus)[1]
    return data


BYTE_OPS = [
    ("bitflip", 20), ("bytesub", 14), ("insert", 8), ("delete", 8), ("truncate", 6), ("splice", 8),
    ("unit-dup", 5), ("unit-drop", 6), ("unit-swap", 5), ("pihdr", 10), ("interesting", 6),
]
_BYTE_OP_NAMES = [n for n, _ in BYTE_OPS]
_BYTE_OP_WEIGHTS = [w for _, w in BYTE_OPS]


def _apply_byte_op(b, op, rng, corpus):
    """b: bytearray (non empty) -> bytearray"""
    n = len(b)
    p = rng.randrange(n)
    if op == "bitflip":
        b[p] ^= 1 << rng.randrange(8)
    elif op == "bytesub":
        b[p] = rng.randrange(256)
    elif op == "insert":
        b[p:p] = _rbytes(rng, rng.randrange(1, 4))
    elif op == "delete":
        del b[p:p + rng.randrange(1, 4)]
    elif op == "truncate":
        b = b[:p]
    elif op == "splice":
        o = _other(corpus, rng, bytes(b))
        q = rng.randrange(len(o)) if o else 0
        chunk = o[q:q + rng.randrange(1, 40)]
        if rng.random() < 0.5:
            b[p:p] = chunk
        else:
            b[p:p + len(chunk)] = chunk
    elif op == "interesting":
        w = rng.choice([1, 2, 4])
        v = rng.choice([0, 1, 12, 13, 14, 0x7F, 0x80, 0xFF, 0xFFFF, 0xFFFFFFFF, 0x42424344])
        b[p:p + w] = (v & ((1 << (8 * w)) - 1)).to_bytes(w, "big")
    elif op in ("unit-dup", "unit-drop", "unit-swap", "pihdr"):
        units, us = _unit_list(bytes(b))
        if not units or len(units) < 2:
            b[p] ^= 1 << rng.randrange(8)
            return b
        i = rng.randrange(len(units))
        fix = rng.random() < 0.7
        if op == "unit-dup":
            units.insert(i, bytearray(units[i]))
            b = bytearray(_join_units(units, fix_offsets=fix))
        elif op == "unit-drop":
            del units[i]
            b = bytearray(_join_units(units, fix_offsets=fix))
        elif op == "unit-swap":
            j = rng.randrange(len(units))
            units[i], units[j] = units[j], units[i]
            b = bytearray(_join_units(units, fix_offsets=fix))
        else:  # pihdr: patch one parse_info field of unit i in place
            off = us[i].offset
            which = rng.choice(["code", "code", "next", "next", "prev", "prev", "prefix"])
            if which == "code":
                b[off + 4] = rng.choice(VALID_CODES + VALID_CODES + ODD_CODES)
            elif which == "prefix":
                b[off + rng.randrange(4)] ^= 1 << rng.randrange(8)
            else:
                cur = us[i].next if which == "next" else us[i].prev
                v = rng.choice([0, 0, rng.randrange(1, 13), 13, cur + 1, max(0, cur - 1), cur + rng.randrange(2, 40),
                                len(b), 0xFFFFFFFF, rng.randrange(1 << 32)])
                o = off + (5 if which == "next" else 9)
                b[o:o + 4] = struct.pack(">I", v & 0xFFFFFFFF)
    return b


def mutate_bytes(data, rng, corpus=None):
    """One to five stacked byte-level operations, or one of the two random-bytes
    constructions.  -> (bytes, opname)"""
    r = rng.random()
    if r < 0.03:
        return _rbytes(rng, rng.choice([0, 1, 4, 13, 14, 30, 64, 200])), "b:random"
    if r < 0.08:
        return _header_then_random(data, rng), "b:hdr-then-random"
    if r < 0.092:
        out = long_zero_run(data, rng)
        if out is not None:
            return out, "b:long-zero-run"
    b = bytearray(data)
    k = rng.choice([1, 1, 1, 1, 2, 2, 3, 5])
    names = []
    for _ in range(k):
        if not b:
            break
        op = rng.choices(_BYTE_OP_NAMES, _BYTE_OP_WEIGHTS)[0]
        b = _apply_byte_op(b, op, rng, corpus)
        names.append(op)
    return bytes(b), "b:" + "+".join(names)


def _header_then_random(data, rng):
    """a valid sequence header data unit followed by random bytes (optionally
    introduced by a well-formed parse_info so that the body parsers are reached)"""
    units, us = _unit_list(data)
    if not units or us[0].parse_code != PC_SEQUENCE_HEADER:
        return _rbytes(rng, 40)
    hdr = bytes(units[0])
    tail = _rbytes(rng, rng.choice([0, 3, 13, 20, 60, 150]))
    k = rng.random()
    if k < 0.6:
        code = rng.choice(VALID_CODES[1:] + [0xE8, 0xC8, 0xEC, 0xCC])
        nxt = rng.choice([0, 0, 13 + len(tail), 13, rng.randrange(1 << 16)])
        if code in (PC_AUX, PC_PADDING) and rng.random() < 0.7:
            nxt = 13 + len(tail)
        pi = b"BBCD" + bytes([code]) + struct.pack(">II", nxt, len(hdr))
        out = hdr + pi + tail
        if rng.random() < 0.3:
            out += b"BBCD\x10" + struct.pack(">II", 0, 13 + len(tail))
        return out
    return hdr + tail


def long_zero_run(data, rng):
    """A run of >= 3572 zero bytes inside the payload of a sequence header: the
    unbounded exp-Golomb field being read there (version, profile, level, an
    index, a frame rate / aspect ratio / clean area / offset value ...) decodes
    to an integer of more than 4300 decimal digits.  Offsets are re-made
    consistent so that the validator gets as far as that field."""
    units, us = _unit_list(data)
    if not units:
        return None
    hdrs = [i for i, u in enumerate(us) if u.parse_code == PC_SEQUENCE_HEADER and len(units[i]) > 14]
    if not hdrs:
        return None
    i = rng.choice(hdrs)
    u = bytearray(units[i])
    p = rng.randrange(13, len(u))
    run = bytes(rng.choice([3572, 3600, 3700, 4000]))
    k = rng.random()
    if k < 0.4:
        # land inside the current field whatever the bit phase: keep the leading bits of the byte at p
        keep = rng.randrange(0, 8)
        first = u[p] & (0xFF << (8 - keep)) & 0xFF if keep else 0
        u[p:p + 1] = bytes([first]) + run + rng.choice([b"\x80", b"\x40", b"\xff"]) + bytes([u[p]])
    elif k < 0.8:
        u[p:p] = run + rng.choice([b"\x80", b"\x40"])
    else:
        u[p:] = run + b"\x80" + bytes(rng.choice([0, 20, 85]))
    units[i] = u
    return _join_units(units, fix_offsets=True)


def truncations(data):
    """every proper prefix of data, shortest first"""
    for i in range(len(data)):
        yield data[:i]


# ==========================================================================
# field level
# ==========================================================================
_CTX_CACHE = {}
_CTX_CACHE_MAX = 400

FIELD_CLASS_WEIGHTS = {
    "parse_info": 25, "parse_parameters": 10, "seqhdr": 22, "pichdr": 15, "transform_parameters": 22,
    "slicehdr": 6, "padbits": 3, "coeff": 2, "payload": 1, "other": 1,
}
_PICHDR = ("picture_number", "fragment_data_length", "fragment_slice_count", "fragment_x_offset", "fragment_y_offset")
_SLICEHDR = ("qindex", "slice_y_length", "slice_c1_length", "slice_c2_length", "prefix_bytes")
_COEFF = ("y_transform", "c_transform", "c1_transform", "c2_transform")

# size-determining fields are kept small in tolerant mode (the generator must not
# run for minutes writing default coefficients)
_TOL_BOUNDS = dict(frame_width=64, frame_height=64, dwt_depth=5, dwt_depth_ho=5, slices_x=24, slices_y=24,
                   slice_prefix_bytes=80, slice_size_scaler=80, slice_bytes_numerator=1 << 15)
_TOL_MAX_VALUES = 30000
# strict mode: only what would make the *generator* itself spin (2 ** dwt_depth ...)
# (slices_x / slices_y: the slice loops run slices_y x slices_x times even when one of the two is 0 and nothing is written)
_GEN_BOUNDS = dict(dwt_depth=12, dwt_depth_ho=12, frame_width=1 << 20, frame_height=1 << 20, slices_x=4096, slices_y=4096)


class _TooBig(Exception):
    pass


def _bitarray_type():
    from bitarray import bitarray

    return bitarray


_DESER_BOUNDS = dict(frame_width=1024, frame_height=1024, dwt_depth=12, dwt_depth_ho=12, slices_x=64, slices_y=64,
                     slice_prefix_bytes=1024, slice_size_scaler=1024, slice_bytes_numerator=1 << 16)
_DESER_MAX_VALUES = 60000


def _safe_deserialise(data):
    """Deserialise with the repository's (Monitored)Deserialiser, giving up on
    inputs that declare sizes which would keep the *generator* busy for minutes
    (`data` may itself be a mutant when operators are stacked)."""
    import vc2_conformance.bitstream as bs
    from vc2_conformance.pseudocode.state import State

    n = [0]

    def monitor(des, target, value):
        n[0] += 1
        if n[0] > _DESER_MAX_VALUES:
            raise _TooBig("values")
        b = _DESER_BOUNDS.get(target)
        if b is not None and isinstance(value, int) and value > b:
            raise _TooBig(target)

    r = bs.BitstreamReader(BytesIO(data))
    with bs.MonitoredDeserialiser(monitor, r) as des:
        bs.parse_stream(des, State())
    return des.context


def _context_of(data):
    """deserialised description of `data` (fresh copy each call) or None"""
    p = _CTX_CACHE.get(data)
    if p is None:
        try:
            ctx = _safe_deserialise(data)
        except (Exception, OutOfScope):
            return None
        p = pickle.dumps(ctx, 4)
        if len(_CTX_CACHE) >= _CTX_CACHE_MAX:
            _CTX_CACHE.clear()
        _CTX_CACHE[data] = p
    return pickle.loads(p)


def _leaves(node, path, out):
    if isinstance(node, dict):
        for k, v in node.items():
            if isinstance(k, str) and k.startswith("_"):
                continue
            _leaves(v, path + (k,), out)
    elif isinstance(node, list):
        for i, v in enumerate(node):
            _leaves(v, path + (i,), out)
    else:
        out.append((path, node))


def _classify(path, value):
    keys = [p for p in path if isinstance(p, str)]
    key = keys[-1]
    if isinstance(value, _bitarray_type()):
        return "padbits"
    if "parse_info" in keys:
        return "parse_info"
    if "parse_parameters" in keys:
        return "parse_parameters"
    if "sequence_header" in keys:
        return "seqhdr"
    if key in _PICHDR:
        return "pichdr"
    if "transform_parameters" in keys:
        return "transform_parameters"
    if key in _SLICEHDR:
        return "slicehdr"
    if key in _COEFF:
        return "coeff"
    if key == "bytes":
        return "payload"
    return "other"


def _new_value(key, v, rng, data_len):
    bitarray = _bitarray_type()
    if isinstance(v, bool):
        return not v
    if isinstance(v, bitarray):
        k = rng.random()
        n = len(v)
        if k < 0.6:
            return bitarray([rng.randrange(2) for _ in range(n)])
        if k < 0.8:
            return bitarray([1] * n)
        if k < 0.9:
            return bitarray([rng.randrange(2) for _ in range(rng.randrange(n + 1))])
        return bitarray([rng.randrange(2) for _ in range(n + 1)])  # too long: not serialisable
    if isinstance(v, (bytes, bytearray)):
        k = rng.random()
        if k < 0.7:
            return _rbytes(rng, len(v))
        if k < 0.9:
            return _rbytes(rng, rng.randrange(len(v) + 1))
        return _rbytes(rng, len(v) + 1)
    if not isinstance(v, int):
        return v
    v = int(v)
    if key == "parse_code":
        return rng.choice(VALID_CODES + VALID_CODES + ODD_CODES + [rng.randrange(256)])
    if key in ("next_parse_offset", "previous_parse_offset"):
        return rng.choice([0, 0, rng.randrange(1, 13), rng.randrange(1, 13), 13, 14, v + 1, max(0, v - 1),
                           v + rng.randrange(2, 60), data_len, 0xFFFFFFFF, rng.randrange(1 << 32)])
    if key == "parse_info_prefix":
        return rng.choice([0, v ^ (1 << rng.randrange(32)), 0x42424345, 0x44434242, 0xFFFFFFFF])
    if key == "picture_number":
        return rng.choice([0, 1, (v + 1) & 0xFFFFFFFF, (v - 1) & 0xFFFFFFFF, (v + 2) & 0xFFFFFFFF, v ^ 1,
                           0xFFFFFFFF, 0xFFFFFFFE, rng.randrange(1 << 32)])
    if key in ("fragment_data_length", "fragment_slice_count", "fragment_x_offset", "fragment_y_offset"):
        return rng.choice([0, 0, 1, 2, 3, v + 1, max(0, v - 1), v + 2, 17, 0xFFFF, rng.randrange(1 << 16)])
    if key == "qindex":
        return rng.choice([0, 1, v + 1, max(0, v - 1), 63, 64, 100, 127, 128, 200, 255, rng.randrange(128)])
    if key in ("slice_y_length", "slice_c1_length", "slice_c2_length"):
        return rng.choice([0, 0, 1, v + 1, max(0, v - 1), v + 2, 2 * v, 255, rng.randrange(64), rng.randrange(256)])
    if key in _COEFF:
        return rng.choice([0, 1, -1, -v, v + 1, v - 1, 2 * v + 1, 255, -256, 1 << 20, -(1 << 31), rng.randrange(-40, 41)])
    if key == "level":
        # the real levels constrain profile, version and everything after them: each is worth reaching
        return rng.choice([1, 2, 3, 4, 5, 6, 7, 64, 64, 65, 65, 66, 66, 8, 63, 67, rng.randrange(0, 80)])
    if key in ("profile", "major_version") and rng.random() < 0.7:
        return rng.choice([0, 1, 2, 3, 3, 4])
    # generic unsigned exp-Golomb field
    if rng.random() < 0.012:
        # more than 4300 decimal digits (CPython's int -> str conversion limit)
        return (1 << rng.choice([14300, 14400, 16000])) - rng.choice([0, 1])
    return rng.choice([0, 0, 1, 1, 2, 3, 4, v + 1, v + 1, max(0, v - 1), 2 * v, 2 * v + 1, rng.randrange(0, 24),
                       rng.randrange(0, 24), 63, 255, 1 << 16, (1 << 32) - 1, 1 << 40])


def _set_path(ctx, path, value):
    node = ctx
    for p in path[:-1]:
        node = node[p]
    node[path[-1]] = value


_MAX_OUTPUT_BITS = 240000  # 30 kB: nothing a mutated seed legitimately needs is larger


def _counting_writer(out, tolerant=False):
    """BitstreamWriter that refuses to write more than _MAX_OUTPUT_BITS (a
    mutated prefix-bytes / scaler / slice-bytes field would otherwise make the
    *generator* pad zeros for minutes).  tolerant: a 0 written past the end of
    a bounded block is dropped instead of being an error."""
    import vc2_conformance.bitstream as bs

    class CountingWriter(bs.BitstreamWriter):
        nbits = 0

        def write_bit(self, value):
            self.nbits += 1
            if self.nbits > _MAX_OUTPUT_BITS:
                raise _TooBig("output")
            if tolerant and not value and self._bits_remaining is not None and self._bits_remaining <= 0:
                value = 1
            return bs.BitstreamWriter.write_bit(self, value)

    return CountingWriter(out)


def _strict_serialise(ctx):
    import vc2_conformance.bitstream as bs
    from vc2_conformance.pseudocode.state import State

    class Bounded(bs.Serialiser):
        def uint(self, target):
            value = super(Bounded, self).uint(target)
            b = _GEN_BOUNDS.get(target)
            if b is not None and value > b:
                raise _TooBig(target)
            return value

    out = BytesIO()
    w = _counting_writer(out)
    with Bounded(w, ctx) as ser:
        bs.parse_stream(ser, State())
    w.flush()
    return out.getvalue()


def _tolerant_serialise(ctx):
    """Serialise a description whose shape no longer matches its own headers:
    missing values come from the repository's default-values table, surplus
    values are ignored.  Still no autofill: offsets/numbers stay as they are."""
    import vc2_conformance.bitstream as bs
    from vc2_conformance.bitstream.exceptions import UnusedTargetError
    from vc2_conformance.pseudocode.state import State

    class Tolerant(bs.Serialiser):
        nvalues = 0

        def _get_context_value(self, target):
            self.nvalues += 1
            if self.nvalues > _TOL_MAX_VALUES:
                raise _TooBig("values")
            return super(Tolerant, self)._get_context_value(target)

        def _setdefault_context_value(self, target, default):
            self.nvalues += 1
            if self.nvalues > _TOL_MAX_VALUES:
                raise _TooBig("contexts")
            return super(Tolerant, self)._setdefault_context_value(target, default)

        def _verify_context_is_complete(self):
            try:
                super(Tolerant, self)._verify_context_is_complete()
            except UnusedTargetError:
                pass

        def uint(self, target):
            value = super(Tolerant, self).uint(target)
            b = _TOL_BOUNDS.get(target)
            if b is not None and value > b:
                raise _TooBig(target)
            return value

        # padding whose length no longer fits (a header field before it changed
        # size, so byte alignment moved) is cut to what is needed
        def bitarray(self, target, num_bits):
            value = self._get_context_value(target)
            if len(value) > num_bits:
                value = value[:max(0, num_bits)]
            self.io.write_bitarray(max(0, num_bits), value)
            return value

        def bytes(self, target, num_bytes):
            value = self._get_context_value(target)
            if len(value) > num_bytes:
                value = value[:max(0, num_bytes)]
            self.io.write_bytes(max(0, num_bytes), value)
            return value

    out = BytesIO()
    w = _counting_writer(out, tolerant=True)
    ser = Tolerant(w, ctx, bs.vc2_default_values)
    bs.parse_stream(ser, State())
    w.flush()
    return out.getvalue()


def serialise_description(ctx):
    """-> (bytes | None, mode) with mode in "strict" | "tolerant" | "unserialisable" """
    # (OutOfScope: a size guard installed by the calling check also sits on the
    # set_coding_parameters alias the serialiser uses)
    try:
        out = _strict_serialise(ctx)
        STATS["fields_strict"] += 1
        return out, "strict"
    except (Exception, OutOfScope):
        pass
    try:
        out = _tolerant_serialise(ctx)
        STATS["fields_tolerant"] += 1
        return out, "tolerant"
    except (Exception, OutOfScope):
        STATS["fields_unserialisable"] += 1
        return None, "unserialisable"


def mutate_fields(data, rng):
    """Deserialise, change 1-3 fields (structure favoured over coefficients),
    re-serialise without autofill.  -> (bytes | None, opname); None when the
    edited description no longer serialises (or `data` does not deserialise)."""
    ctx = _context_of(data)
    if ctx is None:
        STATS["fields_undeserialisable"] += 1
        return None, "f:undeserialisable"
    leaves = []
    _leaves(ctx, (), leaves)
    by_class = {}
    for path, v in leaves:
        by_class.setdefault(_classify(path, v), []).append((path, v))
    classes = sorted(by_class)
    if not classes:
        return None, "f:no-fields"
    weights = [FIELD_CLASS_WEIGHTS.get(c, 1) for c in classes]
    nedits = rng.choice([1, 1, 1, 2, 2, 3])
    names = []
    for _ in range(nedits):
        c = rng.choices(classes, weights)[0]
        path, v = rng.choice(by_class[c])
        key = [p for p in path if isinstance(p, str)][-1]
        _set_path(ctx, path, _new_value(key, v, rng, len(data)))
        names.append(key)
    out, mode = serialise_description(ctx)
    name = "f:" + "+".join(sorted(names))
    if mode == "tolerant":
        name += "~tol"
    elif mode == "unserialisable":
        name += "~unser"
    return out, name


# ==========================================================================
# coordinated operators (interactions between units)
# ==========================================================================
_INDEX_CACHE = {}


def _corpus_index(corpus):
    """per-stream facts used to pick donors: profile family, has pictures /
    fragments, major_version of the first sequence header"""
    key = id(corpus)
    idx = _INDEX_CACHE.get(key)
    if idx is not None and idx[0] is corpus:
        return idx[1]
    if len(_INDEX_CACHE) >= 4:
        _INDEX_CACHE.clear()
    out = []
    for label, data in corpus:
        units, us = _unit_list(data)
        if not units:
            continue
        codes = [u.parse_code for u in us]
        fam = "hq" if any(c in (0xE8, 0xEC) for c in codes) else ("ld" if any(c in (0xC8, 0xCC) for c in codes) else None)
        ver = None
        ctx = _context_of(data)
        try:
            ver = ctx["sequences"][0]["data_units"][0]["sequence_header"]["parse_parameters"]["major_version"]
        except Exception:
            pass
        nseq = codes.count(PC_END_OF_SEQUENCE)
        out.append({"label": label, "data": data, "fam": fam, "pics": any(c in PICTURE_CODES for c in codes),
                    "frags": any(c in FRAGMENT_CODES for c in codes), "ver": ver, "nseq": nseq})
    _INDEX_CACHE[key] = (corpus, out)
    return out


def _default_corpus():
    from vlib.gen import corpus as corpus_mod

    return corpus_mod.seed_corpus()


def _patch_u32(unit, off, v):
    unit[off:off + 4] = struct.pack(">I", v & 0xFFFFFFFF)


def _patch_u16(unit, off, v):
    unit[off:off + 2] = struct.pack(">H", v & 0xFFFF)


def _u32(unit, off):
    return struct.unpack(">I", bytes(unit[off:off + 4]))[0]


def _u16(unit, off):
    return struct.unpack(">H", bytes(unit[off:off + 2]))[0]


def _is_pic(u):
    return len(u) >= 17 and u[4] in PICTURE_CODES


def _is_frag(u):
    return len(u) >= 21 and u[4] in FRAGMENT_CODES


def _is_first_frag(u):
    return _is_frag(u) and _u16(u, 19) == 0


def _is_slice_frag(u):
    return _is_frag(u) and _u16(u, 19) != 0


def _first_sequence(units):
    """indices of the units of the first sequence (up to and including its EOS)"""
    for i, u in enumerate(units):
        if u[4] == PC_END_OF_SEQUENCE:
            return list(range(i + 1))
    return list(range(len(units)))


def _eos():
    return bytearray(b"BBCD\x10" + bytes(8))


def _join(units):
    return _join_units(units, fix_offsets=True)


def _c_zero_next_wrong_prev(units, rng, **kw):
    cand = [i for i, u in enumerate(units[:-1]) if _is_pic(u) or _is_frag(u)]
    if not cand:
        return None
    i = rng.choice(cand)
    b = [bytearray(u) for u in units]
    out = bytearray(_join(b))
    off = sum(len(u) for u in b[:i])
    nxt = off + len(b[i])
    out[off + 5:off + 9] = struct.pack(">I", 0)
    true_prev = len(b[i])
    wrong = rng.choice([true_prev + 1, true_prev - 1, 0, 13, 7, true_prev + 256, rng.randrange(1 << 32)])
    if wrong == true_prev:
        wrong += 1
    out[nxt + 9:nxt + 13] = struct.pack(">I", wrong & 0xFFFFFFFF)
    if rng.random() < 0.3:
        # and every later picture-bearing unit without next offset too
        pos = 0
        for u in b:
            if (_is_pic(u) or _is_frag(u)) and rng.random() < 0.5:
                out[pos + 5:pos + 9] = struct.pack(">I", 0)
            pos += len(u)
    return bytes(out)


def _c_slice_fragment_without_first(units, rng, **kw):
    firsts = [i for i, u in enumerate(units) if _is_first_frag(u)]
    slices = [i for i, u in enumerate(units) if _is_slice_frag(u)]
    if not slices:
        return None
    b = [bytearray(u) for u in units]
    mode = rng.choice(["drop-first", "drop-first", "move-before", "after-header", "second-sequence", "only-slices"])
    if mode == "drop-first" and firsts:
        del b[firsts[0]]
    elif mode == "move-before" and firsts:
        f = rng.choice(firsts)
        later = [i for i in slices if i > f]
        if not later:
            return None
        s = b.pop(later[0])
        b.insert(f, s)
    elif mode == "after-header":
        s = bytearray(b[rng.choice(slices)])
        b.insert(1, s)
    elif mode == "second-sequence":
        hdr = bytearray(b[0])
        s = bytearray(b[rng.choice(slices)])
        b = b + [hdr, s, _eos()]
    else:  # only-slices: header, every slice-bearing fragment, EOS
        b = [b[0]] + [b[i] for i in slices] + [_eos()]
    return _join(b)


def _pick_donor(corpus, rng, fam, want_pics=False, want_frags=False, v3=False):
    idx = _corpus_index(corpus)
    cand = [e for e in idx if e["fam"] == fam and (not want_pics or e["pics"]) and (not want_frags or e["frags"])
            and (not v3 or (e["ver"] or 0) >= 3) and e["nseq"] == 1]
    if not cand:
        return None
    return rng.choice(cand)


def _family(units):
    for u in units:
        if u[4] in (0xE8, 0xEC):
            return "hq"
        if u[4] in (0xC8, 0xCC):
            return "ld"
    return None


def _c_fragment_after_picture_same_number(units, rng, corpus=None, **kw):
    fam = _family(units)
    if fam is None:
        return None
    has_frag = any(_is_slice_frag(u) for u in units)
    if has_frag:
        F = units
        d = _pick_donor(corpus, rng, fam, want_pics=True, v3=True)
        if d is None:
            return None
        P, _ = _unit_list(d["data"])
    else:
        d = _pick_donor(corpus, rng, fam, want_pics=True, v3=True)
        e = _pick_donor(corpus, rng, fam, want_frags=True)
        if d is None or e is None:
            return None
        P, _ = _unit_list(d["data"])
        F, _ = _unit_list(e["data"])
    pics = [bytearray(u) for u in P if _is_pic(u)]
    frs = [bytearray(u) for u in F if _is_slice_frag(u)]
    if not pics or not frs:
        return None
    npics = rng.randrange(1, len(pics) + 1)
    seq = [bytearray(P[0])] + pics[:npics]
    last_num = _u32(pics[npics - 1], 13)
    k = rng.randrange(1, min(len(frs), 3) + 1)
    start = rng.randrange(len(frs))
    same = rng.random() < 0.8
    for f in frs[start:start + k]:
        f = bytearray(f)
        _patch_u32(f, 13, last_num if same else last_num + 1)
        seq.append(f)
    if rng.random() < 0.4 and npics < len(pics):
        seq.extend(pics[npics:])
    seq.append(_eos())
    return _join(seq)


def _c_picture_inside_fragmented_picture(units, rng, corpus=None, **kw):
    fam = _family(units)
    slices = [i for i, u in enumerate(units) if _is_slice_frag(u)]
    if fam is None or not slices:
        return None
    d = _pick_donor(corpus, rng, fam, want_pics=True, v3=True)
    if d is None:
        return None
    P, _ = _unit_list(d["data"])
    pics = [bytearray(u) for u in P if _is_pic(u)]
    if not pics:
        return None
    b = [bytearray(u) for u in units]
    i = rng.choice(slices)
    pic = bytearray(rng.choice(pics))
    _patch_u32(pic, 13, _u32(b[i], 13) + rng.choice([0, 1, 1]))
    b.insert(i if rng.random() < 0.6 else i + 1, pic)
    return _join(b)


def _c_restart_first_fragment(units, rng, **kw):
    firsts = [i for i, u in enumerate(units) if _is_first_frag(u)]
    slices = [i for i, u in enumerate(units) if _is_slice_frag(u)]
    if not firsts or not slices:
        return None
    b = [bytearray(u) for u in units]
    f = rng.choice(firsts)
    i = rng.choice(slices)
    dup = bytearray(b[f])
    if rng.random() < 0.5:
        _patch_u32(dup, 13, _u32(b[i], 13) + 1)
    b.insert(i + (1 if rng.random() < 0.7 else 0), dup)
    return _join(b)


def _c_incomplete_fragmented_picture(units, rng, **kw):
    slices = [i for i, u in enumerate(units) if _is_slice_frag(u)]
    if not slices:
        return None
    b = [bytearray(u) for u in units]
    mode = rng.choice(["drop-last", "drop-middle", "drop-tail", "eos-inside"])
    if mode == "drop-last":
        del b[slices[-1]]
    elif mode == "drop-middle":
        del b[rng.choice(slices)]
    elif mode == "drop-tail":
        i = rng.choice(slices)
        b = b[:i + 1] + [_eos()]
    else:
        b.insert(rng.choice(slices), _eos())
    return _join(b)


def _c_fragment_header_patch(units, rng, **kw):
    frs = [i for i, u in enumerate(units) if _is_frag(u)]
    if not frs:
        return None
    b = [bytearray(u) for u in units]
    i = rng.choice(frs)
    u = b[i]
    what = rng.choice(["number", "number", "count", "count", "x", "y", "xy-swap", "length"])
    if what == "number":
        _patch_u32(u, 13, _u32(u, 13) + rng.choice([1, -1, 2, 0x80000000]))
    elif what == "count":
        _patch_u16(u, 19, rng.choice([0, 1, _u16(u, 19) + 1, _u16(u, 19) + 7, 0xFFFF]))
    elif what == "length":
        _patch_u16(u, 17, rng.choice([0, 1, 0xFFFF, _u16(u, 17) + 1]))
    elif len(u) >= 25:
        if what == "x":
            _patch_u16(u, 21, rng.choice([0, _u16(u, 21) + 1, 0xFFFF, 7]))
        elif what == "y":
            _patch_u16(u, 23, rng.choice([0, _u16(u, 23) + 1, 0xFFFF, 7]))
        else:
            x, y = _u16(u, 21), _u16(u, 23)
            _patch_u16(u, 21, y + (1 if x == y else 0))
            _patch_u16(u, 23, x)
    return _join(b)


def _c_sequence_header_changed(units, rng, **kw):
    if units[0][4] != PC_SEQUENCE_HEADER or len(units[0]) < 15 or len(units) < 3:
        return None
    b = [bytearray(u) for u in units]
    dup = bytearray(b[0])
    if rng.random() < 0.8:
        p = rng.randrange(13, len(dup))
        dup[p] ^= 1 << rng.randrange(8)
    else:
        dup += b"\x00"
    cand = [i for i in range(1, len(b)) if not _is_slice_frag(b[i])] or [len(b) - 1]
    b.insert(rng.choice(cand), dup)
    return _join(b)


def _c_short_next_offset(units, rng, **kw):
    """a padding / auxiliary unit whose next_parse_offset points inside its own
    parse_info (0..12) and which therefore has no payload"""
    b = [bytearray(u) for u in units]
    pads = [i for i, u in enumerate(b) if u[4] in (PC_AUX, PC_PADDING)]
    short = rng.choice([0, 1, 2, 5, 11, 12, 12])
    if pads and rng.random() < 0.5:
        i = rng.choice(pads)
        keep = rng.random() < 0.5
        if not keep:
            b[i] = b[i][:13]
        out = bytearray(_join(b))
        off = sum(len(u) for u in b[:i])
        out[off + 5:off + 9] = struct.pack(">I", short)
        return bytes(out)
    i = rng.randrange(1, len(b)) if len(b) > 1 else 1
    code = rng.choice([PC_AUX, PC_PADDING])
    b.insert(i, bytearray(b"BBCD" + bytes([code]) + bytes(8)))
    out = bytearray(_join(b))
    off = sum(len(u) for u in b[:i])
    out[off + 5:off + 9] = struct.pack(">I", short)
    return bytes(out)


def _c_second_sequence_state(units, rng, **kw):
    """a second sequence that relies on state the first one left behind"""
    first = _first_sequence(units)
    b = [bytearray(units[i]) for i in first]
    if len(b) < 3 or b[0][4] != PC_SEQUENCE_HEADER:
        return None
    body = b[1:-1]
    mode = rng.choice(["no-header", "slices-only", "continue-numbers", "tail-only"])
    if mode == "no-header":
        second = body + [_eos()]
    elif mode == "slices-only":
        s = [u for u in body if _is_slice_frag(u)] or body[-1:]
        second = [bytearray(b[0])] + s + [_eos()]
    elif mode == "continue-numbers":
        second = [bytearray(b[0])] + [bytearray(u) for u in body] + [_eos()]
        for u in second:
            if _is_pic(u) or _is_frag(u):
                _patch_u32(u, 13, _u32(u, 13) + sum(1 for x in body if _is_pic(x) or _is_first_frag(x)))
    else:
        k = rng.randrange(len(body))
        second = [bytearray(b[0])] + body[k:] + [_eos()]
    return _join(b + second)


def _c_picture_numbers(units, rng, **kw):
    idx = [i for i, u in enumerate(units) if _is_pic(u) or _is_frag(u)]
    if not idx:
        return None
    b = [bytearray(u) for u in units]
    mode = rng.choice(["shift-all", "shift-from", "odd-first", "wrap", "repeat"])
    if mode == "shift-all":
        d = rng.choice([1, 2, 0xFFFFFFFF, 0x7FFFFFFF, rng.randrange(1 << 32)])
        for i in idx:
            _patch_u32(b[i], 13, _u32(b[i], 13) + d)
    elif mode == "shift-from":
        k = rng.choice(idx)
        d = rng.choice([1, -1, 2, 100])
        for i in idx:
            if i >= k:
                _patch_u32(b[i], 13, _u32(b[i], 13) + d)
    elif mode == "odd-first":
        base = _u32(b[idx[0]], 13)
        for i in idx:
            _patch_u32(b[i], 13, _u32(b[i], 13) - base + 1)
    elif mode == "wrap":
        base = _u32(b[idx[0]], 13)
        for i in idx:
            _patch_u32(b[i], 13, _u32(b[i], 13) - base + 0xFFFFFFFF)
    else:
        k = rng.choice(idx)
        n = _u32(b[k], 13)
        for i in idx:
            if i > k:
                _patch_u32(b[i], 13, n)
    return _join(b)


def _c_drop_or_repeat_picture(units, rng, **kw):
    """remove or repeat one whole coded picture (a picture unit, or a first
    fragment with all its slice fragments): odd field counts, number gaps"""
    b = [bytearray(u) for u in units]
    starts = [i for i, u in enumerate(b) if _is_pic(u) or _is_first_frag(u)]
    if not starts:
        return None
    s = rng.choice(starts)
    e = s + 1
    while e < len(b) and _is_slice_frag(b[e]):
        e += 1
    if rng.random() < 0.5:
        del b[s:e]
    else:
        b[e:e] = [bytearray(u) for u in b[s:e]]
    return _join(b)


def _c_zero_next_then_truncate(units, rng, **kw):
    b = [bytearray(u) for u in units]
    out = bytearray(_join(b))
    pos = 0
    bounds = []
    for u in b:
        if _is_pic(u) or _is_frag(u):
            out[pos + 5:pos + 9] = struct.pack(">I", 0)
        pos += len(u)
        bounds.append(pos)
    cut = rng.choice(bounds) + rng.choice([0, 0, 4, 5, 9, 13, 17])
    return bytes(out[:cut])


def _c_later_sequence_bad_prefix(units, rng, corpus=None, **kw):
    """one or two further sequences are appended; the first parse_info of an
    appended sequence has a corrupted prefix, framing otherwise intact"""
    data = b"".join(bytes(u) for u in units)
    extra = []
    for _ in range(rng.choice([1, 1, 2])):
        if corpus and rng.random() < 0.6:
            extra.append(bytearray(rng.choice(corpus)[1]))
        else:
            extra.append(bytearray(b"".join(bytes(units[i]) for i in _first_sequence(units))))
    hit = rng.randrange(len(extra))
    for i, e in enumerate(extra):
        if len(e) < 4:
            return None
        if i == hit or rng.random() < 0.3:
            how = rng.random()
            if how < 0.5:
                e[rng.randrange(4)] ^= 1 << rng.randrange(8)
            elif how < 0.75:
                e[0:4] = bytes(4)
            elif how < 0.9:
                e[0:4] = _rbytes(rng, 4)
            else:
                e[0:4] = b"\xff\xff\xff\xff"
    return data + b"".join(bytes(e) for e in extra)


def _c_version_change(units, rng, **kw):
    """every sequence header of the stream gets the same other major_version
    (presets / parse codes / profile that the version does not support; version
    not minimal); done on the description, offsets re-made consistent"""
    data = b"".join(bytes(u) for u in units)
    ctx = _context_of(data)
    if ctx is None:
        return None
    new = rng.choice([1, 1, 2, 2, 3, 3, 4, 0])
    changed = False
    for seq in ctx.get("sequences", ()):
        for du in seq.get("data_units", ()):
            sh = du.get("sequence_header")
            if sh is not None and "parse_parameters" in sh:
                if sh["parse_parameters"].get("major_version") != new:
                    changed = True
                sh["parse_parameters"]["major_version"] = new
    if not changed:
        return None
    out, mode = serialise_description(ctx)
    if out is None:
        return None
    us, _ = _unit_list_by_description(out, ctx)
    if us is None:
        return out
    return _join(us)


def _unit_list_by_description(out, ctx):
    """cut `out` (a fresh serialisation of ctx) into units at the offsets the
    serialiser recorded in parse_info['_offset']"""
    offs = []
    try:
        for seq in ctx["sequences"]:
            for du in seq["data_units"]:
                offs.append(du["parse_info"]["_offset"])
    except Exception:
        return None, None
    if not offs or offs[0] != 0 or sorted(offs) != offs:
        return None, None
    offs.append(len(out))
    return [bytearray(out[a:b]) for a, b in zip(offs, offs[1:])], offs


COORDINATED_OPS = [
    ("zero-next+wrong-prev", _c_zero_next_wrong_prev, 14),
    ("slice-fragment-without-first", _c_slice_fragment_without_first, 14),
    ("fragment-after-picture-same-number", _c_fragment_after_picture_same_number, 14),
    ("picture-inside-fragmented-picture", _c_picture_inside_fragmented_picture, 6),
    ("restart-first-fragment", _c_restart_first_fragment, 6),
    ("incomplete-fragmented-picture", _c_incomplete_fragmented_picture, 6),
    ("fragment-header-patch", _c_fragment_header_patch, 8),
    ("sequence-header-changed", _c_sequence_header_changed, 6),
    ("short-next-offset", _c_short_next_offset, 8),
    ("second-sequence-state", _c_second_sequence_state, 6),
    ("picture-numbers", _c_picture_numbers, 6),
    ("drop-or-repeat-picture", _c_drop_or_repeat_picture, 5),
    ("zero-next+truncate", _c_zero_next_then_truncate, 3),
    ("version-change", _c_version_change, 6),
    ("later-sequence-bad-prefix", _c_later_sequence_bad_prefix, 6),
]


def coordinated(data, rng, corpus=None):
    """One interaction operator.  -> (bytes | None, opname); None when the
    operator drawn does not apply to this stream (e.g. no fragments)."""
    if corpus is None:
        corpus = _default_corpus()
    units, us = _unit_list(data)
    if not units or len(units) < 2:
        return None, "c:unframeable"
    names = [n for n, _, _ in COORDINATED_OPS]
    weights = [w for _, _, w in COORDINATED_OPS]
    fns = {n: f for n, f, _ in COORDINATED_OPS}
    # draw until an applicable operator is found (bounded, deterministic)
    for _ in range(6):
        name = rng.choices(names, weights)[0]
        try:
            out = fns[name](units, rng, corpus=corpus)
        except (IndexError, struct.error, ValueError):
            out = None
        if out is not None:
            return out, "c:" + name
    return None, "c:not-applicable"


# ==========================================================================
def random_case(corpus, rng):
    """-> {"data": bytes, "op": str, "seed": label}"""
    label, data = rng.choice(corpus)
    r = rng.random()
    out = None
    if r < 0.42:
        out, op = mutate_bytes(data, rng, corpus)
    elif r < 0.72:
        out, op = mutate_fields(data, rng)
        if out is not None and rng.random() < 0.1:
            out, op2 = mutate_bytes(out, rng, corpus)
            op = op + "|" + op2
    elif r < 0.92:
        out, op = coordinated(data, rng, corpus)
        if out is not None and rng.random() < 0.1:
            out2, op2 = mutate_fields(out, rng)
            if out2 is not None:
                out, op = out2, op + "|" + op2
    elif r < 0.95:
        out, op = _rbytes(rng, rng.choice([0, 1, 4, 13, 14, 30, 64, 200])), "b:random"
    elif r < 0.98:
        out, op = _header_then_random(data, rng), "b:hdr-then-random"
    else:
        out, op = data, "seed"
    if out is None:
        out, op2 = mutate_bytes(data, rng, corpus)
        op = op + "|" + op2
    return {"data": out, "op": op, "seed": label}
