"""Generator of *conformant stream variants* (DESIGN section 3, "Valid streams").

A case is a JSON-able dict

    {"recipes": [recipe, ...],      # vlib.gen.configs recipes, one per sequence
     "vseed":   "text",              # seeds every random choice made while building
     "var":     {...}}               # which variations to apply (see VAR_DEFAULTS)

`make_case(rng, recipes, ...)` draws one; `build(case)` runs the real encoder on
every recipe, applies the variations to the encoder's Sequence descriptions and
serialises them with the real autofill+serialiser; `build_variant(case)` is
`build(case).data`.  Everything is deterministic in the case.

Variations (labels as they appear in `Variant.applied` / `label(case)`):

  pad_units       padding data units with random payloads between units
  aux_units       auxiliary data units with random payloads between units
  rep_seq_header  the sequence header repeated (byte-identical) between units
  npo_zero        next_parse_offset = 0 on picture / fragment units
  multi_seq       several sequences concatenated (len(recipes) > 1)
  prefix_bytes    HQ: slice_prefix_bytes > 0 and random prefix bytes in every slice
  scaler_raised   HQ: slice_size_scaler larger than needed (lengths recomputed)
  slice_padding   random bits in *_block_padding (lengths recomputed with the
                  independent exp-Golomb length function, encoder's values kept)
  extra_length    a length field larger than needed (more padding)
  repack:<class>  every slice's coefficients replaced by random values of a
                  magnitude class (1, 3, 40, 2000, 2^20, 2^40), random qindex,
                  lengths/scaler recomputed, random padding
  dangling        (repack only) a block deliberately too short so that the last
                  coded value's tail bits lie beyond the bounded block; the value is
                  crafted so that the missing bits are all 1 (A.4.2)
  short_block / zero_block  (repack only) a block shorter than the natural size
                  / of length zero: the values that do not fit become zero
  ld_ylen:<mode>  (repack, LD) slice_y_length chosen freely inside the slice
  mixed_params    the first sequence is assembled from the picture/fragment units of 2-3
                  *sibling* recipes (configs.sibling: same video format, profile and
                  sequence header; slices_x/y, dwt_depth, dwt_depth_ho, wavelet, quantisation
                  matrix or fragment size differ), each encoded separately by the real
                  encoder; the first one's sequence header is kept (major_version AUTO),
                  the pictures are concatenated in random order with consecutive picture
                  numbers, so transform parameters change from picture to picture
                  (stats "mixed:<transition>" count what followed what)

The generator never decides conformance: the checks run the validator and
treat a rejected variant as a generator bug (reported, not hidden).
"""
import copy
import random

from vlib.ref.dequant import sint_bits, sint_len, read_sint_bounded

MAG_CLASSES = [1, 3, 40, 2000, 1 << 20, 1 << 40]
MAG_NAMES = {1: "1", 3: "3", 40: "40", 2000: "2000", 1 << 20: "2^20", 1 << 40: "2^40"}
DANGLE_KCAP = 44  # crafted dangling values stay below 2^45

VAR_DEFAULTS = dict(
    pad=0,            # number of padding units inserted per sequence
    aux=0,            # number of auxiliary units inserted per sequence
    rep_sh=0,         # number of repeated sequence headers per sequence
    npo0="none",      # "none" | "some" | "all"
    prefix=0,         # HQ slice_prefix_bytes
    scaler=0,         # HQ: amount added to the minimal slice_size_scaler
    slice_pad=False,  # random padding bits (implies recomputed lengths)
    extra_len=False,  # allow length fields larger than needed
    repack=None,      # None | {"mag": int, "q": "rand"|"extreme"|int, "zero_p": float}
    dangle=False,     # repack only
    short=False,      # repack only: short / zero-length blocks
    ld_ylen="natural",  # repack, LD: "natural" | "random" | "zero" | "all"
    mixed=None,       # None | [sibling recipe, ...]: pictures of these recipes are mixed into the first sequence
)


class Rejected(Exception):
    """the encoder refused every recipe of the case (UnsatisfiableCodecFeaturesError)"""


class GeneratorBug(Exception):
    """internal self-check of the generator failed"""


# --------------------------------------------------------------------------
# drawing cases
# --------------------------------------------------------------------------
def make_case(rng, recipes, emphasis=None, force=None):
    """Draw the variation choices for `recipes` (list of configs recipes).

    emphasis: None | "clip" (large magnitudes / extreme qindex most of the time)
              | "parse" (structure variations most of the time)
    force:    dict merged over the drawn `var` last.
    """
    var = dict(VAR_DEFAULTS)
    p_repack = {"clip": 0.9, "parse": 0.55}.get(emphasis, 0.65)
    if rng.random() < 0.3:
        var["pad"] = rng.choice([1, 1, 2, 3])
    if rng.random() < 0.3:
        var["aux"] = rng.choice([1, 1, 2, 3])
    if rng.random() < 0.25:
        var["rep_sh"] = rng.choice([1, 1, 2])
    var["npo0"] = rng.choice(["none", "none", "some", "all"])
    if rng.random() < 0.35:
        var["prefix"] = rng.choice([1, 1, 2, 3, 7, 16])
    if rng.random() < 0.3:
        var["scaler"] = rng.choice([1, 1, 2, 3, 5, 16])
    var["slice_pad"] = rng.random() < 0.6
    var["extra_len"] = rng.random() < 0.35
    if rng.random() < p_repack:
        if emphasis == "clip":
            mag = rng.choice([40, 2000, 1 << 20, 1 << 20, 1 << 40, 1 << 40, 1 << 40])
            q = rng.choice(["extreme", "extreme", "rand"])
        else:
            mag = rng.choice(MAG_CLASSES)
            q = rng.choice(["rand", "rand", "extreme"])
        var["repack"] = {"mag": mag, "q": q, "zero_p": rng.choice([0.0, 0.2, 0.5, 0.9])}
        var["dangle"] = rng.random() < 0.5
        var["short"] = rng.random() < 0.25
        var["ld_ylen"] = rng.choice(["natural", "natural", "random", "random", "zero", "all"])
    var.update(force or {})
    return {"recipes": list(recipes), "vseed": "%016x" % rng.getrandbits(64), "var": var}


def label(case):
    """requested variations, as a sorted list of labels (static: no build needed)"""
    var = dict(VAR_DEFAULTS)
    var.update(case.get("var") or {})
    out = []
    if var["pad"]:
        out.append("pad_units")
    if var["aux"]:
        out.append("aux_units")
    if var["rep_sh"]:
        out.append("rep_seq_header")
    if var["npo0"] != "none":
        out.append("npo_zero")
    if len(_recipes(case)) > 1:
        out.append("multi_seq")
    if var["mixed"]:
        out.append("mixed_params")
    if var["prefix"]:
        out.append("prefix_bytes")
    if var["scaler"]:
        out.append("scaler_raised")
    if var["slice_pad"]:
        out.append("slice_padding")
    if var["extra_len"]:
        out.append("extra_length")
    if var["repack"]:
        out.append("repack:" + MAG_NAMES.get(var["repack"]["mag"], str(var["repack"]["mag"])))
        if var["dangle"]:
            out.append("dangling")
        if var["short"]:
            out.append("short_block")
    return sorted(out)


def _recipes(case):
    if "recipes" in case:
        return case["recipes"]
    return [case["recipe"]]


# --------------------------------------------------------------------------
# result object
# --------------------------------------------------------------------------
class Variant(object):
    """data: the stream bytes;  applied: set of labels that really took effect;
    seqs: per emitted sequence {"recipe", "n_pictures", "cf"};  sequences: the
    descriptions that were serialised;  stats: counters (blocks, dangling, ...)"""

    def __init__(self):
        self.data = None
        self.applied = set()
        self.seqs = []
        self.sequences = []
        self.stats = {}
        self.rejected_recipes = 0

    def bump(self, k, n=1):
        self.stats[k] = self.stats.get(k, 0) + n


# --------------------------------------------------------------------------
# slice access
# --------------------------------------------------------------------------
def picture_groups(seq):
    """-> list of {"tp": TransformParameters, "kind": "hq"|"ld", "slices": [...], "units": [data units]}
    one per coded picture (picture unit, or first fragment + its slice fragments)."""
    groups = []
    for du in seq["data_units"]:
        if "picture_parse" in du:
            wt = du["picture_parse"]["wavelet_transform"]
            td = wt["transform_data"]
            kind = "hq" if "hq_slices" in td else "ld"
            groups.append({"tp": wt["transform_parameters"], "kind": kind, "slices": list(td[kind + "_slices"]), "units": [du]})
        elif "fragment_parse" in du:
            fp = du["fragment_parse"]
            if fp["fragment_header"].get("fragment_slice_count", 0) == 0:
                groups.append({"tp": fp["transform_parameters"], "kind": None, "slices": [], "units": [du]})
            else:
                td = fp["fragment_data"]
                kind = "hq" if "hq_slices" in td else "ld"
                g = groups[-1]
                g["kind"] = kind
                g["slices"].extend(td[kind + "_slices"])
                g["units"].append(du)
    return groups


def ld_slice_bytes(numer, denom, n):
    """(13.5.3.2) size in bytes of LD slice number n"""
    return ((n + 1) * numer) // denom - (n * numer) // denom


# --------------------------------------------------------------------------
# value drawing and block fitting
# --------------------------------------------------------------------------
def draw_value(rng, mag, zero_p):
    if rng.random() < zero_p:
        return 0
    r = rng.random()
    if r < 0.15:
        m = mag
    elif r < 0.25:
        m = max(1, mag - rng.randrange(3))
    elif r < 0.6:
        m = 1 << rng.randrange(mag.bit_length())
        m = min(mag, m + rng.randrange(m))
    else:
        m = rng.randrange(mag + 1)
    return -m if rng.random() < 0.5 else m


def draw_qindex(rng, mode, qmax):
    if isinstance(mode, int):
        return min(mode, qmax)
    if mode == "extreme":
        return rng.choice([0, 0, 1, qmax, qmax, qmax - 1, qmax // 2, rng.randrange(qmax + 1)])
    return rng.choice([0, 1, 2, 3, 4, 5, 7, 8, 20, 40, 60, 100, qmax - 1, qmax, rng.randrange(qmax + 1), rng.randrange(qmax + 1)])


def natural_bits(values):
    """(bits through the last non-zero value, bits of all values)"""
    total = 0
    nz = 0
    for v in values:
        total += sint_len(v)
        if v:
            nz = total
    return nz, total


def fit_block(rng, values, nbits, dangle, alter=True):
    """Make `values` codable in a bounded block of `nbits` bits.

    Values are kept in order while their codes fit.  Values lying wholly beyond
    the block must be zero (they read as 0).  The first value that does not fit
    is replaced: by a crafted *dangling* value (if `dangle`), else by a random
    value of the largest size that fits, else by zero.
    -> (values, used_bits, dangled, altered)     used_bits <= nbits
    If `alter` is False and a replacement would be needed, returns None.
    """
    out = []
    pos = 0
    dangled = False
    altered = False
    for v in values:
        r = nbits - pos
        if r <= 0:
            if v != 0:
                if not alter:
                    return None
                altered = True
            out.append(0)
            continue
        n = sint_len(v)
        if n <= r:
            out.append(v)
            pos += n
            continue
        if not alter:
            return None
        altered = True
        if dangle and not dangled:
            # code length of a non-zero value with k data bits is 2k+2; t of its last
            # bits (sign; stop bit + sign; last data bit + stop bit + sign) may lie beyond
            # the block provided they are all 1
            cands = [t for t in (1, 2, 3) if (r + t) % 2 == 0 and r + t >= 4 and (r + t - 2) // 2 <= DANGLE_KCAP]
            if cands:
                t = rng.choice(cands)
                k = (r + t - 2) // 2
                nn = (1 << k) | rng.getrandbits(k)
                if t == 3:
                    nn |= 1
                out.append(-(nn - 1))
                pos = nbits
                dangled = True
                continue
        if r >= 4:
            k = (r - 2) // 2
            k = min(k, max(1, (abs(v) + 1).bit_length() - 1))
            nn = (1 << k) | rng.getrandbits(k)
            v2 = nn - 1
            if rng.random() < 0.5:
                v2 = -v2
        else:
            v2 = 0
        out.append(v2)
        pos += sint_len(v2)
    return out, min(pos, nbits), dangled, altered


def check_block(values, nbits):
    """generator self-check: the codes of `values`, cut at nbits with 1s beyond,
    decode to `values` again (independent bounded reader)"""
    bits = "".join(sint_bits(v) for v in values)
    if "0" in bits[nbits:]:
        raise GeneratorBug("0 bit beyond the block end")
    pos = 0
    for i, v in enumerate(values):
        got, pos = read_sint_bounded(bits, pos, nbits)
        if got != v:
            raise GeneratorBug("value %d decodes as %d, wanted %d" % (i, got, v))


def _padding(rng, n, random_bits):
    from bitarray import bitarray

    if n <= 0:
        return bitarray()
    if not random_bits:
        return bitarray("0" * n)
    k = rng.random()
    if k < 0.1:
        return bitarray("1" * n)
    if k < 0.2:
        return bitarray("0" * n)
    v = rng.getrandbits(n)
    return bitarray(format(v, "0%db" % n))


# --------------------------------------------------------------------------
# slice-level variations
# --------------------------------------------------------------------------
def _set_block(var, rng, out, s, key_vals, key_pad, desired, nbits, repack):
    """fit `desired` into nbits, store values + padding in slice `s`"""
    res = fit_block(rng, desired, nbits, dangle=bool(repack and var["dangle"]), alter=bool(repack))
    if res is None:
        return False
    vals, used, dangled, altered = res
    if dangled:
        check_block(vals, nbits)
        out.bump("dangling_blocks")
        out.applied.add("dangling")
    s[key_vals] = vals
    pad = nbits - used  # > 0 only if every value was coded inside the block
    s[key_pad] = _padding(rng, pad, var["slice_pad"] or bool(repack))
    if pad:
        out.bump("padding_bits", pad)
    if altered and not dangled:
        out.bump("truncated_blocks")
    out.bump("blocks")
    return True


def vary_hq_picture(g, var, rng, out, qmax=255):
    tp = g["tp"]
    sp = tp["slice_parameters"]
    repack = var["repack"]
    relength = bool(repack or var["slice_pad"] or var["extra_len"] or var["scaler"])
    if var["prefix"]:
        sp["slice_prefix_bytes"] = var["prefix"]
        for s in g["slices"]:
            n = var["prefix"] if rng.random() < 0.9 else rng.randrange(var["prefix"] + 1)  # short => zero padded by the writer
            s["prefix_bytes"] = bytes(rng.getrandbits(8) for _ in range(n))
        out.applied.add("prefix_bytes")
    if not relength:
        return
    comps = ("y", "c1", "c2")
    desired = []
    for s in g["slices"]:
        d = {}
        if repack:
            mag = repack["mag"] if rng.random() < 0.7 else rng.choice([m for m in MAG_CLASSES if m <= repack["mag"]])
            zp = repack["zero_p"]
            s["qindex"] = draw_qindex(rng, repack["q"], qmax)
            for c in comps:
                d[c] = [draw_value(rng, mag, zp) for _ in s[c + "_transform"]]
        else:
            for c in comps:
                d[c] = list(s[c + "_transform"])
        desired.append(d)
    need = 1
    for d in desired:
        for c in comps:
            need = max(need, (natural_bits(d[c])[1] + 7) // 8)
    old_scaler = sp.get("slice_size_scaler", 1)
    scaler = max(1, -(-need // 255))
    if not repack:
        scaler = max(scaler, old_scaler)
    scaler += var["scaler"]
    if scaler > max(1, -(-need // 255)) and var["scaler"]:
        out.applied.add("scaler_raised")
    sp["slice_size_scaler"] = scaler
    out.bump("max_scaler_seen", 0)
    out.stats["max_scaler_seen"] = max(out.stats["max_scaler_seen"], scaler)
    unit = 8 * scaler
    for s, d in zip(g["slices"], desired):
        for c in comps:
            nz, total = natural_bits(d[c])
            mode = "tight"
            if repack and var["short"] and rng.random() < 0.3:
                mode = rng.choice(["short", "short", "zero"])
            elif repack and var["dangle"] and rng.random() < 0.6:
                mode = "short1"
            elif var["extra_len"] and rng.random() < 0.5:
                mode = "extra"
            elif rng.random() < 0.5:
                mode = "all"
            if mode == "tight":
                L = -(-nz // unit)
            elif mode == "all":
                L = -(-total // unit)
            elif mode == "extra":
                L = -(-total // unit) + rng.choice([1, 1, 2, 5])
                out.applied.add("extra_length")
            elif mode == "short1":
                L = max(0, nz // unit if nz % unit else nz // unit - 1)
            elif mode == "short":
                L = rng.randrange(0, max(1, nz // unit + 1))
                out.applied.add("short_block")
            else:
                L = 0
                out.applied.add("zero_block")
            L = min(L, 255)
            s["slice_%s_length" % c] = L
            ok = _set_block(var, rng, out, s, c + "_transform", c + "_block_padding", d[c], L * unit, repack)
            if not ok:
                raise GeneratorBug("encoder's own HQ values do not fit the recomputed length")
    if repack:
        out.applied.add("repack:" + MAG_NAMES.get(repack["mag"], str(repack["mag"])))
    if var["slice_pad"] or repack:
        out.applied.add("slice_padding")


def vary_ld_picture(g, var, rng, out, qmax=127):
    tp = g["tp"]
    sp = tp["slice_parameters"]
    repack = var["repack"]
    if not (repack or var["slice_pad"]):
        return
    numer, denom = sp["slice_bytes_numerator"], sp["slice_bytes_denominator"]
    for n, s in enumerate(g["slices"]):
        nbytes = ld_slice_bytes(numer, denom, n)
        length_bits = (8 * nbytes - 7 - 1).bit_length()  # intlog2(8*bytes - 7) = ceil(log2(.))
        avail = 8 * nbytes - 7 - length_bits
        if avail < 0:
            raise GeneratorBug("LD slice of %d bytes cannot hold its own header" % nbytes)
        ymax = min(avail, (1 << length_bits) - 1)  # must also be representable in its field
        if repack:
            mag = repack["mag"] if rng.random() < 0.7 else rng.choice([m for m in MAG_CLASSES if m <= repack["mag"]])
            zp = repack["zero_p"]
            s["qindex"] = draw_qindex(rng, repack["q"], qmax)
            dy = [draw_value(rng, mag, zp) for _ in s["y_transform"]]
            dc = [draw_value(rng, mag, zp) for _ in s["c_transform"]]
            mode = var["ld_ylen"]
            if mode == "natural":
                ny, nc = natural_bits(dy)[1], natural_bits(dc)[1]
                if ny + nc <= avail:
                    ylen = ny + rng.choice([0, 0, (avail - ny - nc) // 2, avail - ny - nc])
                else:
                    ylen = (avail * ny) // max(1, ny + nc)
            elif mode == "random":
                ylen = rng.randrange(ymax + 1)
            elif mode == "zero":
                ylen = 0
            else:
                ylen = ymax
            ylen = max(0, min(ymax, ylen))
            s["slice_y_length"] = ylen
            out.applied.add("ld_ylen:" + mode)
        else:
            dy, dc = list(s["y_transform"]), list(s["c_transform"])
            ylen = s["slice_y_length"]
        if ylen.bit_length() > length_bits:
            raise GeneratorBug("slice_y_length does not fit its field")
        keep = (s.get("y_transform"), s.get("c_transform"), s.get("y_block_padding"), s.get("c_block_padding"))
        ok = _set_block(var, rng, out, s, "y_transform", "y_block_padding", dy, ylen, repack)
        ok = ok and _set_block(var, rng, out, s, "c_transform", "c_block_padding", dc, avail - ylen, repack)
        if not ok:
            # encoder's own values rely on something this generator does not model: leave the slice alone
            for k, v in zip(("y_transform", "c_transform", "y_block_padding", "c_block_padding"), keep):
                if v is None:
                    s.pop(k, None)
                else:
                    s[k] = v
            out.bump("ld_slices_left_untouched")
    if repack:
        out.applied.add("repack:" + MAG_NAMES.get(repack["mag"], str(repack["mag"])))
    out.applied.add("slice_padding")


# --------------------------------------------------------------------------
# unit-level variations
# --------------------------------------------------------------------------
def _payload(rng):
    k = rng.random()
    n = rng.choice([0, 0, 1, 2, 5, 13, 40])
    b = bytes(rng.getrandbits(8) for _ in range(n))
    if k < 0.15:
        # looks like a parse_info header; legal inside a payload
        b += b"BBCD" + bytes([rng.choice([0x00, 0x10, 0xE8, 0x30])]) + bytes(rng.getrandbits(8) for _ in range(rng.choice([0, 3, 8, 12])))
    return b


def vary_units(seq, var, rng, out):
    from vc2_data_tables import ParseCodes
    from vc2_conformance.bitstream import AuxiliaryData, DataUnit, Padding, ParseInfo

    units = seq["data_units"]
    inserts = []
    for _ in range(var["pad"]):
        inserts.append(("pad_units", lambda: DataUnit(parse_info=ParseInfo(parse_code=ParseCodes.padding_data),
                                                         padding=Padding(bytes=_payload(rng)))))
    for _ in range(var["aux"]):
        inserts.append(("aux_units", lambda: DataUnit(parse_info=ParseInfo(parse_code=ParseCodes.auxiliary_data),
                                                         auxiliary_data=AuxiliaryData(bytes=_payload(rng)))))
    sh = units[0]
    for _ in range(var["rep_sh"]):
        inserts.append(("rep_seq_header", lambda: copy.deepcopy(sh)))
    rng.shuffle(inserts)
    for name, make in inserts:
        # anywhere after the first sequence header and before the end of sequence
        pos = rng.randrange(1, len(units))
        units.insert(pos, make())
        out.applied.add(name)
        out.bump("inserted_units")
        prev = units[pos - 1]["parse_info"]["parse_code"]
        nxt = units[pos + 1]["parse_info"]["parse_code"]
        if int(prev) in (0xCC, 0xEC) and int(nxt) in (0xCC, 0xEC):
            fh = units[pos + 1]["fragment_parse"]["fragment_header"]
            if fh.get("fragment_slice_count", 0) != 0:
                out.bump("inserted_between_fragments")
    if var["npo0"] != "none":
        for du in units:
            if int(du["parse_info"]["parse_code"]) in (0xC8, 0xE8, 0xCC, 0xEC):
                if var["npo0"] == "all" or rng.random() < 0.5:
                    du["parse_info"]["next_parse_offset"] = 0
                    out.applied.add("npo_zero")
                    out.bump("npo_zero_units")


# --------------------------------------------------------------------------
# pictures of sibling recipes in one sequence
# --------------------------------------------------------------------------
MIXED_ATTRS = ("sx", "sy", "d", "dh", "wi", "qm", "fsc")


def unit_groups(seq):
    """data units of a sequence grouped per coded picture: [[picture unit] | [first fragment, fragment, ...], ...]"""
    groups = []
    for du in seq["data_units"]:
        if "picture_parse" in du:
            groups.append([du])
        elif "fragment_parse" in du:
            if du["fragment_parse"]["fragment_header"].get("fragment_slice_count", 0) == 0:
                groups.append([du])
            else:
                groups[-1].append(du)
    return groups


def transitions(ra, rb):
    """labels describing how the transform parameters change from a picture of recipe ra to the next of recipe rb"""
    out = []
    fa, fb = bool(ra["fsc"]), bool(rb["fsc"])
    out.append({(False, True): "plain->frag", (True, False): "frag->plain", (True, True): "frag->frag",
                (False, False): "plain->plain"}[(fa, fb)])
    na, nb = ra["sx"] * ra["sy"], rb["sx"] * rb["sy"]
    geom = (ra["sx"], ra["sy"], ra["d"], ra["dh"]) != (rb["sx"], rb["sy"], rb["d"], rb["dh"])
    if (ra["sx"], ra["sy"]) != (rb["sx"], rb["sy"]):
        out.append("slices_up" if nb > na else "slices_down" if nb < na else "slices_reshaped")
    if ra["dh"] != rb["dh"]:
        out.append("dh_up" if rb["dh"] > ra["dh"] else "dh_down")
        if (ra["dh"], rb["dh"]) in ((1, 0), (0, 1)) and ra["d"] == rb["d"]:
            out.append("dh%d->%d_same_d" % (ra["dh"], rb["dh"]))
    if ra["d"] != rb["d"]:
        out.append("d_up" if rb["d"] > ra["d"] else "d_down")
    if (ra["wi"], ra["wih"]) != (rb["wi"], rb["wih"]):
        out.append("wavelet_change")
    if ra.get("qm") != rb.get("qm"):
        out.append("matrix_change")
    if geom:
        out.append("geometry_change_into_" + ("frag" if fb else "plain"))
        if fa != fb:
            out.append("geometry_change+" + ("plain->frag" if fb else "frag->plain"))
    return out


def mix_sequences(encoded, rng, out):
    """Move the picture units of every further member into the first member's sequence, in random order, and number
    the pictures consecutively.  encoded = [(recipe, cf, pics, seq), ...] -> list of the recipe of each picture in
    stream order.  The first sequence header (major_version left to autofill, which takes the maximum need of the
    whole sequence) and end of sequence are kept."""
    r0, _, _, seq0 = encoded[0]
    units = seq0["data_units"]
    head, tail = units[0], units[-1]
    if "sequence_header" not in head or int(tail["parse_info"]["parse_code"]) != 0x10:
        raise GeneratorBug("encoder output does not start with a sequence header / end with end_of_sequence")
    pictures = []
    for r, _, _, seq in encoded:
        for grp in unit_groups(seq):
            pictures.append((r, grp))
    rng.shuffle(pictures)
    start = r0["pics"]["nums"] if r0["pics"]["nums"] is not None else 0
    new_units = [head]
    for n, (r, grp) in enumerate(pictures):
        num = (start + n) & 0xFFFFFFFF
        for du in grp:
            if "picture_parse" in du:
                du["picture_parse"]["picture_header"]["picture_number"] = num
            else:
                du["fragment_parse"]["fragment_header"]["picture_number"] = num
        new_units.extend(grp)
    new_units.append(tail)
    seq0["data_units"] = new_units
    recipes = [r for r, _ in pictures]
    if any(r is not recipes[0] for r in recipes):
        out.applied.add("mixed_params")
    for ra, rb in zip(recipes, recipes[1:]):
        if ra is rb:
            continue
        out.bump("mixed:transitions")
        for t in transitions(ra, rb):
            out.bump("mixed:" + t)
    out.bump("mixed:members", len(encoded))
    return recipes


# --------------------------------------------------------------------------
# build
# --------------------------------------------------------------------------
def build(case, serialise=True):
    from vc2_conformance.encoder import UnsatisfiableCodecFeaturesError

    from vlib import vc2util

    var = dict(VAR_DEFAULTS)
    var.update(case.get("var") or {})
    out = Variant()
    recipes = _recipes(case)
    for i, recipe in enumerate(recipes):
        rng = random.Random("streams/%s/%d" % (case.get("vseed", "0"), i))
        members = [recipe] + (list(var["mixed"]) if (i == 0 and var["mixed"]) else [])
        encoded = []
        for r in members:
            try:
                cf, pics, seq = vc2util.encode(r)
            except UnsatisfiableCodecFeaturesError:
                out.rejected_recipes += 1
                continue
            for g in picture_groups(seq):
                if g["kind"] == "hq":
                    vary_hq_picture(g, var, rng, out)
                elif g["kind"] == "ld":
                    vary_ld_picture(g, var, rng, out)
            encoded.append((r, cf, pics, seq))
        if not encoded:
            continue
        r0, cf, pics, seq = encoded[0]
        n_pictures = len(pics)
        picture_recipes = [r0] * n_pictures
        if len(encoded) > 1:
            picture_recipes = mix_sequences(encoded, rng, out)
            n_pictures = len(picture_recipes)
        vary_units(seq, var, rng, out)
        out.sequences.append(seq)
        out.seqs.append({"recipe": r0, "n_pictures": n_pictures, "cf": cf, "picture_recipes": picture_recipes})
    if not out.sequences:
        raise Rejected()
    if len(out.sequences) > 1:
        out.applied.add("multi_seq")
    if serialise:
        out.data = vc2util.serialise(out.sequences)
    return out


def build_variant(case):
    """-> bytes of the conformant stream variant described by `case`"""
    return build(case).data


# --------------------------------------------------------------------------
# convenience for checks: recipes + variations in one draw
# --------------------------------------------------------------------------
DEEP_BITS = [29, 31, 39, 47] * 4 + list(range(17, 49))


def deepen(rng, r):
    """Give recipe `r` a custom signal range of 17-48 bits: luma and/or chroma excursion exactly 2^k - 1 (k = 29, 31, 39,
    47 favoured: the values where a floating-point log2 rounds the wrong way) or, sometimes, a deep non-power-of-two
    excursion.  Content becomes mid-grey so that every profile can encode it (coefficients are all zero before re-packing).
    Records the depths in r["deep_bits"] = [luma, chroma]."""
    def exc(k):
        if rng.random() < 0.8:
            return (1 << k) - 1
        return rng.randrange((1 << (k - 1)) + 1, (1 << k) - 1)

    kl = rng.choice(DEEP_BITS)
    kc = rng.choice(DEEP_BITS)
    which = rng.choice(["both", "both", "luma", "chroma"])
    le, ce = r["range"][1], r["range"][3]
    if which in ("both", "luma"):
        le = exc(kl)
    if which in ("both", "chroma"):
        ce = exc(kc)
    r["range"] = [rng.choice([0, (le + 1) // 2, le // 16]), le, rng.choice([0, (ce + 1) // 2]), ce]
    r["pics"]["class"] = "mid"
    r["deep_bits"] = [le.bit_length(), ce.bit_length()]
    return r


def random_case(rng, emphasis=None, p_multi=0.15, space=None, p_mixed=0.3, p_deep=0.0):
    """Draw 1-2 configuration recipes (small pictures, few pictures per sequence so
    that a case costs ~0.1 s) and the variations to apply to them.  With probability
    p_mixed the first sequence also gets the pictures of 1-2 sibling recipes (chained
    or star-shaped single-attribute changes, so two pictures may differ in two attributes).
    With probability p_deep (default 0: the C08 deserialiser guard stops at 21 bits) a recipe gets a 17-48 bit
    signal range (see deepen)."""
    from vlib.gen import configs

    n = 2 if rng.random() < p_multi else 1
    recipes = []
    for _ in range(n):
        sp = {"maxw": 12, "maxh": 12}
        k = rng.random()
        if k < 0.5:
            sp["lossy_bytes"] = "roomy"  # room for large magnitudes in LD slices
        elif k < 0.6:
            sp["lossy_bytes"] = "min"
        if rng.random() < 0.1:
            sp["depth0"] = True
        sp.update(space or {})
        r = configs.random_recipe(rng, sp)
        if rng.random() < 0.8:
            r["pics"]["n"] = 2 if r["pcm"] == 1 else 1
        if rng.random() < 0.3:
            # clean area strictly inside the frame (configs.build_vp honours these optional keys)
            r["lo"] = rng.randrange(r["w"])
            r["cw"] = rng.randrange(1, r["w"] - r["lo"] + 1)
            r["to"] = rng.randrange(r["h"])
            r["ch"] = rng.randrange(1, r["h"] - r["to"] + 1)
        if emphasis == "clip":
            # the content is replaced anyway; cheap content keeps the encoder fast
            r["pics"]["class"] = rng.choice(["zero", "mid", "noise"])
        if p_deep and rng.random() < p_deep:
            deepen(rng, r)  # before siblings are drawn: they share the header
        recipes.append(r)
    force = None
    if rng.random() < p_mixed:
        base = recipes[0]
        base["pics"]["n"] = 2 if base["pcm"] == 1 else 1
        sibs = []
        prev = base
        for _ in range(rng.choice([1, 2, 2])):
            src = prev if rng.random() < 0.6 else base
            if rng.random() < 0.3:
                # fragmentation and geometry both differ: plain <-> fragmented with other slice counts / depths
                sib = configs.sibling(rng, configs.sibling(rng, src, "fsc"), rng.choice(["sx", "sy", "d", "dh"]))
            else:
                sib = configs.sibling(rng, src, rng.choice(MIXED_ATTRS))
            sibs.append(sib)
            prev = sib
        force = {"mixed": sibs}
    return make_case(rng, recipes, emphasis=emphasis, force=force)
