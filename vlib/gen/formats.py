"""Generator of *regular* video formats (DESIGN §3/§5 C22, also used by C23).

A format is a JSON-able dict

    {"base": <base video format index>, "pcm": 0|1,
     "vp": {<the 20 video parameters as plain ints / bool>},
     "strata": {"size": "...", "range": "...", "mode": "...", ...}}

"Regular" (property C22): frame width a multiple of the horizontal
colour-difference subsampling; frame height a multiple of the vertical
subsampling, doubled when the source is interlaced or pictures are fields.

Everything is derived from the constant tables of `vc2_data_tables` (allowed
by AUTHORING rule 2); nothing is imported from vc2_conformance except in
`to_video_parameters`, which builds the object handed to the code under test.
"""
from vc2_data_tables import (
    BASE_VIDEO_FORMAT_PARAMETERS,
    PRESET_COLOR_SPECS,
    PRESET_FRAME_RATES,
    PRESET_PIXEL_ASPECT_RATIOS,
    PRESET_SIGNAL_RANGES,
    BaseVideoFormats,
    PresetColorMatrices,
    PresetColorPrimaries,
    PresetTransferFunctions,
)

SUBSAMPLING = {0: (1, 1), 1: (2, 1), 2: (2, 2)}

BASE_INDICES = sorted(int(b) for b in BaseVideoFormats)
PRIMARIES = sorted(int(x) for x in PresetColorPrimaries)
MATRICES = sorted(int(x) for x in PresetColorMatrices)
TRANSFER_FUNCTIONS = sorted(int(x) for x in PresetTransferFunctions)
COLOR_COMBOS = [(p, m, t) for p in PRIMARIES for m in MATRICES for t in TRANSFER_FUNCTIONS]
SIGNAL_RANGE_PRESETS = sorted(int(x) for x in PRESET_SIGNAL_RANGES)
PIXEL_ASPECT_RATIO_PRESETS = sorted(int(x) for x in PRESET_PIXEL_ASPECT_RATIOS)
# (subsampling, source_sampling, top_field_first, picture_coding_mode)
MODE_COMBOS = [(f, s, t, p) for f in (0, 1, 2) for s in (0, 1) for t in (False, True) for p in (0, 1)]

SIZE_CLASSES = ("min", "small", "medium", "sprite")
RANGE_CLASSES = ("preset", "custom")
EXCURSION_CLASSES = ("min", "max", "rand")
OFFSET_CLASSES = ("zero", "mid", "max", "rand")


def base_parameters(base_index):
    """The 20 video parameters a base video format implies ((11.4.2)), as plain ints/bool."""
    b = BASE_VIDEO_FORMAT_PARAMETERS[BaseVideoFormats(base_index)]
    fr = PRESET_FRAME_RATES[b.frame_rate_index]
    par = PRESET_PIXEL_ASPECT_RATIOS[b.pixel_aspect_ratio_index]
    sr = PRESET_SIGNAL_RANGES[b.signal_range_index]
    cs = PRESET_COLOR_SPECS[b.color_spec_index]
    return {
        "frame_width": int(b.frame_width),
        "frame_height": int(b.frame_height),
        "color_diff_format_index": int(b.color_diff_format_index),
        "source_sampling": int(b.source_sampling),
        "top_field_first": bool(b.top_field_first),
        "frame_rate_numer": int(fr.numerator),
        "frame_rate_denom": int(fr.denominator),
        "pixel_aspect_ratio_numer": int(par.numerator),
        "pixel_aspect_ratio_denom": int(par.denominator),
        "clean_width": int(b.clean_width),
        "clean_height": int(b.clean_height),
        "left_offset": int(b.left_offset),
        "top_offset": int(b.top_offset),
        "luma_offset": int(sr.luma_offset),
        "luma_excursion": int(sr.luma_excursion),
        "color_diff_offset": int(sr.color_diff_offset),
        "color_diff_excursion": int(sr.color_diff_excursion),
        "color_primaries_index": int(cs.color_primaries_index),
        "color_matrix_index": int(cs.color_matrix_index),
        "transfer_function_index": int(cs.transfer_function_index),
    }


def units(fmt, interlaced_or_fields):
    """(horizontal, vertical) size unit that keeps a frame regular."""
    hs, vs = SUBSAMPLING[fmt]
    return hs, vs * (2 if interlaced_or_fields else 1)


def excursion_for_depth(rng, depth, cls):
    """An excursion whose bit depth ((11.6.3)) is exactly `depth` (>= 1)."""
    lo, hi = 1 << (depth - 1), (1 << depth) - 1
    if cls == "min":
        return lo
    if cls == "max":
        return hi
    return rng.randint(lo, hi)


def offset_for_depth(rng, depth, cls):
    if cls == "zero":
        return 0
    if cls == "mid":
        return 1 << (depth - 1)
    if cls == "max":
        return (1 << depth) - 1
    return rng.randrange(0, 1 << depth)


def _dim(rng, cls, unit, sprite_lo, sprite_hi):
    """A dimension in pixels (multiple of `unit`) for a size class."""
    if cls == "min":
        return unit
    if cls == "small":
        return unit * rng.randint(2, 8)
    if cls == "medium":
        return unit * rng.randint(9, max(9, 48 // unit))
    # "sprite": straddles the (aspect corrected) sprite size
    n = rng.randint(-(-sprite_lo // unit), sprite_hi // unit)
    return unit * n


def regular_format(
    rng,
    index=None,
    max_depth=32,
    min_depth=1,
    size_classes=SIZE_CLASSES,
    range_classes=RANGE_CLASSES,
    par_from_any_preset=True,
    regular=True,
):
    """One regular format.

    `index` (optional int) makes base format and colour combination walk
    through all their values systematically (23 and 150 are coprime, so
    consecutive indices visit every pair); everything else is drawn from `rng`.
    With regular=False the size is any number of pixels for which every plane
    holds at least one sample (used by C23 only).
    """
    if index is None:
        index = rng.randrange(23 * 150)
    base = BASE_INDICES[index % len(BASE_INDICES)]
    vp = base_parameters(base)
    strata = {"base": base}

    # -- subsampling / scan / field order / coding mode ---------------------
    fmt, ss, tff, pcm = MODE_COMBOS[rng.randrange(len(MODE_COMBOS))]
    vp["color_diff_format_index"] = fmt
    vp["source_sampling"] = ss
    vp["top_field_first"] = tff
    strata["mode"] = "%d%d%d%d" % (fmt, ss, int(tff), pcm)

    # -- pixel aspect ratio: presets only (DESIGN §7 item 6) --------------------
    if par_from_any_preset and rng.random() < 0.5:
        par = PRESET_PIXEL_ASPECT_RATIOS[rng.choice(PIXEL_ASPECT_RATIO_PRESETS)]
        vp["pixel_aspect_ratio_numer"] = int(par.numerator)
        vp["pixel_aspect_ratio_denom"] = int(par.denominator)
    if par_from_any_preset and rng.random() < 0.12:
        # moderate ratios (between 1:2 and 2:1) written with large terms: the same shapes as the presets, so the sprite
        # keeps a sensible width; only ratios beyond 128:1 shrink it to nothing (still excluded, DESIGN section 7 item 6)
        d = rng.choice([135, 1000, 999, 540, 129, 4096])
        n = rng.randrange(max(129, d // 2 + 1), 2 * d)
        vp["pixel_aspect_ratio_numer"], vp["pixel_aspect_ratio_denom"] = n, d
    strata["par"] = "%d:%d" % (vp["pixel_aspect_ratio_numer"], vp["pixel_aspect_ratio_denom"])

    # -- frame size -----------------------------------------------------------------
    wcls = rng.choice(size_classes)
    hcls = rng.choice(size_classes)
    if regular:
        hu, vu = units(fmt, ss == 1 or pcm == 1)
        # the 128 pixel sprite is 88..140 pixels wide after aspect correction
        w = _dim(rng, wcls, hu, 80, 168)
        h = _dim(rng, hcls, vu, 116, 140)
        strata["size"] = wcls + "x" + hcls
    else:
        hs, vs = SUBSAMPLING[fmt]
        if pcm == 1:
            vs *= 2
        w = rng.randint(hs, 9)
        h = rng.randint(vs, 12)
        strata["size"] = "irregular" if (w % hs or h % (units(fmt, ss == 1 or pcm == 1)[1])) else "smallxsmall"
    vp["frame_width"] = w
    vp["frame_height"] = h
    vp["clean_width"] = w
    vp["clean_height"] = h
    vp["left_offset"] = 0
    vp["top_offset"] = 0

    # -- signal range -----------------------------------------------------------------
    rcls = rng.choice(range_classes)
    if rcls == "preset":
        k = rng.choice(SIGNAL_RANGE_PRESETS)
        sr = PRESET_SIGNAL_RANGES[k]
        vp["luma_offset"] = int(sr.luma_offset)
        vp["luma_excursion"] = int(sr.luma_excursion)
        vp["color_diff_offset"] = int(sr.color_diff_offset)
        vp["color_diff_excursion"] = int(sr.color_diff_excursion)
        strata["range"] = "preset%d" % k
    else:
        dl = rng.randint(min_depth, max_depth)
        dc = dl if rng.random() < 0.4 else rng.randint(min_depth, max_depth)
        le, ce = rng.choice(EXCURSION_CLASSES), rng.choice(EXCURSION_CLASSES)
        lo, co = rng.choice(OFFSET_CLASSES), rng.choice(OFFSET_CLASSES)
        vp["luma_excursion"] = excursion_for_depth(rng, dl, le)
        vp["color_diff_excursion"] = excursion_for_depth(rng, dc, ce)
        vp["luma_offset"] = offset_for_depth(rng, dl, lo)
        vp["color_diff_offset"] = offset_for_depth(rng, dc, co)
        strata["range"] = "custom"
        strata["excursion"] = le + "/" + ce
        strata["offset"] = lo + "/" + co

    # -- colour specification: all primaries x matrices x transfer functions -------------
    p, m, t = COLOR_COMBOS[index % len(COLOR_COMBOS)]
    vp["color_primaries_index"] = p
    vp["color_matrix_index"] = m
    vp["transfer_function_index"] = t
    strata["color"] = "%d%d%d" % (p, m, t)

    return {"base": base, "pcm": pcm, "vp": vp, "strata": strata}


def to_video_parameters(vp):
    """Plain dict -> the VideoParameters object (enum typed entries) given to the code under test."""
    from vc2_data_tables import ColorDifferenceSamplingFormats, SourceSamplingModes

    from vc2_conformance.pseudocode.video_parameters import VideoParameters

    out = VideoParameters(**vp)
    out["color_diff_format_index"] = ColorDifferenceSamplingFormats(vp["color_diff_format_index"])
    out["source_sampling"] = SourceSamplingModes(vp["source_sampling"])
    out["color_primaries_index"] = PresetColorPrimaries(vp["color_primaries_index"])
    out["color_matrix_index"] = PresetColorMatrices(vp["color_matrix_index"])
    out["transfer_function_index"] = PresetTransferFunctions(vp["transfer_function_index"])
    return out


def to_picture_coding_mode(pcm):
    from vc2_data_tables import PictureCodingModes

    return PictureCodingModes(pcm)
