"""CSV text generators.

Part 1 (C17): a JSON-able *specification* of a constraint-table CSV file
(physical rows: data / comment / blank; cells: items, any, empty, ditto) with
``render_constraint_csv(spec)`` -> text and ``expected_columns(spec)`` -> the
model table (via vlib.ref.valueset) the text denotes.

Part 2 (C28): mutators of codec-features CSV files (row lists), a synthesiser
of codec-features columns from the documented field list, a renderer and
character-level noise.

Nothing here imports vc2_conformance.
"""
import csv
import io

from vlib.ref import valueset as R

# =============================================================================
# shared: own CSV writer (so quoting style is under the generator's control)
# =============================================================================


def csv_cell(s, force_quote=False):
    if force_quote or any(c in s for c in ',"\n\r'):
        return '"' + s.replace('"', '""') + '"'
    return s


def csv_line(cells, force_quote_idx=()):
    return ",".join(csv_cell(c, i in force_quote_idx) for i, c in enumerate(cells))


# =============================================================================
# Part 1: constraint tables
# =============================================================================

DITTO_CHARS = ['"', "“", "”"]  # the documented ditto mark and the curly forms spreadsheet tools produce


def gen_cell(rng, j, allow_bool=True):
    """One cell specification."""
    r = rng.random()
    if r < 0.12:
        return {"t": "any"}
    if r < 0.24:
        return {"t": "empty"}
    if r < 0.42:
        return {"t": "ditto", "q": rng.choice(DITTO_CHARS) if rng.random() < 0.25 else '"'}
    if allow_bool and r < 0.52:
        return {"t": "items", "items": [["b", b] for b in rng.choice([[True], [False], [True, False], [False, True]])],
                "sep": rng.choice([",", ", "])}
    n = rng.choice([1, 1, 1, 2, 2, 3, 4])
    items = []
    base = rng.choice([0, 0, 0, 0, 10, 100, 1000, 65530])
    for _ in range(n):
        if rng.random() < 0.45:
            lo = base + rng.randrange(0, 30)
            hi = lo + rng.choice([0, 1, 1, 2, 3, 5, 10, 40])
            items.append(["r", lo, hi])
        else:
            items.append(["v", base + rng.randrange(0, 34)])
    return {"t": "items", "items": items, "sep": rng.choice([",", ", "])}


def gen_constraint_spec(rng):
    """Random constraint-table CSV specification."""
    ncols = rng.randrange(1, 7)
    nkeys = rng.randrange(1, 7)
    rows = []
    eol = rng.choice(["\n", "\n", "\r\n"])
    # header comments like the real tables
    if rng.random() < 0.6:
        rows.append({"kind": "comment", "cells": ["# " + rng.choice(["table", "See x.py, for details", "a \"quoted\" note"])] + [""] * rng.randrange(0, ncols + 2)})
    if rng.random() < 0.4:
        rows.append({"kind": "comment", "cells": ["# (11.1)"] + ["# col %d" % i if rng.random() < 0.7 else "" for i in range(rng.randrange(0, ncols + 3))]})
    for ki in range(nkeys):
        r = rng.random()
        if r < 0.15:
            rows.append({"kind": "blank", "cells": [""] * rng.choice([0, 0, 1, ncols + 1, ncols + 3])})
        elif r < 0.3:
            rows.append({"kind": "comment", "cells": [rng.choice(["", "# c", "#", "#c,d"])] + [rng.choice(["", "", "#x", "# y"]) for _ in range(rng.randrange(0, ncols + 2))]})
        # ragged: shorter (never zero cells unless ncols is small) or the full width
        if rng.random() < 0.2:
            width = rng.randrange(0, ncols + 1)
        else:
            width = ncols
        cells = [gen_cell(rng, j) for j in range(width)]
        rows.append({
            "kind": "data",
            "key": "k%d" % ki if rng.random() < 0.7 else rng.choice(["level", "profile", "slices_x", "custom_quant_matrix", "dwt depth"]) + "_%d" % ki,
            "cells": cells,
            "quote_all": rng.random() < 0.05,
        })
    if rng.random() < 0.3:
        rows.append({"kind": "blank", "cells": [""] * rng.choice([0, 1, ncols + 1])})
    return {"eol": eol, "rows": rows, "final_eol": rng.random() < 0.85}


def _cell_text(cell):
    t = cell["t"]
    if t == "any":
        return "any"
    if t == "empty":
        return ""
    if t == "ditto":
        return cell["q"]
    parts = []
    for it in cell["items"]:
        if it[0] == "v":
            parts.append("%d" % it[1])
        elif it[0] == "r":
            parts.append("%d-%d" % (it[1], it[2]))
        else:
            parts.append("TRUE" if it[1] else "FALSE")
    return cell.get("sep", ",").join(parts)


def render_constraint_csv(spec):
    lines = []
    for row in spec["rows"]:
        if row["kind"] == "data":
            cells = [row["key"]] + [_cell_text(c) for c in row["cells"]]
            fq = range(len(cells)) if row.get("quote_all") else ()
            lines.append(csv_line(cells, fq))
        else:
            lines.append(csv_line(row["cells"]))
    text = spec["eol"].join(lines)
    if spec.get("final_eol", True):
        text += spec["eol"]
    return text


def _cell_model(cell, left):
    """-> (model set, kind) where kind in any|empty|ditto|bool|int."""
    t = cell["t"]
    if t == "any":
        return R.ANY
    if t == "empty":
        return R.empty()
    if t == "ditto":
        return left
    items = []
    for it in cell["items"]:
        if it[0] == "r":
            items.append(("r", it[1], it[2]))
        else:
            items.append(("v", it[1]))
    return R.of_items(items)


def expected_columns(spec):
    """The model table a rendered specification denotes: list of {key: model set}.

    A data row contributes its key to as many columns as it has cells; the
    table has as many columns as the widest data row.  Ditto repeats the value
    of the cell to its left; with nothing to its left it denotes no values.
    """
    cols = []
    for row in spec["rows"]:
        if row["kind"] != "data":
            continue
        left = R.empty()
        for j, cell in enumerate(row["cells"]):
            while len(cols) <= j:
                cols.append({})
            left = _cell_model(cell, left)
            cols[j][row["key"]] = left
    return cols


def cell_kinds(spec):
    """[(row key, j, kind-with-context)] for the evidence counters."""
    out = []
    for row in spec["rows"]:
        if row["kind"] != "data":
            continue
        base = "nothing"  # kind of the nearest non-ditto cell to the left
        for j, cell in enumerate(row["cells"]):
            k = cell["t"]
            if k == "ditto":
                k = "ditto-first-column" if j == 0 else "ditto-after-" + base
                if cell["q"] != '"':
                    k += "(curly)"
            else:
                if k == "items":
                    k = "bool" if cell["items"][0][0] == "b" else ("range" if any(i[0] == "r" for i in cell["items"]) else "value")
                base = k
                if cell["t"] == "items" and len(cell["items"]) > 1:
                    k += "+list"
            out.append((row["key"], j, k))
    return out


# =============================================================================
# Part 2: codec features
# =============================================================================

# (value, class) — classes end up as counters in the evidence
JUNK = [
    ("", "empty"), ("default", "default"), ("DEFAULT", "default"), ("Default", "default"),
    ("-1", "negative"), ("0", "zero"), ("1", "one"), ("2", "small-int"), ("3", "small-int"), ("7", "small-int"),
    ("65", "small-int"), ("66", "small-int"), ("999999", "big-int"), ("99999999999999999999999", "huge-int"),
    ("1.5", "float"), ("1e3", "float"), ("nan", "float"), ("25.0", "float"), ("inf", "float-inf"), ("-inf", "float-inf"),
    ("Infinity", "float-inf"), ("1e999", "float-inf"), ("1.0368E+6", "float"), ("-1e999", "float-inf"), ("0x10", "hex"), ("1_0", "underscore-int"),
    ("+5", "signed-int"), ("-0", "signed-int"), (" 3 ", "padded-int"), ("2 ", "padded-int"), ("\t", "whitespace"),
    ("١", "unicode-digit"), ("９", "unicode-digit"), ("abc", "word"), ("√", "symbol"), ("None", "word"),
    ("TRUE", "bool"), ("false", "bool"), ("yes", "bool"), ("n", "bool"), ("T", "bool"),
    ("haar_with_shift", "alias"), ("le_gall_5_3", "alias"), ("high_quality", "alias"), ("low_delay", "alias"),
    ("hd1080p_50", "alias"), ("pictures_are_fields", "alias"), ("unconstrained", "alias"), ("HD", "alias-wrong-case"),
    ("0 0 0 0", "matrix"), ("1 2 3", "matrix"), ("4 4 4 4 4 4 4", "matrix"), ("0", "matrix-1"), ("1 2 3 4 5", "matrix"),
    ("x y", "matrix-junk"), ("1 2 x 4", "matrix-junk"), ("-5 3 2 1", "matrix"), ("1,2", "comma"), ("#x", "hash"),
    ('"', "quote"), ("a\nb", "newline"), ("name", "keyword"),
]

ROW_NAMES_EXTRA = ["bogus_row", "name", "level", "#c", "", "picture_bytes", "lossless", "quantization_matrix", " name ", "Name"]


def read_rows(path):
    with open(path, "r", encoding="utf-8-sig", newline="") as f:
        return [list(r) for r in csv.reader(f)]


def rows_to_text(rows, eol="\r\n", final_eol=True):
    text = eol.join(csv_line(r) for r in rows)
    return text + (eol if final_eol else "")


def _data_row_indices(rows):
    return [i for i, r in enumerate(rows) if r and r[0].strip() and not r[0].strip().startswith("#")]


def mutate_rows(rows, rng, nops=None):
    """Apply 1..6 structural mutations; returns (rows, [op labels])."""
    rows = [r[:] for r in rows]
    ops = []
    if nops is None:
        nops = rng.choice([1, 1, 1, 2, 2, 3, 6])
    for _ in range(nops):
        if not rows:
            rows.append(["name", "x"])
        op = rng.choice(["cell", "cell", "cell", "cell", "row_delete", "row_duplicate", "row_insert", "row_truncate",
                         "row_extend", "dup_name", "row_swap", "col_delete", "col_duplicate", "key_rename"])
        ri = rng.randrange(len(rows))
        drows = _data_row_indices(rows)
        if op == "cell":
            # prefer data rows (comment rows are ignored by construction)
            if drows and rng.random() < 0.9:
                ri = rng.choice(drows)
            if not rows[ri]:
                continue
            ci = rng.randrange(1, len(rows[ri])) if len(rows[ri]) > 1 and rng.random() < 0.9 else rng.randrange(len(rows[ri]))
            val, cls = rng.choice(JUNK)
            rows[ri][ci] = val
            ops.append("cell:%s:%s" % (rows[ri][0].strip()[:30] if ci else "<key>", cls))
        elif op == "row_delete":
            if drows and rng.random() < 0.8:
                ri = rng.choice(drows)
            ops.append("row_delete:" + (rows[ri][0].strip()[:30] if rows[ri] else "<blank>"))
            del rows[ri]
        elif op == "row_duplicate":
            src = rng.choice(drows) if drows else ri
            rows.insert(ri, rows[src][:])
            ops.append("row_duplicate")
        elif op == "row_insert":
            width = max((len(r) for r in rows), default=2)
            rows.insert(ri, [rng.choice(ROW_NAMES_EXTRA)] + [rng.choice(JUNK)[0] for _ in range(rng.randrange(0, width + 1))])
            ops.append("row_insert:" + rows[ri][0].strip())
        elif op == "row_truncate":
            if drows:
                ri = rng.choice(drows)
            if rows[ri]:
                rows[ri] = rows[ri][: rng.randrange(len(rows[ri]) + 1)]
            ops.append("row_truncate")
        elif op == "row_extend":
            if drows:
                ri = rng.choice(drows)
            rows[ri] = rows[ri] + [rng.choice(JUNK)[0] for _ in range(rng.randrange(1, 3))]
            ops.append("row_extend")
        elif op == "dup_name":
            done = False
            for r in rows:
                if r and r[0].strip() == "name" and len(r) > 2:
                    a = rng.randrange(1, len(r))
                    b = rng.randrange(1, len(r))
                    if a != b:
                        r[a] = r[b] if rng.random() < 0.7 else " " + r[b] + " "
                        done = True
            ops.append("dup_name" if done else "dup_name:noop")
        elif op == "row_swap":
            rj = rng.randrange(len(rows))
            rows[ri], rows[rj] = rows[rj], rows[ri]
            ops.append("row_swap")
        elif op == "col_delete":
            width = max((len(r) for r in rows), default=1)
            if width > 2:
                ci = rng.randrange(1, width)
                for r in rows:
                    if len(r) > ci:
                        del r[ci]
            ops.append("col_delete")
        elif op == "col_duplicate":
            width = max((len(r) for r in rows), default=1)
            if width > 1:
                ci = rng.randrange(1, width)
                for r in rows:
                    if len(r) > ci:
                        r.append(r[ci])
                    if r and r[0].strip() == "name":
                        r[-1] = r[-1] + rng.choice(["", "_2", "_2", "_2"])
            ops.append("col_duplicate")
        elif op == "key_rename":
            if drows:
                ri = rng.choice(drows)
                rows[ri][0] = rng.choice([rows[ri][0].upper(), " " + rows[ri][0] + " ", rows[ri][0] + "x", "# " + rows[ri][0]])
            ops.append("key_rename")
    return rows, ops


NOISE_CHARS = [",", '"', "\n", "\r", "\r\n", " ", "x", "1", "#", "-", "\t", "“", "﻿", "'", "\x00", "é", ";"]


def char_noise(text, rng, rate=None):
    """Substitute / insert / delete characters."""
    if rate is None:
        rate = rng.choice([0.0002, 0.0005, 0.002, 0.01, 0.05])
    out = []
    n = 0
    for c in text:
        if rng.random() < rate:
            n += 1
            k = rng.randrange(3)
            if k == 0:
                out.append(rng.choice(NOISE_CHARS))
            elif k == 1:
                out.append(c)
                out.append(rng.choice(NOISE_CHARS))
            # k == 2: delete
        else:
            out.append(c)
    if n == 0 and text:
        i = rng.randrange(len(text))
        out = list(text[:i]) + [rng.choice(NOISE_CHARS)] + list(text[i:])
    return "".join(out)


# ---- documented field list (user guide, "Defining codec features") ------------------------
# kind: enum:<vc2_data_tables name> | int:<minimum> | bool | matrix ; optional = may say "default"

FIELDS = [
    ("level", "enum:Levels", False),
    ("profile", "enum:Profiles", False),
    ("base_video_format", "enum:BaseVideoFormats", False),
    ("picture_coding_mode", "enum:PictureCodingModes", False),
    ("frame_width", "int:1", True),
    ("frame_height", "int:1", True),
    ("color_diff_format_index", "enum:ColorDifferenceSamplingFormats", True),
    ("source_sampling", "enum:SourceSamplingModes", True),
    ("top_field_first", "bool", True),
    ("frame_rate_numer", "int:1", True),
    ("frame_rate_denom", "int:1", True),
    ("pixel_aspect_ratio_numer", "int:1", True),
    ("pixel_aspect_ratio_denom", "int:1", True),
    ("clean_width", "int:0", True),
    ("clean_height", "int:0", True),
    ("left_offset", "int:0", True),
    ("top_offset", "int:0", True),
    ("luma_offset", "int:0", True),
    ("luma_excursion", "int:1", True),
    ("color_diff_offset", "int:0", True),
    ("color_diff_excursion", "int:1", True),
    ("color_primaries_index", "enum:PresetColorPrimaries", True),
    ("color_matrix_index", "enum:PresetColorMatrices", True),
    ("transfer_function_index", "enum:PresetTransferFunctions", True),
    ("wavelet_index", "enum:WaveletFilters", False),
    ("wavelet_index_ho", "enum:WaveletFilters", False),
    ("dwt_depth", "int:0", False),
    ("dwt_depth_ho", "int:0", False),
    ("slices_x", "int:1", False),
    ("slices_y", "int:1", False),
    ("lossless", "bool", False),
    ("picture_bytes", "int:1", False),
    ("fragment_slice_count", "int:0", False),
    ("quantization_matrix", "matrix", True),
]

INT_FIELDS_WITH_MIN = [(n, int(k.split(":")[1])) for n, k, _ in FIELDS if k.startswith("int:")]


def _enum_cell(rng, enum_name):
    import vc2_data_tables as t

    e = getattr(t, enum_name)
    m = rng.choice(list(e))
    return m.name if rng.random() < 0.6 else str(int(m))


def synth_column(rng, defect=None):
    """{field: cell text} for one documented-valid column; `defect` (optional)
    names one deliberate departure from the documented domain.  Returns
    (cells, applied_defect or None)."""
    cells = {}
    for name, kind, optional in FIELDS:
        if optional and rng.random() < 0.5:
            cells[name] = rng.choice(["default", "default", "DEFAULT"])
        elif kind.startswith("enum:"):
            cells[name] = _enum_cell(rng, kind[5:])
        elif kind.startswith("int:"):
            mn = int(kind[4:])
            cells[name] = str(rng.choice([mn, mn, mn + 1, mn + rng.randrange(0, 20), rng.choice([255, 1920, 4096, 10 ** 6])]))
        elif kind == "bool":
            cells[name] = rng.choice(["TRUE", "FALSE", "true", "False", "1", "0", "yes", "no", "y", "n", "t", "f"])
    d = int(cells["dwt_depth"]) if int(cells["dwt_depth"]) < 10 else rng.randrange(0, 4)
    dh = int(cells["dwt_depth_ho"]) if int(cells["dwt_depth_ho"]) < 10 else rng.randrange(0, 4)
    if rng.random() < 0.7:
        d, dh = rng.randrange(0, 5), rng.randrange(0, 4)
    cells["dwt_depth"], cells["dwt_depth_ho"] = str(d), str(dh)
    nvals = 1 + dh + 3 * d
    if "quantization_matrix" not in cells:
        cells["quantization_matrix"] = rng.choice([" ", "  ", "\t"]).join(str(rng.randrange(0, 9)) for _ in range(nvals))
    lossless = cells["lossless"].lower() in ("true", "1", "yes", "y", "t")
    if lossless:
        cells["picture_bytes"] = ""
    applied = None
    if defect == "matrix-short" and cells["quantization_matrix"].lower() != "default" and nvals > 1:
        cells["quantization_matrix"] = " ".join(cells["quantization_matrix"].split()[:-1])
        applied = defect
    elif defect == "matrix-long" and cells["quantization_matrix"].lower() != "default":
        cells["quantization_matrix"] += " 3"
        applied = defect
    elif defect == "matrix-for-swapped-depths" and cells["quantization_matrix"].lower() != "default" and (1 + d + 3 * dh) != nvals:
        cells["quantization_matrix"] = " ".join("1" for _ in range(1 + d + 3 * dh))
        applied = defect
    elif defect == "lossless-with-bytes" and lossless:
        cells["picture_bytes"] = str(rng.choice([1, 24, 100000]))
        applied = defect
    elif defect == "lossy-without-bytes" and not lossless:
        cells["picture_bytes"] = ""
        applied = defect
    elif defect == "below-minimum":
        name, mn = rng.choice(INT_FIELDS_WITH_MIN)
        if not (name == "picture_bytes" and lossless):
            cells[name] = str(mn - 1)
            applied = defect + ":" + name
            if name in ("dwt_depth", "dwt_depth_ho"):
                cells["quantization_matrix"] = "default"
    elif defect == "bad-enum":
        name = rng.choice([n for n, k, _ in FIELDS if k.startswith("enum:")])
        cells[name] = rng.choice(["-1", "8", "23", "100", "does_not_exist", "Hd", "1.0"])
        applied = defect + ":" + name
    elif defect == "bad-bool":
        name = rng.choice(["lossless", "top_field_first"])
        cells[name] = rng.choice(["2", "maybe", "TRUEE", "-1", "oui"])
        applied = defect + ":" + name
    elif defect == "missing-field":
        name = rng.choice([n for n, _, _ in FIELDS if n != "picture_bytes"])
        cells[name] = ""
        applied = defect + ":" + name
    return cells, applied


DEFECTS = ["matrix-short", "matrix-long", "matrix-for-swapped-depths", "lossless-with-bytes", "lossy-without-bytes",
           "below-minimum", "bad-enum", "bad-bool", "missing-field"]


def synth_rows(rng, ncols=None, p_defect=0.35):
    """Random codec-features table from the documented field list.
    Returns (rows, [applied defects], names)."""
    if ncols is None:
        ncols = rng.choice([1, 1, 2, 3, 5])
    cols = []
    defects = []
    for _ in range(ncols):
        defect = rng.choice(DEFECTS) if rng.random() < p_defect / ncols * 1.5 else None
        c, applied = synth_column(rng, defect)
        cols.append(c)
        if applied:
            defects.append(applied)
    names = []
    for i in range(ncols):
        names.append(rng.choice(["cfg%d" % i, "cfg %d" % i, "  padded%d " % i, "über%d" % i, "a,b%d" % i]))
    order = [n for n, _, _ in FIELDS]
    if rng.random() < 0.3:
        rng.shuffle(order)
    rows = []
    name_row = rng.random() < 0.9
    if name_row:
        rows.append(["name"] + names)
    else:
        names = None
    for n in order:
        if rng.random() < 0.15:
            rows.append(rng.choice([[], [""] * (ncols + 1), ["# (11.4.%d)" % rng.randrange(12)] + [""] * ncols, ["#"], ["", "ignored", "cells"]]))
        rows.append([rng.choice([n, n, n, " " + n, n + " "])] + [c[n] for c in cols])
    return rows, defects, names


def random_csv_text(rng):
    """Unstructured random CSV."""
    words = ["name", "level", "profile", "lossless", "picture_bytes", "default", "0", "1", "3", "TRUE", "FALSE", "", "", "#", "# x",
             "a", "high_quality", "dwt_depth", "slices_x", "-1", "é", " ", "quantization_matrix", "0 0 0 0"]
    nrows = rng.randrange(0, 40)
    rows = []
    for _ in range(nrows):
        rows.append([rng.choice(words) for _ in range(rng.choice([0, 1, 2, 3, 3, 5, 8]))])
    text = rows_to_text(rows, eol=rng.choice(["\n", "\r\n", "\r"]), final_eol=rng.random() < 0.8)
    if rng.random() < 0.5:
        text = char_noise(text, rng)
    return text


def own_count_nonempty_columns(rows):
    """Number of non-empty columns (same notion as in own_parse_names), from rows as parsed by the stdlib csv module."""
    nonempty = set()
    for r in rows:
        if not r:
            continue
        k = r[0].strip()
        if not k or k.startswith("#"):
            continue
        for j, c in enumerate(r[1:]):
            if c.strip():
                nonempty.add(j)
    return len(nonempty)


def own_parse_names(rows):
    """From rows as parsed by the stdlib csv module: the explicit names given
    to non-empty columns, or None when the text does not have exactly one
    'name' row (judgement of duplicates is then not attempted).

    A column is non-empty when some non-comment row with a non-empty key has a
    non-blank cell in it (user guide: first column = parameter names, rows
    with empty or '#' first cell are ignored).
    """
    name_rows = [r for r in rows if r and r[0].strip() == "name"]
    if len(name_rows) != 1:
        return None
    nonempty = set()
    for r in rows:
        if not r:
            continue
        k = r[0].strip()
        if not k or k.startswith("#"):
            continue
        for j, c in enumerate(r[1:]):
            if c.strip():
                nonempty.add(j)
    names = []
    for j, c in enumerate(name_rows[0][1:]):
        if j in nonempty and c.strip():
            names.append(c.strip())
    return names
