"""Random serdes *programs* for C21 (and anybody else who needs one).

A program is a JSON-able tree of operations against a ``SerDes`` instance:

    ["prim", kind, target, arg]      kind in bool nbits uint_lit bitarray bytes uint sint (arg: width or None)
    ["declare_list", target]         later uses of `target` consume/extend a list
    ["computed", target, value]      computed_value
    ["set_type", type_name]          set_context_type(<fixeddict type made from program["types"][type_name]>)
    ["sub", target, [ops]]           subcontext (context manager or explicit enter/leave)
    ["block", pad_target, length, [ops]]   bounded_block; pad_target receives the unused bits
    ["align", target]                byte_align
    ["enter_only", target]           subcontext_enter without leave   (negative variants only)
    ["begin_only", length]           bounded_block_begin without end  (negative variants only)

    program = {"ops": [...], "types": {type_name: [key, ...] | None}}   (None: the builtin dict)

The *model context* is the description to serialise, as plain JSON-able data:
target -> bool | int | bytes | {"__ba": "0101"} (a bitarray) | dict (sub-context)
| list of those.

Three things live here:

* ``gen_program(rng)``                 -> (program, model)
* ``run_ops(serdes, ops, types, ...)`` the interpreter against a *real* SerDes
* ``ModelRun``                          an independent interpreter over plain dicts and
  the R-bits model: the bits a correct serialiser must produce, the context a
  correct deserialiser must return, and which fixeddict type each context must have.

Nothing here imports vc2_conformance; the caller supplies the SerDes instance
and the type objects.
"""
import copy

from vlib.ref import bits as RB

PRIM_KINDS = ("bool", "nbits", "uint_lit", "bitarray", "bytes", "uint", "sint")
EXTRA_KEYS = ("zz_extra", "zz_open", "zz_open2", "_zz_extra", "_", "__extra__", "0", "")


# ------------------------------------------------------------------- generator
class _Gen(object):
    def __init__(self, rng, max_depth, max_ops, max_list):
        self.rng = rng
        self.max_depth = max_depth
        self.budget = max_ops
        self.max_list = max_list
        self.n = 0
        self.types = {}

    def fresh(self, prefix="t", used=None):
        """A target name.  Names are unique within one context; one in five comes from a small pool shared by all
        contexts, so that a parent and its sub-descriptions (or siblings) often use the SAME name for different targets."""
        if used is not None and self.rng.random() < 0.2:
            cand = "%sx%d" % (prefix, self.rng.randrange(3))
            if cand not in used:
                used.add(cand)
                return cand
        self.n += 1
        name = "%s%d" % (prefix, self.n)
        if used is not None:
            used.add(name)
        return name

    # -- values
    def value(self, kind, arg):
        r = self.rng
        if kind == "bool":
            return r.random() < 0.5
        if kind == "nbits":
            return r.choice([0, 2 ** arg - 1, r.randrange(2 ** arg)])
        if kind == "uint_lit":
            return r.choice([0, 2 ** (8 * arg) - 1, r.randrange(2 ** (8 * arg))])
        if kind == "bytes":
            return bytes(r.randrange(256) for _ in range(arg))
        if kind == "bitarray":
            return {"__ba": "".join(r.choice("01") for _ in range(arg))}
        if kind == "uint":
            return r.choice([0, 1, 2, 6, 7, 8, r.randrange(5000), 2 ** r.randrange(1, 40) - r.choice([0, 1, 2])])
        v = r.choice([0, 1, 3, 7, r.randrange(5000), 2 ** r.randrange(1, 40) - r.choice([0, 1, 2])])
        return -v if r.random() < 0.5 else v

    def prim_shape(self, in_block):
        r = self.rng
        kind = r.choice(PRIM_KINDS)
        if kind == "nbits":
            return kind, r.choice([0, 1, 1, 3, 7, 8, 9, 16, r.randrange(0, 21)])
        if kind == "uint_lit":
            return kind, r.randrange(0, 4)
        if kind == "bytes":
            return kind, r.randrange(0, 4)
        if kind == "bitarray":
            return kind, r.randrange(0, 13)
        return kind, None

    # -- frames
    def frame(self, depth, inner=False, used=None):
        """Ops and model of one context (inner=True: the inside of a bounded block:
        same context, restricted operations)."""
        r = self.rng
        if used is None:
            used = set()  # names taken in this context (a bounded block shares its parent's)
        ops = []
        model = {}
        deferred = []
        n = r.randrange(0 if depth or inner else 1, 7)
        for _ in range(n):
            if self.budget <= 0:
                break
            self.budget -= 1
            c = r.random()
            if c < 0.36:
                t = self.fresh(used=used)
                kind, arg = self.prim_shape(inner)
                ops.append(["prim", kind, t, arg])
                model[t] = self.value(kind, arg)
            elif c < 0.50:
                t = self.fresh("l", used)
                kind, arg = self.prim_shape(inner)
                ops.append(["declare_list", t])
                k = r.randrange(0, self.max_list + 1)
                model[t] = []
                for i in range(k):
                    if r.random() < 0.15:
                        kind, arg = self.prim_shape(inner)  # heterogeneous list
                    use = ["prim", kind, t, arg]
                    model[t].append(self.value(kind, arg))
                    if i == k - 1 and r.random() < 0.3 and not inner:
                        deferred.append(use)
                    else:
                        ops.append(use)
            elif c < 0.54:
                t = self.fresh("_cl", used)
                ops.append(["declare_list", t])
                vals = [r.randrange(1000) for _ in range(r.randrange(0, 4))]
                for v in vals:
                    ops.append(["computed", t, v])
                if r.random() < 0.3:
                    model[t] = [9999] * r.randrange(0, len(vals) + 1)  # stale input, overwritten
            elif c < 0.62:
                t = self.fresh("_c", used)
                v = r.choice([r.randrange(100000), "text%d" % r.randrange(100), -5])
                ops.append(["computed", t, v])
                if r.random() < 0.3:
                    model[t] = "stale"
            elif c < 0.76 and depth < self.max_depth and not inner:
                t = self.fresh("s", used)
                sub_ops, sub_model = self.frame(depth + 1)
                ops.append(["sub", t, sub_ops])
                model[t] = sub_model
            elif c < 0.86 and depth < self.max_depth and not inner:
                t = self.fresh("sl", used)
                ops.append(["declare_list", t])
                model[t] = []
                for _ in range(r.randrange(0, 4)):
                    sub_ops, sub_model = self.frame(depth + 1)
                    ops.append(["sub", t, sub_ops])
                    model[t].append(sub_model)
                    if r.random() < 0.3 and self.budget > 0:
                        # something unrelated between two elements
                        t2 = self.fresh(used=used)
                        ops.append(["prim", "bool", t2, None])
                        model[t2] = r.random() < 0.5
            elif c < 0.94 and not inner:
                t = self.fresh("pad", used)
                in_ops, in_model = self.frame(depth, inner=True, used=used)
                spec = {"dangling": True} if r.random() < 0.3 else {"extra": r.choice([0, 0, 1, 2, 5, 8, 13])}
                ops.append(["block", t, spec, in_ops])
                model.update(in_model)
                model[t] = None  # filled by layout()
            elif not inner:
                t = self.fresh("al", used)
                ops.append(["align", t])
                model[t] = None  # filled by layout()
        ops.extend(deferred)
        if not inner and r.random() < 0.55:
            self.add_types(ops, model)
        return ops, model

    def add_types(self, ops, model):
        r = self.rng
        keys = sorted(set(_frame_targets(ops)) | set(model)) + list(EXTRA_KEYS)
        name = self.fresh("T")
        # keys None: the declared type is the builtin dict itself
        self.types[name] = None if r.random() < 0.15 else keys
        pos = 0 if r.random() < 0.7 else r.randrange(0, len(ops) + 1)
        ops.insert(pos, ["set_type", name])
        if r.random() < 0.15:
            name2 = self.fresh("T")
            self.types[name2] = keys
            ops.insert(r.randrange(pos + 1, len(ops) + 1), ["set_type", name2])


def _frame_targets(ops):
    """Targets used directly in one context (descending into blocks, not into subs)."""
    for op in ops:
        k = op[0]
        if k in ("prim",):
            yield op[2]
        elif k in ("declare_list", "computed", "sub", "align", "enter_only"):
            yield op[1]
        elif k == "block":
            yield op[1]
            for t in _frame_targets(op[3]):
                yield t


def gen_program(rng, max_depth=4, max_ops=25, max_list=5):
    g = _Gen(rng, max_depth, max_ops, max_list)
    ops, model = g.frame(0)
    program = {"ops": ops, "types": g.types}
    layout(program, model, rng)
    return program, model


# ---------------------------------------------------------------- model walker
class Frame(object):
    def __init__(self, path, src, out, ops):
        self.path = path  # tuple of (target, index|None)
        self.src = src  # input description node (dict) or None
        self.out = out  # expected description node
        self.ops = ops
        self.indices = {}  # target -> True | next list index
        self.type = None  # current type name (None: plain dict)
        self.first_type = None
        self.prims = []  # (target, kind, arg, list_index|None, in_block, type name at that op)
        self.lists = []  # (target, element kind: "prim"/"sub"/"computed"/None)
        self.used = []  # non-list targets in order of first use


class ModelError(Exception):
    pass


class ModelRun(object):
    """Reference interpretation of a program over a plain description."""

    def __init__(self, program, model, defaults=None, fill_rng=None):
        self.program = program
        self.defaults = defaults or {}  # {(type_name|None, target): value}
        self.fill_rng = fill_rng  # layout mode: choose block lengths / padding values
        self.bits = RB.BitModel()
        self.expected = {}
        self.types_at = {}  # path -> final type name
        self.first_types_at = {}
        self.frames = []
        self.n_prims = 0
        self.kinds = set()
        self.max_depth = 0
        root = Frame((), model, self.expected, program["ops"])
        self.frames.append(root)
        self.walk(program["ops"], root, False)

    # -- helpers
    def take(self, fr, target, what):
        idx = fr.indices.get(target)
        src = fr.src if fr.src is not None else {}
        if idx is None:
            fr.indices[target] = True
            fr.used.append(target)
            if target in src:
                return src[target], None
            return _MISSING, None
        if idx is True:
            raise ModelError("reuse of %r" % target)
        fr.indices[target] = idx + 1
        lst = src.get(target, [])
        if idx < len(lst):
            return lst[idx], idx
        return _MISSING, idx

    def put(self, fr, target, idx, value):
        if idx is None:
            fr.out[target] = value
        else:
            lst = fr.out[target]
            assert len(lst) == idx
            lst.append(value)

    def write_prim(self, kind, arg, v):
        b = self.bits
        if kind == "bool":
            b.write_bit(1 if v else 0)
        elif kind == "nbits":
            b.write_nbits(arg, v)
        elif kind == "uint_lit":
            b.write_nbits(8 * arg, v)
        elif kind == "bytes":
            assert len(v) == arg
            b.write_bits(RB.bytes_bits(v))
        elif kind == "bitarray":
            assert len(v["__ba"]) == arg
            b.write_bits([int(c) for c in v["__ba"]])
        elif kind == "uint":
            b.write_uint(v)
        elif kind == "sint":
            b.write_sint(v)
        else:
            raise ModelError(kind)

    def walk(self, ops, fr, in_block):
        self.max_depth = max(self.max_depth, len(fr.path))
        for op in ops:
            k = op[0]
            if k == "prim":
                _, kind, target, arg = op
                v, idx = self.take(fr, target, "prim")
                if v is _MISSING:
                    v = self.defaults.get((fr.type, target), _MISSING)
                    if v is _MISSING:
                        raise ModelError("missing %r" % target)
                self.write_prim(kind, arg, v)
                self.put(fr, target, idx, v)
                fr.prims.append((target, kind, arg, idx, in_block, fr.type))
                self.n_prims += 1
                self.kinds.add(kind)
            elif k == "declare_list":
                if op[1] in fr.indices:
                    raise ModelError("reuse of %r" % op[1])
                fr.indices[op[1]] = 0
                fr.out[op[1]] = []
                fr.lists.append(op[1])
            elif k == "computed":
                _, idx = self.take(fr, op[1], "computed")
                self.put(fr, op[1], idx, op[2])
                self.kinds.add("computed")
            elif k == "set_type":
                fr.type = op[1]
                if fr.first_type is None:
                    fr.first_type = op[1]
                    self.first_types_at[fr.path] = op[1]
                self.types_at[fr.path] = op[1]
                self.kinds.add("set_type")
            elif k == "sub":
                v, idx = self.take(fr, op[1], "sub")
                child_out = {}
                self.put(fr, op[1], idx, child_out)
                child = Frame(fr.path + ((op[1], idx),), None if v is _MISSING else v, child_out, op[2])
                self.frames.append(child)
                self.kinds.add("sub" if idx is None else "sub_in_list")
                self.walk(op[2], child, in_block)
            elif k == "block":
                _, pad_target, length, inner = op
                if self.fill_rng is not None and isinstance(length, dict):
                    length = self._choose_block_length(op, fr)
                self.bits.begin_block(length)
                self.walk(inner, fr, True)
                if self.bits.left < 0:
                    self.kinds.add("block_dangling")
                unused = self.bits.end_block()
                v, idx = self.take(fr, pad_target, "pad")
                if self.fill_rng is not None and v is None:
                    v = {"__ba": "".join(self.fill_rng.choice("01") for _ in range(unused))}
                    fr.src[pad_target] = v
                if v is _MISSING:
                    v = self.defaults.get((fr.type, pad_target), _MISSING)
                    if v is _MISSING:
                        raise ModelError("missing %r" % pad_target)
                if len(v["__ba"]) != unused:
                    raise ModelError("padding length")
                self.bits.write_bits([int(c) for c in v["__ba"]])
                self.put(fr, pad_target, idx, v)
                self.kinds.add("block")
                if unused:
                    self.kinds.add("block_with_padding")
            elif k == "align":
                n = (-self.bits.pos) % 8
                v, idx = self.take(fr, op[1], "align")
                if self.fill_rng is not None and v is None:
                    v = {"__ba": "".join(self.fill_rng.choice("01") for _ in range(n))}
                    fr.src[op[1]] = v
                if v is _MISSING:
                    raise ModelError("missing %r" % op[1])
                if len(v["__ba"]) != n:
                    raise ModelError("alignment padding length")
                self.bits.write_bits([int(c) for c in v["__ba"]])
                self.put(fr, op[1], idx, v)
                self.kinds.add("align")
                if n:
                    self.kinds.add("align_nonempty")
            else:
                raise ModelError("op %r" % (k,))

    def _choose_block_length(self, op, fr):
        """Layout mode: render the inside without a bound to learn its size."""
        probe = ModelRun.__new__(ModelRun)
        probe.__dict__.update(self.__dict__)
        probe.bits = RB.BitModel()
        probe.frames = []
        scratch = Frame(fr.path, fr.src, {}, op[3])
        scratch.indices = dict(fr.indices)
        scratch.type = fr.type
        probe.expected = scratch.out
        probe.walk(op[3], scratch, True)
        inner_bits = probe.bits.bits[: probe.bits.pos]
        spec = op[2]
        if "dangling" in spec:
            ones = 0
            while ones < len(inner_bits) and inner_bits[len(inner_bits) - 1 - ones] == 1:
                ones += 1
            cut = self.fill_rng.randrange(1, ones + 1) if ones else 0
            length = len(inner_bits) - cut
            if cut:
                self.kinds.add("block_dangling")
        else:
            length = len(inner_bits) + spec["extra"]
        op[2] = length
        return length


class _Missing(object):
    def __repr__(self):
        return "<missing>"


_MISSING = _Missing()


def layout(program, model, rng):
    """Fix block lengths and alignment/block padding values (mutates both)."""
    ModelRun(program, model, fill_rng=rng)


# ------------------------------------------------------- real-SerDes interpreter
class TreeInconsistent(Exception):
    def __init__(self, kind, what):
        Exception.__init__(self, what)
        self.kind = kind


def run_ops(serdes, ops, types, explicit=False, check_tree=True, _path=None, _counters=None, stats=None):
    """Interpret `ops` against a real SerDes.  With check_tree, after every
    set_context_type and every subcontext_enter the current context must be the
    very object found by walking from serdes.context along the path of targets
    (public attributes only): raises TreeInconsistent otherwise."""
    path = [] if _path is None else _path
    counters = {} if _counters is None else _counters  # list positions in *this* context
    for op in ops:
        k = op[0]
        if k == "prim":
            _, kind, target, arg = op
            if arg is None:
                getattr(serdes, kind)(target)
            else:
                getattr(serdes, kind)(target, arg)
            if target in counters:
                counters[target] += 1
        elif k == "declare_list":
            serdes.declare_list(op[1])
            counters[op[1]] = 0
        elif k == "computed":
            serdes.computed_value(op[1], op[2])
            if op[1] in counters:
                counters[op[1]] += 1
        elif k == "set_type":
            serdes.set_context_type(types[op[1]])
            if stats is not None:
                stats["set_type"] = stats.get("set_type", 0) + 1
                if path and path[-1][1] is not None:
                    stats["set_type_in_list"] = stats.get("set_type_in_list", 0) + 1
            if type(serdes.cur_context) is not types[op[1]]:
                where = "list-element" if path and path[-1][1] is not None else ("nested" if path else "top")
                kept = ":subclass-instance-kept" if isinstance(serdes.cur_context, types[op[1]]) else ""
                raise TreeInconsistent("type-not-set:%s%s" % (where, kept), "after set_context_type(%s) the current context is a %s" % (op[1], type(serdes.cur_context).__name__))
            if check_tree:
                _check_reachable(serdes, path, "set-type")
        elif k == "sub":
            target = op[1]
            idx = None
            if target in counters:
                idx = counters[target]
                counters[target] += 1
            path.append((target, idx))
            if explicit:
                serdes.subcontext_enter(target)
                if check_tree:
                    _check_reachable(serdes, path, "enter")
                run_ops(serdes, op[2], types, explicit, check_tree, path, {}, stats)
                serdes.subcontext_leave()
            else:
                with serdes.subcontext(target):
                    if check_tree:
                        _check_reachable(serdes, path, "enter")
                    run_ops(serdes, op[2], types, explicit, check_tree, path, {}, stats)
            path.pop()
        elif k == "block":
            if explicit:
                serdes.bounded_block_begin(op[2])
                run_ops(serdes, op[3], types, explicit, check_tree, path, counters, stats)
                serdes.bounded_block_end(op[1])
            else:
                with serdes.bounded_block(op[1], op[2]):
                    run_ops(serdes, op[3], types, explicit, check_tree, path, counters, stats)
            if op[1] in counters:
                counters[op[1]] += 1
        elif k == "align":
            serdes.byte_align(op[1])
        elif k == "enter_only":
            serdes.subcontext_enter(op[1])
            path.append((op[1], None))  # never left
        elif k == "begin_only":
            serdes.bounded_block_begin(op[1])
        else:
            raise AssertionError(op)


def _check_reachable(serdes, path, when):
    node = serdes.context
    try:
        for target, idx in path:
            node = node[target] if idx is None else node[target][idx]
    except (KeyError, IndexError) as e:
        raise TreeInconsistent(when + ":unreachable", "path %r not present below serdes.context (%r)" % (path, e))
    if node is not serdes.cur_context:
        where = "list-element" if path and path[-1][1] is not None else ("nested" if path else "top")
        raise TreeInconsistent(
            "%s:parent-slot-is-not-current-context:%s" % (when, where),
            "after %s at %r the object stored in the parent (%s) is not serdes.cur_context (%s)"
            % (when, path, type(node).__name__, type(serdes.cur_context).__name__),
        )


# --------------------------------------------------------- contexts, comparison
def build_context(node, types=None, pretype=None, ba=None, _path=()):
    """Plain model description -> the objects a Serialiser is given.  `ba` is the
    bitarray constructor; `pretype` {path: type name} makes those contexts
    instances of the fixeddict type already."""
    if isinstance(node, dict):
        if set(node) == {"__ba"}:
            return ba(node["__ba"])
        out = {}
        for k, v in node.items():
            if isinstance(v, list):
                out[k] = [build_context(e, types, pretype, ba, _path + ((k, i),)) for i, e in enumerate(v)]
            else:
                out[k] = build_context(v, types, pretype, ba, _path + ((k, None),))
        if pretype and _path in pretype:
            out = types[pretype[_path]](out)
        return out
    if isinstance(node, list):
        return [build_context(e, types, pretype, ba, _path) for e in node]
    if isinstance(node, bytearray):
        return bytes(node)
    return node


def compare(real, exp, types, types_at, strict_plain, ba_type, path=()):
    """None if `real` (live objects) equals the expected description, else a
    (kind, text) pair for the first difference."""
    if isinstance(exp, dict) and set(exp) == {"__ba"}:
        if not isinstance(real, ba_type) or real.to01() != exp["__ba"]:
            return ("value", "%r: %r, expected bitarray %s" % (path, real, exp["__ba"]))
        return None
    if isinstance(exp, dict):
        if not isinstance(real, dict):
            return ("shape", "%r: %r is not a context" % (path, real))
        want = types_at.get(path)
        if want is not None and type(real) is not types[want]:
            where = "list-element" if path and path[-1][1] is not None else ("nested" if path else "top")
            return ("type:" + where, "%r: context is a %s, expected %s" % (path, type(real).__name__, want))
        if want is None and strict_plain and type(real) is not dict:
            return ("type:unexpected", "%r: context is a %s, expected a plain dict" % (path, type(real).__name__))
        if set(real.keys()) != set(exp.keys()):
            missing = sorted(set(exp) - set(real.keys()))
            extra = sorted(set(real.keys()) - set(exp))
            kind = "keys"
            if missing and all(m.startswith("_c") for m in missing):
                kind = "computed-missing"
            return (kind, "%r: keys missing %r, unexpected %r" % (path, missing, extra))
        for k in exp:
            e = exp[k]
            if isinstance(e, list):
                r = real[k]
                if not isinstance(r, list) or len(r) != len(e):
                    return ("list", "%r[%r]: %r, expected a list of %d" % (path, k, r, len(e)))
                for i, (ri, ei) in enumerate(zip(r, e)):
                    d = compare(ri, ei, types, types_at, strict_plain, ba_type, path + ((k, i),))
                    if d:
                        return d
            else:
                d = compare(real[k], e, types, types_at, strict_plain, ba_type, path + ((k, None),))
                if d:
                    return d
        return None
    if isinstance(exp, (bytes, bytearray)):
        if not isinstance(real, (bytes, bytearray)) or bytes(real) != bytes(exp):
            return ("value", "%r: %r, expected %r" % (path, real, exp))
        return None
    if isinstance(real, (dict, list)) or real != exp:
        return ("value", "%r: %r, expected %r" % (path, real, exp))
    return None


def node_at(root, path):
    node = root
    for target, idx in path:
        node = node[target] if idx is None else node[target][idx]
    return node


def same_size_value(rng, kind, arg, orig):
    """Another valid value for the primitive that occupies exactly as many bits."""
    for _ in range(20):
        if kind == "bool":
            v = not orig
        elif kind == "nbits":
            v = rng.randrange(2 ** arg)
        elif kind == "uint_lit":
            v = rng.randrange(2 ** (8 * arg))
        elif kind == "bytes":
            v = bytes(rng.randrange(256) for _ in range(arg))
        elif kind == "bitarray":
            v = {"__ba": "".join(rng.choice("01") for _ in range(arg))}
        else:
            mag = abs(orig)
            k = (RB.uint_length(mag) - 1) // 2
            v = rng.randrange(2 ** k, 2 ** (k + 1)) - 1
            if kind == "sint" and orig < 0:
                v = -v
            if kind == "sint" and (v == 0) != (orig == 0):
                continue
        if v != orig:
            return v
    return orig


def program_size(ops):
    n = 0
    for op in ops:
        n += 1
        if op[0] == "sub":
            n += program_size(op[2])
        elif op[0] == "block":
            n += program_size(op[3])
    return n


def clone(x):
    return copy.deepcopy(x)
