"""Helpers shared by the two command-line checks (C25 validator, C26 viewer).

* hermetic in-process invocation of a script's ``main(argv)``: own argv/prog
  name, captured stdout/stderr, SystemExit turned into a status, working
  directory restored, escaping exceptions recorded with their innermost
  repository frame;
* the workload adapter: the shared seed corpus / mutators
  (``vlib.gen.corpus``, ``vlib.gen.mutate``) when importable, otherwise a small
  private fallback with the same call signatures (a dozen encoder streams and
  plain byte / unit mutations, plus the three coordinated constructions of
  DESIGN section 3).
"""
import contextlib
import io
import os
import struct
import sys
import traceback

from vlib.worker import CaseTimeout, OutOfScope, StepBudgetExceeded

# --------------------------------------------------------------------------
# hermetic invocation
# --------------------------------------------------------------------------
_PASS_THROUGH = (OutOfScope, CaseTimeout, StepBudgetExceeded, KeyboardInterrupt)


def repo_dir():
    import vc2_conformance

    return os.path.dirname(os.path.abspath(vc2_conformance.__file__)) + os.sep


def innermost_repo_function(tb):
    """Name of the innermost function of the repository in a traceback object
    (or a list of FrameSummary), or None."""
    frames = traceback.extract_tb(tb) if not isinstance(tb, list) else tb
    prefix = repo_dir()
    for fr in reversed(frames):
        if os.path.abspath(fr.filename).startswith(prefix):
            return fr.name
    return None


class CliResult(object):
    __slots__ = ("status", "returned", "raised", "exc_class", "exc_text", "site", "tb", "stdout", "stderr", "via_exit")

    def __init__(self):
        self.status = None  # what the process exit status would be (int, or repr of a non-int)
        self.returned = None
        self.raised = False  # an exception other than SystemExit escaped main()
        self.exc_class = None
        self.exc_text = None
        self.site = None
        self.tb = None
        self.stdout = ""
        self.stderr = ""
        self.via_exit = False


def _status_of(value):
    """sys.exit(value) semantics."""
    if value is None:
        return 0
    if isinstance(value, bool):
        return int(value)
    if isinstance(value, int):
        return value
    return 1  # sys.exit("text") prints the text and exits 1


@contextlib.contextmanager
def int_str_limit(limit):
    """Set the interpreter's int<->str digit limit (CPython >= 3.11) for the
    duration of the block; `None` = the interpreter's default for a fresh process."""
    if not hasattr(sys, "set_int_max_str_digits"):
        yield
        return
    old = sys.get_int_max_str_digits()
    if limit is None:
        limit = getattr(sys.int_info, "default_max_str_digits", 4300)
    sys.set_int_max_str_digits(limit)
    try:
        yield
    finally:
        sys.set_int_max_str_digits(old)


def call_main(main, argv, prog, cwd=None):
    """Call ``main(argv)`` as the console script would (``sys.exit(main())``):
    every call starts from a fresh process's int->str limit and whatever the
    command sets is undone afterwards."""
    with int_str_limit(None):
        return _call_main(main, argv, prog, cwd)


def _call_main(main, argv, prog, cwd=None):
    r = CliResult()
    so, se = io.StringIO(), io.StringIO()
    old_argv = sys.argv
    old_cwd = os.getcwd()
    sys.argv = [prog] + list(argv)
    try:
        if cwd is not None:
            os.chdir(cwd)
        with contextlib.redirect_stdout(so), contextlib.redirect_stderr(se):
            try:
                r.returned = main(list(argv))
                r.status = _status_of(r.returned)
            except SystemExit as e:
                r.via_exit = True
                r.returned = e.code
                r.status = _status_of(e.code)
            except _PASS_THROUGH:
                raise
            except BaseException as e:
                r.raised = True
                r.exc_class = type(e).__name__
                r.exc_text = str(e)[:300]
                tb = sys.exc_info()[2]
                r.site = innermost_repo_function(tb)
                r.tb = traceback.format_exc()[-3000:]
    finally:
        sys.argv = old_argv
        try:
            os.chdir(old_cwd)
        except OSError:
            pass
        r.stdout = so.getvalue()
        r.stderr = se.getvalue()
    return r


# --------------------------------------------------------------------------
# workload adapter
# --------------------------------------------------------------------------
@contextlib.contextmanager
def time_limit(seconds):
    """Case *generation* runs outside the worker's per-case watchdog; bound it
    with the same SIGALRM mechanism (the worker's handler raises CaseTimeout)."""
    import signal

    signal.setitimer(signal.ITIMER_REAL, seconds)
    try:
        yield
    finally:
        signal.setitimer(signal.ITIMER_REAL, 0)


try:  # shared generators (written by someone else; used whenever importable)
    if os.environ.get("VERIF_FORCE_FALLBACK_GENERATORS"):  # debugging aid only
        raise ImportError("fallback forced")
    from vlib.gen import corpus as _shared_corpus
    from vlib.gen import mutate as _shared_mutate

    SHARED = True
except ImportError:  # private fallback, same call signatures
    _shared_corpus = None
    _shared_mutate = None
    SHARED = False


def seed_corpus(seed=0, size="quick"):
    if SHARED:
        return [(str(l), bytes(b)) for l, b in _shared_corpus.seed_corpus(seed=seed, size=size)]
    return _fallback_corpus(seed, size)


def mutate_bytes(data, rng, corpus=None):
    if SHARED:
        return _shared_mutate.mutate_bytes(data, rng, corpus=corpus)
    return _fb_mutate_bytes(data, rng, corpus)


def mutate_fields(data, rng):
    if SHARED:
        return _shared_mutate.mutate_fields(data, rng)
    return _fb_mutate_units(data, rng)


def coordinated(data, rng, corpus=None):
    if SHARED:
        try:
            return _shared_mutate.coordinated(data, rng, corpus=corpus)
        except TypeError:  # signature without the corpus argument
            return _shared_mutate.coordinated(data, rng)
    return _fb_coordinated(data, rng)


def random_case(corpus, rng):
    if SHARED:
        return _shared_mutate.random_case(corpus, rng)
    label, data = corpus[rng.randrange(len(corpus))]
    k = rng.random()
    if k < 0.6:
        out, op = _fb_mutate_bytes(data, rng, corpus)
    elif k < 0.85:
        out, op = _fb_mutate_units(data, rng)
    else:
        out, op = _fb_coordinated(data, rng)
    if out is None:
        out, op = _fb_mutate_bytes(data, rng, corpus)
    return {"data": out, "op": op, "seed": label}


def truncations(data):
    if SHARED:
        return list(_shared_mutate.truncations(data))
    return _fb_truncations(data)


def make_tmp(prefix):
    """Per-worker scratch directory (memory backed when the machine offers it);
    the check's teardown()/atexit removes it."""
    import tempfile

    base = "/dev/shm" if os.path.isdir("/dev/shm") and os.access("/dev/shm", os.W_OK) else None
    return tempfile.mkdtemp(prefix=prefix, dir=base)


def load_corpus(ctx, size):
    with time_limit(600):
        corpus = seed_corpus(seed=ctx.seed, size=size)
    ctx.maxi("max_corpus_streams", len(corpus))
    ctx.count("shared_generators" if SHARED else "fallback_generators")
    return corpus


def draw(corpus, rng, ctx, mix):
    """One generated input: {"data", "op", "seed"} or None (operator not
    applicable / generator timed out).  `mix` = cumulative thresholds for
    (unchanged, random_case, bytes, fields, coordinated, truncation)."""
    k = rng.random()
    label, data = corpus[rng.randrange(len(corpus))]
    try:
        with time_limit(60):
            if k < mix[0]:
                case = {"data": data, "op": "none", "seed": label}
            elif k < mix[1]:
                case = random_case(corpus, rng)
            elif k < mix[2]:
                out, op = mutate_bytes(data, rng, corpus=corpus)
                case = {"data": out, "op": op, "seed": label}
            elif k < mix[3]:
                out, op = mutate_fields(data, rng)
                case = {"data": out, "op": op, "seed": label}
            elif k < mix[4]:
                out, op = coordinated(data, rng, corpus=corpus)
                case = {"data": out, "op": op, "seed": label}
            elif k < mix[5]:
                ts = truncations(data)
                case = {"data": rng.choice(ts) if ts else None, "op": "truncation", "seed": label}
            else:
                return "other"
    except CaseTimeout:
        ctx.count("generator_timeouts")
        return None
    if case["data"] is None:
        ctx.count("generator_gave_none:" + str(case["op"]).split(":")[0])
        return None
    return {"data": bytes(case["data"]), "op": str(case["op"]), "seed": str(case["seed"])}


def zero_run(corpus, rng):
    """A long run of zero bytes inserted into the body of one data unit (offsets
    re-computed): in an unbounded region the interleaved exp-Golomb reader keeps
    doubling the value for every 00 pair, so the next variable-length field
    becomes an integer of thousands of bits.  Not one of the shared operators;
    kept here because both command-line tools *print* such values."""
    from vlib import vc2util

    label, data = corpus[rng.randrange(len(corpus))]
    try:
        units = [bytearray(u) for u in vc2util.split_units(data)]
    except Exception:
        return None
    cand = [i for i, u in enumerate(units) if len(u) > 13]
    if not cand:
        return None
    heads = [i for i in cand if units[i][4] == vc2util.PC_SEQUENCE_HEADER]
    i = rng.choice(heads) if heads and rng.random() < 0.6 else rng.choice(cand)
    u = units[i]
    body = len(u) - 13
    pos = min(len(u), 13 + rng.choice([0, 0, 1, 1, 2, 3, rng.randrange(body + 1)]))
    if rng.random() < 0.5 and pos > 13:
        # make sure the run starts inside a field: clear the low bits of the byte before it
        u[pos - 1] &= 0xFF << rng.randrange(1, 8) & 0xFF
    n = rng.choice([40, 600, 1800, 3600, 3600, 5000, 9000, 9000, 30000, 70000])
    u[pos:pos] = bytes(n)
    return {"data": vc2util.join_units(units), "op": "x:zero-run-%d" % n, "seed": label}


# ---- fallback --------------------------------------------------------------
_FB_CACHE = {}


def _fallback_corpus(seed, size):
    key = (seed, size)
    if key in _FB_CACHE:
        return _FB_CACHE[key]
    import random

    from vlib import pipeline
    from vlib.gen import configs

    rng = random.Random("fallback-corpus/%s" % seed)
    want = 12 if size == "quick" else 30
    spaces = [
        {"fragments": "no", "maxw": 8, "maxh": 8},
        {"maxw": 8, "maxh": 8},
        {"lossless": "yes", "maxw": 8, "maxh": 8},
        {"profiles": [0], "lossless": "no", "maxw": 8, "maxh": 8},
    ]
    out = []
    tries = 0
    while len(out) < want and tries < want * 10:
        tries += 1
        sp = dict(spaces[tries % len(spaces)])
        recipe = configs.random_recipe(rng, sp)
        if tries % 3 == 0 and recipe["fsc"] == 0:
            recipe["fsc"] = rng.choice([1, 2])
        o = pipeline.run(recipe)
        if o.stage == "done" and o.verdict.kind == "ok" and len(o.data) < 6000:
            out.append(("fb%d:%s" % (len(out), configs.stratum(recipe)), o.data))
    _FB_CACHE[key] = out
    return out


def _fb_mutate_bytes(data, rng, corpus=None):
    b = bytearray(data)
    ops = []
    for _ in range(rng.choice([1, 1, 1, 2, 3, 5])):
        if not b:
            break
        op = rng.choice(["flip", "subst", "delete", "insert", "truncate", "splice"])
        p = rng.randrange(len(b))
        if op == "flip":
            b[p] ^= 1 << rng.randrange(8)
        elif op == "subst":
            b[p] = rng.randrange(256)
        elif op == "delete":
            del b[p:p + rng.randrange(1, 4)]
        elif op == "insert":
            b[p:p] = bytes(rng.randrange(256) for _ in range(rng.randrange(1, 4)))
        elif op == "truncate":
            b = b[:p]
        elif op == "splice":
            other = corpus[rng.randrange(len(corpus))][1] if corpus else bytes(data)
            q = rng.randrange(len(other))
            b[p:p] = other[q:q + rng.randrange(1, 40)]
        ops.append(op)
    return bytes(b), "bytes:" + "+".join(ops)


def _units(data):
    from vlib import vc2util

    try:
        return vc2util.split_units(data)
    except Exception:
        return None


def _fb_mutate_units(data, rng):
    from vlib import vc2util

    units = _units(data)
    if not units or len(units) < 3:
        return None, "units:none"
    op = rng.choice(["dup", "drop", "swap", "zero-next", "bad-prev", "bad-next", "pic-number", "parse-code"])
    units = [bytearray(u) for u in units]
    i = rng.randrange(len(units))
    fix = True
    if op == "dup":
        units.insert(i, bytearray(units[i]))
    elif op == "drop":
        del units[i]
    elif op == "swap":
        j = rng.randrange(len(units))
        units[i], units[j] = units[j], units[i]
    elif op == "zero-next":
        fix = False
        units[i][5:9] = b"\0\0\0\0"
    elif op == "bad-prev":
        fix = False
        units[i][9:13] = struct.pack(">I", rng.choice([0, 1, 13, 14, len(units[i]) + 1]))
    elif op == "bad-next":
        fix = False
        units[i][5:9] = struct.pack(">I", rng.choice([1, 12, 13, len(units[i]) + 1, len(units[i]) - 1]))
    elif op == "pic-number":
        fix = False
        if len(units[i]) >= 17:
            units[i][13:17] = struct.pack(">I", rng.choice([0, 1, 2 ** 32 - 1, 7]))
    elif op == "parse-code":
        fix = False
        units[i][4] = rng.choice([0x00, 0x10, 0x20, 0x30, 0xC8, 0xE8, 0xCC, 0xEC, 0x08])
    return vc2util.join_units(units, fix_offsets=fix), "units:" + op


def _fb_coordinated(data, rng):
    """The three interactions DESIGN section 3 names."""
    from vlib import vc2util

    units = _units(data)
    if not units:
        return None, "coord:none"
    codes = [u[4] for u in units]
    pics = [i for i, c in enumerate(codes) if c in vc2util.PICTURE_CODES + vc2util.FRAGMENT_CODES]
    kind = rng.choice(["zero-next+bad-prev", "fragment-without-first", "fragment-after-picture"])
    if kind == "zero-next+bad-prev":
        cand = [i for i in pics if i + 1 < len(units)]
        if not cand:
            return None, "coord:" + kind
        i = rng.choice(cand)
        us = [bytearray(u) for u in units]
        us[i][5:9] = b"\0\0\0\0"
        us[i + 1][9:13] = struct.pack(">I", len(us[i]) + rng.choice([1, -1, 13]))
        return vc2util.join_units(us, fix_offsets=False), "coord:" + kind
    firsts = [i for i, u in enumerate(units) if u[4] in vc2util.FRAGMENT_CODES and len(u) >= 21 and u[19:21] == b"\0\0"]
    if kind == "fragment-without-first":
        if not firsts:
            return None, "coord:" + kind
        i = firsts[0] if rng.random() < 0.7 else rng.choice(firsts)
        us = [u for j, u in enumerate(units) if j != i]
        return vc2util.join_units(us), "coord:" + kind
    # (fallback approximation of 'fragment after a picture with the same number': the
    # last fragmented picture loses its first fragment, so its slice fragments follow
    # the previous picture; the shared generator builds the real construction)
    if len(firsts) < 1:
        return None, "coord:" + kind
    i = firsts[-1]
    us = [bytearray(u) for j, u in enumerate(units) if j != i]
    return vc2util.join_units(us), "coord:" + kind


def _fb_truncations(data):
    n = len(data)
    pts = sorted(set([0, 1, 3, 4, 5, 12, 13, 14, n // 2, n - 14, n - 13, n - 12, n - 1]))
    return [bytes(data[:p]) for p in pts if 0 <= p < n]
