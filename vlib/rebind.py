"""Bind a wrapper over a module-level function in *every* namespace that holds
a reference to it (``from m import f`` aliases included), and count calls.

    rb = rebind.Rebind(orig_func, wrapper_factory)   # wrapper_factory(orig) -> new callable
    rb.install(); ...; rb.calls; rb.restore()

Only module globals and class attributes are patched; references captured in
closures, default arguments or registries made before install() are not seen —
hence the call counter: zero calls where calls were expected means the monitor
never observed anything and the run is inconclusive, not held.
"""
import sys


class Rebind(object):
    def __init__(self, orig, factory, only_prefix="vc2_conformance"):
        self.orig = orig
        self.calls = 0
        self.sites = []
        self.only_prefix = only_prefix

        def counted(*a, **kw):
            self.calls += 1
            return self._wrapped(*a, **kw)

        self._wrapped = factory(orig)
        counted.__name__ = getattr(orig, "__name__", "wrapped")
        counted.__wrapped__ = orig
        self.new = counted

    def install(self):
        for name, mod in list(sys.modules.items()):
            if mod is None or not name.startswith(self.only_prefix):
                continue
            d = getattr(mod, "__dict__", None)
            if not d:
                continue
            for k, v in list(d.items()):
                if v is self.orig:
                    d[k] = self.new
                    self.sites.append((mod, k))
        return self

    def restore(self):
        for mod, k in self.sites:
            mod.__dict__[k] = self.orig
        self.sites = []


def wrap_method(cls, name, factory):
    orig = cls.__dict__[name]
    new = factory(orig)
    setattr(cls, name, new)
    return orig
