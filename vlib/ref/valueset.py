"""R-set — reference model of a constraint-table value set.

A value set is a plain Python ``frozenset`` over a small universe of hashable
values (small integers, the two booleans — which Python identifies with 1 and
0 — and a few strings), or the marker ``ANY`` (contains everything).

A constraint table is a list of columns, each a dict ``key -> model set``.
The table semantics below are written from the prose of the
constraint-table documentation ("a set of values satisfies a constraint table
if at least one allowed-combination dictionary contains the specified
combination of values"), and share no code with vc2_conformance.
"""

ANY = "Any"  # marker: the set of all values


def empty():
    return frozenset()


def is_any(s):
    return isinstance(s, str) and s == ANY


def of_value(v):
    return frozenset([v])


def of_range(lo, hi):
    """Inclusive integer range, lo <= hi."""
    return frozenset(range(lo, hi + 1))


def of_items(items):
    """items: iterable of ("v", value) | ("r", lo, hi)."""
    out = set()
    for it in items:
        if it[0] == "v":
            out.add(it[1])
        else:
            out.update(range(it[1], it[2] + 1))
    return frozenset(out)


def union(a, b):
    if is_any(a) or is_any(b):
        return ANY
    return a | b


def contains(s, v):
    return True if is_any(s) else (v in s)


def disjoint(a, b):
    """No common value.  ANY shares a value with every non-empty set (and with ANY)."""
    if is_any(a) and is_any(b):
        return False
    if is_any(a):
        return len(b) == 0
    if is_any(b):
        return len(a) == 0
    return not (a & b)


# ---- tables -------------------------------------------------------------------


def column_matches(column, values):
    return all(k in column and contains(column[k], v) for k, v in values.items())


def is_allowed(table, values):
    return any(column_matches(c, values) for c in table)


def allowed_for(table, key, chosen):
    out = frozenset()
    for c in table:
        if column_matches(c, chosen) and key in c:
            out = union(out, c[key])
    return out
