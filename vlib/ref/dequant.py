"""R-dequant (+ the part of R-slices it needs): independent model of how
bitstream-order slice coefficient lists become subband arrays.

Written from the standard's rules, no vc2_conformance import:

* (13.2.3) subband dimensions of the padded component,
* (13.5.6.2) slice bounds inside a subband,
* (13.3.1)/(13.3.2) inverse quantisation with the factor/offset formulae,
* (13.5.5) per-band quantiser = max(qindex - matrix[level][orient], 0),
* (13.5.4)/(13.5.3.1) coefficient order: HQ carries y, c1, c2 as three
  separate runs; LD carries y, then c1/c2 interleaved sample by sample,
* (13.4) DC prediction (LD parse codes only).

Also the signed exp-Golomb code (A.4.4) as a bit string (R-golomb), which the
stream-variant generator uses to compute length fields.

Everything is a pure function of plain ints/lists; a "band" is a list of rows.
"""


# --------------------------------------------------------------------------
# R-golomb
# --------------------------------------------------------------------------
def sint_bits(v):
    """Signed interleaved exp-Golomb code of v as a '0'/'1' string (A.4.4)."""
    n = abs(v) + 1
    k = n.bit_length() - 1
    out = []
    for i in range(k - 1, -1, -1):
        out.append("0")
        out.append("1" if (n >> i) & 1 else "0")
    out.append("1")
    if v:
        out.append("1" if v < 0 else "0")
    return "".join(out)


def sint_len(v):
    n = abs(v) + 1
    return 2 * (n.bit_length() - 1) + 1 + (1 if v else 0)


def read_sint_bounded(bits, pos, end):
    """Decode one signed value from `bits` starting at `pos` where every bit at
    index >= end reads as 1 (A.4.2).  -> (value, new_pos)"""
    def rb():
        nonlocal pos
        if pos >= end:
            return 1
        b = 1 if bits[pos] == "1" else 0
        pos += 1
        return b

    value = 1
    while rb() == 0:
        value <<= 1
        if rb():
            value += 1
    value -= 1
    if value and rb():
        value = -value
    return value, pos


# --------------------------------------------------------------------------
# geometry
# --------------------------------------------------------------------------
def subbands(w, h, d, dh):
    """Subbands of a w x h component under a transform with `dh` horizontal-only
    levels followed by `d` 2-D levels, in bitstream order:
    [(level, orient, band_width, band_height), ...]"""
    sw = 1 << (d + dh)
    sh = 1 << d
    pw = -(-w // sw) * sw
    ph = -(-h // sh) * sh
    out = []
    if dh == 0:
        out.append((0, "LL", pw >> d, ph >> d))
    else:
        out.append((0, "L", pw >> (d + dh), ph >> d))
        for lvl in range(1, dh + 1):
            # horizontal-only level: width halves per remaining level, height is the
            # fully vertically-decimated height
            out.append((lvl, "H", pw >> (d + dh - lvl + 1), ph >> d))
    for lvl in range(dh + 1, dh + d + 1):
        s = d + dh - lvl + 1
        for o in ("HL", "LH", "HH"):
            out.append((lvl, o, pw >> s, ph >> s))
    return out


def slice_bounds(W, H, nx, ny, sx, sy):
    """-> (x1, x2, y1, y2) of slice (sx, sy) inside a W x H subband"""
    return (W * sx) // nx, (W * (sx + 1)) // nx, (H * sy) // ny, (H * (sy + 1)) // ny


def slice_count(w, h, d, dh, nx, ny, sx, sy):
    """number of coefficients one component contributes to slice (sx, sy)"""
    n = 0
    for _, _, W, H in subbands(w, h, d, dh):
        x1, x2, y1, y2 = slice_bounds(W, H, nx, ny, sx, sy)
        n += (x2 - x1) * (y2 - y1)
    return n


def new_arrays(w, h, d, dh, fill=None):
    out = {}
    for lvl, o, W, H in subbands(w, h, d, dh):
        out.setdefault(lvl, {})[o] = [[fill] * W for _ in range(H)]
    return out


# --------------------------------------------------------------------------
# quantisation (13.3)
# --------------------------------------------------------------------------
def quant_factor(i):
    base = 1 << (i // 4)
    r = i % 4
    if r == 0:
        return 4 * base
    if r == 1:
        return (503829 * base + 52958) // 105917
    if r == 2:
        return (665857 * base + 58854) // 117708
    return (440253 * base + 32722) // 65444


def quant_offset(i):
    if i == 0:
        return 1
    if i == 1:
        return 2
    return (quant_factor(i) + 1) // 2


def inverse_quant(v, qi):
    if v == 0:
        return 0
    m = (abs(v) * quant_factor(qi) + quant_offset(qi) + 2) // 4
    return m if v > 0 else -m


def band_quantiser(qindex, matrix, lvl, o):
    return max(qindex - matrix[lvl][o], 0)


def matrix_from_list(values, d, dh):
    """custom quantisation matrix in bitstream order (12.4.5.3) -> {level: {orient: v}}"""
    it = iter(values)
    m = {}
    if dh == 0:
        m[0] = {"LL": next(it)}
    else:
        m[0] = {"L": next(it)}
        for lvl in range(1, dh + 1):
            m[lvl] = {"H": next(it)}
    for lvl in range(dh + 1, dh + d + 1):
        m[lvl] = {}
        for o in ("HL", "LH", "HH"):
            m[lvl][o] = next(it)
    rest = list(it)
    if rest:
        raise ValueError("quantisation matrix has %d surplus entries" % len(rest))
    return m


def default_matrix(wi, wih, d, dh):
    """default matrix of annex D via the vc2_data_tables constant (or None)"""
    from vc2_data_tables import QUANTISATION_MATRICES

    for k, v in QUANTISATION_MATRICES.items():
        if (int(k[0]), int(k[1]), int(k[2]), int(k[3])) == (wi, wih, d, dh):
            return {int(l): {str(o): int(x) for o, x in b.items()} for l, b in v.items()}
    return None


# --------------------------------------------------------------------------
# placement
# --------------------------------------------------------------------------
class CountMismatch(ValueError):
    """a slice's coefficient list is shorter/longer than the slice geometry"""


def _place(arrays_list, it_list, w, h, d, dh, nx, ny, sx, sy, qindex, matrix):
    """Walk the subbands of a (w x h) component in bitstream order; at every
    position of slice (sx, sy) take one value from each iterator in `it_list`
    (in that order) and store its dequantised value in the matching array."""
    for lvl, o, W, H in subbands(w, h, d, dh):
        x1, x2, y1, y2 = slice_bounds(W, H, nx, ny, sx, sy)
        qi = band_quantiser(qindex, matrix, lvl, o)
        for y in range(y1, y2):
            for x in range(x1, x2):
                for arr, it in zip(arrays_list, it_list):
                    try:
                        v = next(it)
                    except StopIteration:
                        raise CountMismatch("coefficient list too short for slice (%d,%d)" % (sx, sy))
                    arr[lvl][o][y][x] = inverse_quant(v, qi)


def _exhausted(it, what):
    for _ in it:
        raise CountMismatch("coefficient list %s has surplus entries" % what)


class Picture(object):
    """Transform data of one picture being filled slice by slice.

    dims   = {"Y": (w, h), "C1": (w, h), "C2": (w, h)}
    params = dict(d=, dh=, nx=, ny=, matrix={level: {orient: v}})
    """

    def __init__(self, dims, d, dh, nx, ny, matrix):
        self.dims = {c: (dims[c][0], dims[c][1]) for c in ("Y", "C1", "C2")}
        self.d, self.dh, self.nx, self.ny, self.matrix = d, dh, nx, ny, matrix
        self.arrays = {c: new_arrays(wh[0], wh[1], d, dh) for c, wh in self.dims.items()}
        self.slices = 0

    def _args(self, c, sx, sy, q):
        w, h = self.dims[c]
        return (w, h, self.d, self.dh, self.nx, self.ny, sx, sy, q, self.matrix)

    def put_hq(self, sx, sy, qindex, y, c1, c2):
        for c, vals in (("Y", y), ("C1", c1), ("C2", c2)):
            it = iter(vals)
            _place([self.arrays[c]], [it], *self._args(c, sx, sy, qindex))
            _exhausted(it, c)
        self.slices += 1

    def put_ld(self, sx, sy, qindex, y, c):
        it = iter(y)
        _place([self.arrays["Y"]], [it], *self._args("Y", sx, sy, qindex))
        _exhausted(it, "Y")
        it = iter(c)
        # c1 and c2 share dimensions; values alternate c1, c2 at each position
        _place([self.arrays["C1"], self.arrays["C2"]], [it, it], *self._args("C1", sx, sy, qindex))
        _exhausted(it, "C")
        self.slices += 1

    def finish(self, dc_prediction):
        if dc_prediction:
            for c in ("Y", "C1", "C2"):
                dc_predict(self.arrays[c][0]["LL" if self.dh == 0 else "L"])
        return self.arrays


def dc_predict(band):
    """(13.4) in place"""
    for y in range(len(band)):
        row = band[y]
        for x in range(len(row)):
            if x > 0 and y > 0:
                p = (row[x - 1] + band[y - 1][x - 1] + band[y - 1][x] + 1) // 3
            elif x > 0:
                p = row[x - 1]
            elif y > 0:
                p = band[y - 1][0]
            else:
                p = 0
            row[x] += p


def first_difference(a, b):
    """first (level, orient, y, x, mine, theirs) where two transform dicts differ, or None"""
    if set(a) != set(b):
        return ("levels", sorted(a), sorted(b))
    for lvl in sorted(a):
        if set(a[lvl]) != set(b[lvl]):
            return ("orients", lvl, sorted(a[lvl]), sorted(b[lvl]))
        for o in sorted(a[lvl]):
            A, B = a[lvl][o], b[lvl][o]
            if len(A) != len(B):
                return ("height", lvl, o, len(A), len(B))
            for y, (ra, rb) in enumerate(zip(A, B)):
                if len(ra) != len(rb):
                    return ("width", lvl, o, len(ra), len(rb))
                if ra != rb:
                    for x, (va, vb) in enumerate(zip(ra, rb)):
                        if va != vb or type(va) is not type(vb):
                            return ("value", lvl, o, y, x, va, vb)
    return None
