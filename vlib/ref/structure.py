"""R-structure: reference model of the stream-structure rules of SMPTE ST 2042-1
for streams assembled from individually valid data units.  Written from the
property statement / the standard's rules; shares no code with vc2_conformance.

A *unit* is a dict:
    code        parse code byte
    pn          picture number carried (pictures, fragments) or None
    next, prev  the parse offsets written in the unit
    length      true length of the unit in bytes
    header_id   identity of the sequence-header payload (any hashable) for code 0x00
    cnt, x, y   fragment slice count and offsets (fragments)
A *family* gives: profile (0 LD / 3 HQ), version (header major_version), fields (bool),
slices_x, slices_y, pattern (vlib.ref.regex.Automaton of the level's data-unit pattern or None).

`judge(units, fam)` -> (accept: bool, rule: str)   rule names the first rule violated
(or "accepted").  Several sequences may follow each other; each is judged afresh.
"""

NAMES = {
    0x00: "sequence_header", 0x10: "end_of_sequence", 0x20: "auxiliary_data", 0x30: "padding_data",
    0xC8: "low_delay_picture", 0xE8: "high_quality_picture", 0xCC: "low_delay_picture_fragment",
    0xEC: "high_quality_picture_fragment",
}
PICTURES = (0xC8, 0xE8)
FRAGMENTS = (0xCC, 0xEC)
ALLOWED = {0: (0x00, 0x10, 0x20, 0x30, 0xC8, 0xCC), 3: (0x00, 0x10, 0x20, 0x30, 0xE8, 0xEC)}


def judge(units, fam):
    i = 0
    n = len(units)
    while i < n:
        j = i
        while j < n and units[j]["code"] != 0x10:
            j += 1
        seq = units[i:j + 1]
        ok, rule = judge_sequence(seq, fam, terminated=j < n)
        if not ok:
            return False, rule
        i = j + 1
    return True, "accepted"


def judge_sequence(seq, fam, terminated):
    profile, version = fam["profile"], fam["version"]
    nsl = fam["slices_x"] * fam["slices_y"]
    pat = fam.get("pattern")
    pst = pat.start() if pat is not None else None
    last_pn = None
    npics = 0
    frag_remaining = 0
    frag_received = 0
    first_header = None
    minver = 2 if profile == 3 else 1
    for i, u in enumerate(seq):
        code = u["code"]
        # the previous unit's next offset must be absent (0) or the true distance
        if i > 0:
            p = seq[i - 1]
            if p["next"] != 0 and p["next"] != p["length"]:
                return False, "next-offset-wrong"
        if i == 0 and code != 0x00:
            return False, "first-unit-not-sequence-header"
        if pst is not None:
            pst = pat.step(pst, NAMES[code])
            if not pst:
                return False, "level-pattern"
        if i > 0:
            if code not in ALLOWED[profile]:
                return False, "parse-code-not-in-profile"
            need = 3 if code in FRAGMENTS else 1
            if version < need:
                return False, "parse-code-needs-higher-version"
            minver = max(minver, need)
        if code == 0x10:
            if u["next"] != 0:
                return False, "eos-next-offset-nonzero"
        elif code not in PICTURES + FRAGMENTS:
            if u["next"] == 0:
                return False, "missing-next-offset"
        if 1 <= u["next"] < 13:
            return False, "next-offset-inside-header"
        if i == 0:
            if u["prev"] != 0:
                return False, "first-previous-offset-nonzero"
        elif u["prev"] != seq[i - 1]["length"]:
            return False, "previous-offset-wrong"
        if code == 0x00:
            if first_header is None:
                first_header = u["header_id"]
                if u["header_id"] == "SH3":
                    # this header differs from the family's only in the picture coding mode
                    fam = dict(fam, fields=not fam["fields"])
            elif u["header_id"] != first_header:
                return False, "sequence-header-changed"
        elif code in PICTURES:
            if frag_remaining:
                return False, "picture-inside-fragmented-picture"
            if last_pn is not None and u["pn"] != (last_pn + 1) & 0xFFFFFFFF:
                return False, "picture-number-not-consecutive"
            if fam["fields"] and npics % 2 == 0 and u["pn"] % 2:
                return False, "first-field-odd-number"
            last_pn = u["pn"]
            npics += 1
        elif code in FRAGMENTS:
            if u["cnt"] == 0:
                if frag_remaining:
                    return False, "fragmented-picture-restarted"
                if last_pn is not None and u["pn"] != (last_pn + 1) & 0xFFFFFFFF:
                    return False, "picture-number-not-consecutive"
                if fam["fields"] and npics % 2 == 0 and u["pn"] % 2:
                    return False, "first-field-odd-number"
                last_pn = u["pn"]
                npics += 1
                frag_remaining = nsl
                frag_received = 0
            else:
                if frag_remaining == 0:
                    # no fragmented picture in progress: either no initial fragment at
                    # all, or more slices than the picture has
                    return False, "fragment-without-picture-in-progress"
                if u["pn"] != last_pn:
                    return False, "fragment-picture-number-changed"
                if u["cnt"] > frag_remaining:
                    return False, "too-many-slices"
                if u["x"] != frag_received % fam["slices_x"] or u["y"] != frag_received // fam["slices_x"]:
                    return False, "fragment-slices-not-contiguous"
                frag_received += u["cnt"]
                frag_remaining -= u["cnt"]
    if not terminated:
        return False, "no-end-of-sequence"
    if pst is not None and not pat.accepting(pst):
        return False, "level-pattern-incomplete"
    if frag_remaining:
        return False, "incomplete-fragmented-picture"
    if fam["fields"] and npics % 2:
        return False, "odd-number-of-fields"
    if not (npics == 0 and version == 3) and version > minver:
        return False, "major-version-not-minimal"
    return True, "accepted"
