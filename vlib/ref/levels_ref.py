"""Data-unit ordering patterns of the VC-2 levels (SMPTE ST 2042-2), transcribed once from the standard's level
definitions as an independent reference: the model in vlib.ref.structure judges level-constrained histories against
THESE patterns, not against the table shipped with the code under test (a slip in that table would otherwise be
invisible: model and validator would read the same wrong pattern).  Levels not listed here fall back to the
repository's own table."""

_PICTURES_OR_FRAGMENTS = (
    "sequence_header ("
    " (sequence_header | auxiliary_data | padding_data | low_delay_picture | high_quality_picture)*"
    " | (sequence_header | auxiliary_data | padding_data | low_delay_picture_fragment | high_quality_picture_fragment)*"
    ") end_of_sequence"
)

REFERENCE_PATTERNS = {
    1: _PICTURES_OR_FRAGMENTS,
    2: _PICTURES_OR_FRAGMENTS,
    3: _PICTURES_OR_FRAGMENTS,
    4: _PICTURES_OR_FRAGMENTS,
    5: _PICTURES_OR_FRAGMENTS,
    6: _PICTURES_OR_FRAGMENTS,
    7: _PICTURES_OR_FRAGMENTS,
    64: "(sequence_header low_delay_picture)* end_of_sequence",
    65: "(sequence_header low_delay_picture)* end_of_sequence",
    66: "(sequence_header high_quality_picture)* end_of_sequence",
}

DATA_UNIT_NAMES = [
    "sequence_header", "end_of_sequence", "auxiliary_data", "padding_data", "low_delay_picture", "high_quality_picture",
    "low_delay_picture_fragment", "high_quality_picture_fragment",
]
