"""R-regex and R-search: independent reference for the symbol pattern language.

Written from the documented language (symbols, ``.``, ``$``, juxtaposition,
``|``, ``? * +``, parentheses; whitespace insignificant) and shares no code
with vc2_conformance.

R-regex
    tokenize / parse  ->  AST  ->  Glushkov position automaton
    (first / last / follow), simulated on sets of positions.
      accepts(seq)            seq is in the language
      viable(seq)             seq is a prefix of some member of the language
      next_symbols(state, U)  {s in U : prefix.s is viable}

``$`` semantics.  ``$`` is a zero-width assertion "the sequence ends here".
It is modelled as a position labelled END which no symbol ever matches:
a sequence w is accepted iff  w.$^k  (k >= 0) is in the language of the
pattern read as a plain regular expression over symbols + {$}.  Nothing can be
consumed after a ``$`` (``a $ b?`` matches only ``a``).  The property restricts
``$`` to places where nothing mandatory follows; `dollar_ok` decides that, and
under that restriction every non-empty position set is a viable prefix (every
position can reach acceptance), which is what `viable` relies on.

R-search
    shortest_completion      BFS over (position-set tuple, index into the required
                             list, consecutive-insert count): a shortest sequence
                             that contains `required` in order, is accepted by all
                             automata and never inserts more than `limit` symbols
                             in a row; or None.
    greedy_completion        the same search under the constraint "a required
                             symbol is consumed as soon as every automaton accepts
                             it" with the candidate insert symbols restricted the
                             way a wildcard-substituting generator would.  Used
                             *only* to name one known finding.

UndirectedThompson
    A what-if model (Thompson construction in which every empty move can be
    taken in both directions).  Used only to *name* one mechanism when the
    matcher over-accepts; never to judge.
"""
import collections

WILD = "."
END = "$"


class RefSyntaxError(Exception):
    pass


# --------------------------------------------------------------------------
# tokenizer + parser
# --------------------------------------------------------------------------


def tokenize(text):
    toks = []
    i, n = 0, len(text)
    while i < n:
        ch = text[i]
        if ch.isspace():
            i += 1
        elif ch.isalnum() or ch == "_":
            j = i
            while j < n and (text[j].isalnum() or text[j] == "_"):
                j += 1
            toks.append(("sym", text[i:j]))
            i = j
        elif ch in ".$?*+|()":
            toks.append((ch, ch))
            i += 1
        else:
            raise RefSyntaxError("unexpected character %r at %d" % (ch, i))
    return toks


# AST: ("sym", name) ("any",) ("end",) ("eps",)
#      ("cat", [kids]) ("alt", [kids]) ("star", kid) ("plus", kid) ("opt", kid)


def parse(text):
    toks = tokenize(text)
    pos = [0]

    def peek():
        return toks[pos[0]][0] if pos[0] < len(toks) else None

    def eat():
        pos[0] += 1
        return toks[pos[0] - 1]

    def alt():
        items = [cat()]
        while peek() == "|":
            eat()
            items.append(cat())
        return items[0] if len(items) == 1 else ("alt", items)

    def cat():
        items = []
        while peek() is not None and peek() not in ("|", ")"):
            items.append(post())
        if not items:
            return ("eps",)
        return items[0] if len(items) == 1 else ("cat", items)

    def post():
        a = atom()
        if peek() in ("*", "+", "?"):
            a = ({"*": "star", "+": "plus", "?": "opt"}[eat()[0]], a)
            if peek() in ("*", "+", "?"):
                raise RefSyntaxError("two modifiers in a row")
        return a

    def atom():
        kind, val = eat()
        if kind == "(":
            a = alt()
            if peek() != ")":
                raise RefSyntaxError("unmatched (")
            eat()
            return a
        if kind == "sym":
            return ("sym", val)
        if kind == ".":
            return ("any",)
        if kind == "$":
            return ("end",)
        raise RefSyntaxError("unexpected %r" % (val,))

    a = alt()
    if pos[0] != len(toks):
        raise RefSyntaxError("unmatched )")
    return a


def nullable(ast):
    k = ast[0]
    if k in ("eps", "end", "star", "opt"):
        return True
    if k in ("sym", "any"):
        return False
    if k == "plus":
        return nullable(ast[1])
    if k == "cat":
        return all(nullable(x) for x in ast[1])
    if k == "alt":
        return any(nullable(x) for x in ast[1])
    raise ValueError(k)


def dollar_ok(ast, tail_nullable=True):
    """True iff every ``$`` stands where nothing mandatory follows it."""
    k = ast[0]
    if k == "end":
        return tail_nullable
    if k in ("sym", "any", "eps"):
        return True
    if k in ("star", "plus", "opt"):
        # what follows the body is (body)* tail: optional iff tail is
        return dollar_ok(ast[1], tail_nullable)
    if k == "alt":
        return all(dollar_ok(x, tail_nullable) for x in ast[1])
    if k == "cat":
        kids = ast[1]
        ok = True
        t = tail_nullable
        for x in reversed(kids):
            ok = ok and dollar_ok(x, t)
            t = t and nullable(x)
        return ok
    raise ValueError(k)


def symbols_of(ast, out=None):
    out = set() if out is None else out
    k = ast[0]
    if k == "sym":
        out.add(ast[1])
    elif k in ("cat", "alt"):
        for x in ast[1]:
            symbols_of(x, out)
    elif k in ("star", "plus", "opt"):
        symbols_of(ast[1], out)
    return out


def has_kind(ast, kind):
    if ast[0] == kind:
        return True
    if ast[0] in ("cat", "alt"):
        return any(has_kind(x, kind) for x in ast[1])
    if ast[0] in ("star", "plus", "opt"):
        return has_kind(ast[1], kind)
    return False


# --------------------------------------------------------------------------
# Glushkov automaton
# --------------------------------------------------------------------------

START = -1


class Automaton(object):
    def __init__(self, pattern):
        self.ast = parse(pattern) if isinstance(pattern, str) else pattern
        self.labels = []  # position -> symbol name | WILD | END
        self.follow = []
        self.nullable, first, last = self._build(self.ast)
        self.first = frozenset(first)
        self.last = frozenset(last)
        self.follow = [frozenset(f) for f in self.follow]
        self.symbols = frozenset(l for l in self.labels if l not in (WILD, END))
        self._step_cache = {}
        self._acc_cache = {}

    def _new(self, label):
        self.labels.append(label)
        self.follow.append(set())
        return len(self.labels) - 1

    def _build(self, n):
        k = n[0]
        if k == "eps":
            return True, set(), set()
        if k in ("sym", "any", "end"):
            p = self._new(n[1] if k == "sym" else (WILD if k == "any" else END))
            return False, {p}, {p}
        if k == "cat":
            nul, first, last = True, set(), set()
            for kid in n[1]:
                kn, kf, kl = self._build(kid)
                for p in last:
                    self.follow[p] |= kf
                if nul:
                    first |= kf
                last = (last | kl) if kn else set(kl)
                nul = nul and kn
            return nul, first, last
        if k == "alt":
            nul, first, last = False, set(), set()
            for kid in n[1]:
                kn, kf, kl = self._build(kid)
                nul = nul or kn
                first |= kf
                last |= kl
            return nul, first, last
        kn, kf, kl = self._build(n[1])
        if k in ("star", "plus"):
            for p in kl:
                self.follow[p] |= kf
        return (kn or k in ("star", "opt")), kf, kl

    # state = frozenset of positions (START = nothing consumed yet)
    def start(self):
        return frozenset([START])

    def _after(self, p):
        return self.first if p == START else self.follow[p]

    def step(self, state, sym):
        key = (state, sym)
        r = self._step_cache.get(key)
        if r is None:
            out = set()
            for p in state:
                for q in self._after(p):
                    l = self.labels[q]
                    if l == sym or l == WILD:
                        out.add(q)
            r = self._step_cache[key] = frozenset(out)
        return r

    def accepting(self, state):
        r = self._acc_cache.get(state)
        if r is None:
            # close over END positions: "the sequence ends here" may be asserted
            # any number of times once the input is exhausted
            seen = set(state)
            todo = list(state)
            while todo:
                p = todo.pop()
                for q in self._after(p):
                    if self.labels[q] == END and q not in seen:
                        seen.add(q)
                        todo.append(q)
            r = any((p == START and self.nullable) or p in self.last for p in seen)
            self._acc_cache[state] = r
        return r

    def next_labels(self, state):
        """Labels on the positions that may come next (symbol names, WILD, END)."""
        return set(self.labels[q] for p in state for q in self._after(p))

    def next_symbols(self, state, universe):
        return set(s for s in universe if self.step(state, s))

    def run(self, seq):
        s = self.start()
        for x in seq:
            s = self.step(s, x)
            if not s:
                return s
        return s

    def accepts(self, seq):
        s = self.run(seq)
        return bool(s) and self.accepting(s)

    def viable(self, seq):
        return bool(self.run(seq))


# --------------------------------------------------------------------------
# R-search
# --------------------------------------------------------------------------


def _unwind(parents, key):
    out = []
    while parents[key] is not None:
        key, sym = parents[key]
        out.append(sym)
    out.reverse()
    return out


def shortest_completion(required, autos, limit, alphabet):
    """A shortest list that embeds `required` in order, is accepted by every
    automaton and has at most `limit` consecutive inserted symbols; or None.
    `alphabet` must contain every symbol worth inserting (all pattern symbols
    plus one symbol no pattern names)."""
    required = list(required)
    start = (tuple(a.start() for a in autos), 0, 0)
    parents = {start: None}
    q = collections.deque([start])
    while q:
        key = q.popleft()
        states, idx, ins = key
        if idx == len(required) and all(a.accepting(s) for a, s in zip(autos, states)):
            return _unwind(parents, key)
        moves = []
        if idx < len(required):
            moves.append((required[idx], idx + 1, 0))
        if ins < limit:
            for s in alphabet:
                moves.append((s, idx, ins + 1))
        for sym, nidx, nins in moves:
            ns = tuple(a.step(s, sym) for a, s in zip(autos, states))
            if all(ns):
                nk = (ns, nidx, nins)
                if nk not in parents:
                    parents[nk] = (key, sym)
                    q.append(nk)
    return None


def greedy_candidates(autos, states, pattern_symbols, priority, fresh):
    """Insert candidates of a generator that offers every concretely named
    symbol all automata accept and, where all accept *anything*, either the
    preferred symbols (if given) or one anonymous symbol."""
    cands = [s for s in pattern_symbols if all(a.step(st, s) for a, st in zip(autos, states))]
    if all(a.step(st, fresh) for a, st in zip(autos, states)):
        if priority:
            cands.extend(s for s in priority if s not in cands)
        else:
            cands.append(fresh)
    return cands


def greedy_completion(required, autos, limit, pattern_symbols, priority, fresh):
    """Shortest completion under the constraint "the next required symbol is
    consumed as soon as every automaton accepts it" (no insertion is
    considered in that situation)."""
    required = list(required)
    pattern_symbols = sorted(pattern_symbols)
    start = (tuple(a.start() for a in autos), 0, 0)
    parents = {start: None}
    q = collections.deque([start])
    while q:
        key = q.popleft()
        states, idx, ins = key
        if idx == len(required):
            if all(a.accepting(s) for a, s in zip(autos, states)):
                return _unwind(parents, key)
        else:
            ns = tuple(a.step(s, required[idx]) for a, s in zip(autos, states))
            if all(ns):
                nk = (ns, idx + 1, 0)
                if nk not in parents:
                    parents[nk] = (key, required[idx])
                    q.append(nk)
                continue
        if ins < limit:
            for sym in greedy_candidates(autos, states, pattern_symbols, priority, fresh):
                ns = tuple(a.step(s, sym) for a, s in zip(autos, states))
                if all(ns):
                    nk = (ns, idx, ins + 1)
                    if nk not in parents:
                        parents[nk] = (key, sym)
                        q.append(nk)
    return None


def embeds_within_limit(result, required, limit):
    """Is there an order-preserving embedding of `required` into `result` in
    which no run of non-embedded symbols is longer than `limit`?  Returns
    (is_supersequence_at_all, within_limit)."""
    result, required = list(result), list(required)
    n, m = len(result), len(required)

    def search(lim):
        # states: (idx into required, current run); iterate over result
        cur = {(0, 0)}
        for x in result:
            nxt = set()
            for idx, run in cur:
                if idx < m and required[idx] == x:
                    nxt.add((idx + 1, 0))
                if lim is None or run < lim:
                    nxt.add((idx, 0 if lim is None else run + 1))
            cur = nxt
            if not cur:
                return False
        return any(idx == m for idx, _ in cur)

    sup = search(None)
    return sup, (sup and search(limit))


def is_greedy_path(result, required, autos, limit):
    """Does `result` consume each required symbol at the first point where all
    automata accept it, inserting (at most `limit` in a row) only elsewhere?"""
    required = list(required)
    states = tuple(a.start() for a in autos)
    idx, run = 0, 0
    for x in result:
        forced = idx < len(required) and all(a.step(s, required[idx]) for a, s in zip(autos, states))
        if forced:
            if x != required[idx]:
                return False
            idx += 1
            run = 0
        else:
            run += 1
            if run > limit:
                return False
        states = tuple(a.step(s, x) for a, s in zip(autos, states))
        if not all(states):
            return False
    return idx == len(required)


# --------------------------------------------------------------------------
# what-if model: Thompson construction whose empty moves go both ways
# --------------------------------------------------------------------------


class UndirectedThompson(object):
    """Textbook Thompson construction (fresh start/final pair for | and *,
    x+ as x x*, x? as x|empty) with every empty edge usable in both
    directions.  Only used to put a name on an over-acceptance."""

    def __init__(self, pattern):
        ast = parse(pattern) if isinstance(pattern, str) else pattern
        self.eps = collections.defaultdict(set)
        self.edges = collections.defaultdict(list)  # node -> [(label, node)]
        self.n = 0
        self.s, self.f = self._build(ast)

    def _node(self):
        self.n += 1
        return self.n - 1

    def _link(self, a, b):
        self.eps[a].add(b)
        self.eps[b].add(a)

    def _build(self, n):
        k = n[0]
        if k == "eps":
            x = self._node()
            return x, x
        if k in ("sym", "any", "end"):
            s, f = self._node(), self._node()
            self.edges[s].append((n[1] if k == "sym" else (WILD if k == "any" else END), f))
            return s, f
        if k == "cat":
            s, f = self._build(n[1][0])
            for kid in n[1][1:]:
                s2, f2 = self._build(kid)
                self._link(f, s2)
                f = f2
            return s, f
        if k == "alt":
            s, f = self._build(n[1][0])
            for kid in n[1][1:]:
                s2, f2 = self._build(kid)
                ns, nf = self._node(), self._node()
                self._link(ns, s)
                self._link(ns, s2)
                self._link(f, nf)
                self._link(f2, nf)
                s, f = ns, nf
            return s, f
        if k == "opt":
            return self._build(("alt", [n[1], ("eps",)]))
        if k == "plus":
            return self._build(("cat", [n[1], ("star", n[1])]))
        if k == "star":
            s1, f1 = self._build(n[1])
            s, f = self._node(), self._node()
            self._link(s, f)
            self._link(s, s1)
            self._link(f1, s1)
            self._link(f1, f)
            return s, f
        raise ValueError(k)

    def _closure(self, nodes):
        seen = set(nodes)
        todo = list(nodes)
        while todo:
            x = todo.pop()
            for y in self.eps[x]:
                if y not in seen:
                    seen.add(y)
                    todo.append(y)
        return seen

    def start(self):
        return frozenset([self.s])

    def step(self, state, sym):
        out = set()
        for x in self._closure(state):
            for l, y in self.edges[x]:
                if l == sym or l == WILD:
                    out.add(y)
        return frozenset(out)

    def accepting(self, state):
        c = self._closure(state)
        return self.f in c or any(l == END for x in c for l, _ in self.edges[x])

    def run(self, seq):
        s = self.start()
        for x in seq:
            s = self.step(s, x)
            if not s:
                break
        return s
