"""R-slices — closed-form subband dimensions, slice bounds and low-delay slice
sizes, written from SMPTE ST 2042-1 (13.2.3, 13.5.3.2, 13.5.6.2) and the
statement of property C13.  Shares no code with vc2_conformance.

Geometry of one component of size ``dim_w x dim_h`` under ``dwt_depth_ho``
horizontal-only levels followed by ``dwt_depth`` two-dimensional levels:

* the component is padded up to a multiple of 2^(dwt_depth_ho + dwt_depth)
  horizontally and 2^dwt_depth vertically;
* the DC band (level 0) is the padded size divided by those scales, i.e.
  ceil(dim / scale);
* every level L >= 1 doubles the width of the previous one; the height doubles
  only for the two-dimensional levels (L > dwt_depth_ho).
"""


def ceil_div(a, b):
    return -((-a) // b)


def padded_size(dim_w, dim_h, dwt_depth, dwt_depth_ho):
    """(padded width, padded height) of a component."""
    sw = 2 ** (dwt_depth + dwt_depth_ho)
    sh = 2 ** dwt_depth
    return ceil_div(dim_w, sw) * sw, ceil_div(dim_h, sh) * sh


def subband_size(dim_w, dim_h, dwt_depth, dwt_depth_ho, level):
    """(width, height) of every subband of `level` (0 = DC band)."""
    dc_w = ceil_div(dim_w, 2 ** (dwt_depth + dwt_depth_ho))
    dc_h = ceil_div(dim_h, 2 ** dwt_depth)
    if level == 0:
        return dc_w, dc_h
    doublings_w = level - 1
    doublings_h = max(0, level - 1 - dwt_depth_ho)
    return dc_w * 2 ** doublings_w, dc_h * 2 ** doublings_h


def orientations(dwt_depth, dwt_depth_ho, level):
    """Names of the subbands present at `level`."""
    if level == 0:
        return ("LL",) if dwt_depth_ho == 0 else ("L",)
    if level <= dwt_depth_ho:
        return ("H",)
    return ("HL", "LH", "HH")


def slice_edges(band_dim, n_slices):
    """The n_slices + 1 edges cutting [0, band_dim) into slices: slice i covers
    [edges[i], edges[i + 1])."""
    return [(band_dim * i) // n_slices for i in range(n_slices + 1)]


def is_partition(lefts, rights, band_dim):
    """True iff the ranges [lefts[i], rights[i]) are in order, disjoint, gap-free
    and cover [0, band_dim) exactly.  Returns (ok, reason)."""
    if not lefts or len(lefts) != len(rights):
        return False, "empty"
    if lefts[0] != 0:
        return False, "first-not-zero"
    if rights[-1] != band_dim:
        return False, "last-not-dim"
    for i in range(len(lefts)):
        if rights[i] < lefts[i]:
            return False, "negative-range"
        if i and lefts[i] != rights[i - 1]:
            return False, "gap" if lefts[i] > rights[i - 1] else "overlap"
    return True, ""


def all_equal_sizes(edges):
    """True iff all slices delimited by `edges` have the same extent."""
    first = edges[1] - edges[0]
    return all(edges[i + 1] - edges[i] == first for i in range(len(edges) - 1))


def same_dimensions(components, dwt_depth, dwt_depth_ho, slices_x, slices_y):
    """The truth the `slices_have_same_dimensions` flag must report: every
    slice in every band of every component (list of (w, h)) has equal size."""
    for (w, h) in components:
        for level in range(dwt_depth + dwt_depth_ho + 1):
            bw, bh = subband_size(w, h, dwt_depth, dwt_depth_ho, level)
            if not all_equal_sizes(slice_edges(bw, slices_x)):
                return False
            if not all_equal_sizes(slice_edges(bh, slices_y)):
                return False
    return True


def ld_slice_bytes(slice_number, numerator, denominator):
    """Bytes of low-delay slice `slice_number` (raster order): the difference of
    two consecutive terms of floor(k * num / den), so that the sizes telescope."""
    return ((slice_number + 1) * numerator) // denominator - (slice_number * numerator) // denominator


def ld_picture_bytes(n_slices, numerator, denominator):
    """Sum of all slice sizes of a picture."""
    return (n_slices * numerator) // denominator
