"""R-bits / R-golomb: a list-of-bits model of a VC-2 bit stream.

Written from the statements of properties C20/C21 and annex A of the VC-2
specification; shares no code with vc2_conformance (and must not import it).

Stream model
------------
A stream is a Python list of 0/1 with a cursor ``pos`` (index of the next bit;
bit 0 is the most significant bit of byte 0, so ``tell() == (pos // 8, 7 - pos % 8)``).

Bounded block: ``begin_block(length)`` sets ``left = length`` (any integer).
Every read/write of one bit first decrements ``left``; if it has become
negative the bit lies past the end of the block: a read yields 1 and does not
move the cursor; a written 1 is swallowed, a written 0 is an error
(``ZeroPastBlockEnd``).  ``end_block()`` returns the number of unused bits
``max(0, left)``.  A negative ``length`` therefore simply means that every bit
of the block is past its end.

Writer bytes: the medium is byte granular.  A byte the writer *enters* (cursor
arrives at its first bit by sequential writing, or ``wseek`` lands inside it at a
bit other than the first) is replaced as a whole: the bits not subsequently
written are 0 (documented: "seeking to a given byte will overwrite any bits
already set in that byte to 0"; at the end of the stream this is the usual zero
padding of the final partial byte).

exp-Golomb (A.4.3/A.4.4): value v >= 0 is coded by writing v+1 in binary as
1 b_{k-1} ... b_0 and emitting  0 b_{k-1} 0 b_{k-2} ... 0 b_0 1 ; a signed value
is |v| followed, when v != 0, by a sign bit (1 = negative).
"""


class BitsError(Exception):
    pass


class EndOfBits(BitsError):
    """A real (in-block or unbounded) read beyond the last bit of the stream."""


class ZeroPastBlockEnd(BitsError):
    """A 0 was written past the end of a bounded block."""


class ValueOutOfRange(BitsError):
    """The value cannot be represented by the requested primitive."""


# --------------------------------------------------------------------- R-golomb
def uint_bits(v):
    """Bits of the unsigned exp-Golomb code of v >= 0, from the definition."""
    if v < 0:
        raise ValueOutOfRange(v)
    digits = []
    x = v + 1
    while x > 1:  # binary digits of v+1 below the leading 1, least significant first
        digits.append(x % 2)
        x //= 2
    out = []
    for d in reversed(digits):
        out.append(0)
        out.append(d)
    out.append(1)
    return out


def sint_bits(v):
    out = uint_bits(-v if v < 0 else v)
    if v != 0:
        out.append(1 if v < 0 else 0)
    return out


def uint_length(v):
    if v < 0:
        raise ValueOutOfRange(v)
    k = 0
    x = v + 1
    while x > 1:
        x //= 2
        k += 1
    return 2 * k + 1


def sint_length(v):
    return uint_length(-v if v < 0 else v) + (1 if v != 0 else 0)


def nbits_bits(n, v):
    if n < 0 or v < 0 or v >= 2 ** n:
        raise ValueOutOfRange((n, v))
    return [(v // (2 ** i)) % 2 for i in range(n - 1, -1, -1)]


def bytes_bits(data):
    out = []
    for byte in bytearray(data):
        out.extend(nbits_bits(8, byte))
    return out


def bits_to_int(bits):
    v = 0
    for b in bits:
        v = v * 2 + b
    return v


def bits_to_bytes(bits):
    bits = list(bits) + [0] * ((-len(bits)) % 8)
    return bytes(bits_to_int(bits[i:i + 8]) for i in range(0, len(bits), 8))


def bits_from_bytes(data):
    return bytes_bits(data)


def pair(pos):
    """bit index -> (byte offset, bit number 7..0) as reported by tell()."""
    return (pos // 8, 7 - pos % 8)


def unpair(byte, bit):
    return byte * 8 + (7 - bit)


# ----------------------------------------------------------------------- R-bits
class BitModel(object):
    def __init__(self, bits=()):
        self.bits = list(bits)
        self.pos = 0
        self.left = None  # None: not in a bounded block

    # -- positions -----------------------------------------------------------
    def tell(self):
        return pair(self.pos)

    def begin_block(self, length):
        assert self.left is None
        self.left = length

    def end_block(self):
        assert self.left is not None
        unused = self.left if self.left > 0 else 0
        self.left = None
        return unused

    def unused(self):
        return None if self.left is None else (self.left if self.left > 0 else 0)

    def rseek(self, pos):
        """Reader seek.  Inside a block only while no bit past the end has been
        touched and only to positions not beyond the block end."""
        if self.left is not None:
            delta = pos - self.pos
            assert self.left >= 0 and delta <= self.left
            self.left -= delta
        self.pos = pos

    def wseek(self, pos):
        """Writer seek (outside bounded blocks)."""
        assert self.left is None
        self.pos = pos
        if pos % 8 != 0:
            self._replace_byte(pos)

    # -- single bits ---------------------------------------------------------
    def read_bit(self):
        if self.left is not None:
            self.left -= 1
            if self.left < 0:
                return 1
        if self.pos >= len(self.bits):
            raise EndOfBits()
        b = self.bits[self.pos]
        self.pos += 1
        return b

    def _replace_byte(self, pos):
        start = pos - pos % 8
        if len(self.bits) < start + 8:
            self.bits.extend([0] * (start + 8 - len(self.bits)))
        for i in range(start, start + 8):
            self.bits[i] = 0

    def write_bit(self, b):
        b = 1 if b else 0
        if self.left is not None:
            self.left -= 1
            if self.left < 0:
                if b == 0:
                    raise ZeroPastBlockEnd()
                return
        if self.pos % 8 == 0:
            self._replace_byte(self.pos)
        self.bits[self.pos] = b
        self.pos += 1

    # -- compound ------------------------------------------------------------
    def read_bits(self, n):
        return [self.read_bit() for _ in range(n)]

    def write_bits(self, bits):
        for b in bits:
            self.write_bit(b)

    def read_nbits(self, n):
        return bits_to_int(self.read_bits(n))

    def write_nbits(self, n, v):
        self.write_bits(nbits_bits(n, v))

    def read_uint(self):
        value = 1
        while self.read_bit() == 0:
            value = value * 2 + self.read_bit()
        return value - 1

    def read_sint(self):
        value = self.read_uint()
        if value != 0 and self.read_bit() == 1:
            value = -value
        return value

    def write_uint(self, v):
        self.write_bits(uint_bits(v))

    def write_sint(self, v):
        self.write_bits(sint_bits(v))

    def accepts(self, bits):
        """Would writing `bits` now be accepted (no 0 past the block end)?"""
        if self.left is None:
            return True
        left = self.left
        for b in bits:
            left -= 1
            if left < 0 and not b:
                return False
        return True

    def to_bytes(self):
        return bits_to_bytes(self.bits)
