"""Tiny reference quantiser / exp-Golomb length functions written from
SMPTE ST 2042-1 (13.3.1 inverse_quant, 13.3.2 quant_factor/quant_offset) and
the informative forward quantiser; shares no code with vc2_conformance."""


def quant_factor(index):
    base = 1 << (index // 4)
    r = index % 4
    if r == 0:
        return 4 * base
    if r == 1:
        return (503829 * base + 52958) // 105917
    if r == 2:
        return (665857 * base + 58854) // 117708
    return (440253 * base + 32722) // 65444


def quant_offset(index):
    if index == 0:
        return 1
    if index == 1:
        return 2
    return (quant_factor(index) + 1) // 2


def inverse_quant(value, index):
    if value == 0:
        return 0
    m = (abs(value) * quant_factor(index) + quant_offset(index) + 2) // 4
    return m if value > 0 else -m


def forward_quant(x, index):
    m = (4 * abs(x)) // quant_factor(index)
    return m if x >= 0 else -m


def uint_length(v):
    """bits in the interleaved exp-Golomb code of unsigned v"""
    return 2 * ((v + 1).bit_length() - 1) + 1


def sint_length(v):
    return uint_length(abs(v)) + (1 if v else 0)


def coeffs_bits(vals):
    """bits needed inside a bounded block: trailing zeros are free"""
    n = len(vals)
    while n and vals[n - 1] == 0:
        n -= 1
    return sum(sint_length(v) for v in vals[:n])


def intlog2(n):
    return (n - 1).bit_length()


def slice_bytes(sx, sy, slices_x, num, den):
    """(13.5.3.2)"""
    k = sy * slices_x + sx
    return ((k + 1) * num) // den - (k * num) // den
