"""R-features — the documented domain of a ``CodecFeatures`` value.

Written from the ``CodecFeatures`` docstring (vc2_conformance/codec_features.py)
and the user guide section "Defining codec features"
(docs/source/user_guide/generating_test_cases.rst).  It does not call any of
the repository's parsing/validation code; only the ``vc2_data_tables``
enumerations are consulted for enum membership.

``problems(name_key, cf)`` returns a list of (mechanism, text) for one returned
configuration; ``[]`` means in-domain.
"""
import vc2_data_tables as t

# top level entries of a CodecFeatures value (docstring "Parameters")
TOP_KEYS = [
    "name", "level", "profile", "picture_coding_mode", "video_parameters",
    "wavelet_index", "wavelet_index_ho", "dwt_depth", "dwt_depth_ho",
    "slices_x", "slices_y", "fragment_slice_count", "lossless",
    "picture_bytes", "quantization_matrix",
]

TOP_ENUMS = {
    "level": t.Levels,
    "profile": t.Profiles,
    "picture_coding_mode": t.PictureCodingModes,
    "wavelet_index": t.WaveletFilters,
    "wavelet_index_ho": t.WaveletFilters,
}

# integers and the smallest meaningful value: depths and the fragment slice
# count may be zero (user guide: "If zero, non-fragmented picture coding is
# used"); slice counts are counts of at least one slice.
TOP_INT_MIN = {
    "dwt_depth": 0,
    "dwt_depth_ho": 0,
    "slices_x": 1,
    "slices_y": 1,
    "fragment_slice_count": 0,
}

PICTURE_BYTES_MIN = 1

VP_ENUMS = {
    "color_diff_format_index": t.ColorDifferenceSamplingFormats,
    "source_sampling": t.SourceSamplingModes,
    "color_primaries_index": t.PresetColorPrimaries,
    "color_matrix_index": t.PresetColorMatrices,
    "transfer_function_index": t.PresetTransferFunctions,
}

# video parameters (11.4): dimensions, rate and ratio terms and excursions are
# strictly positive; clean area sizes, offsets and signal offsets are
# non-negative.
VP_INT_MIN = {
    "frame_width": 1,
    "frame_height": 1,
    "frame_rate_numer": 1,
    "frame_rate_denom": 1,
    "pixel_aspect_ratio_numer": 1,
    "pixel_aspect_ratio_denom": 1,
    "clean_width": 0,
    "clean_height": 0,
    "left_offset": 0,
    "top_offset": 0,
    "luma_offset": 0,
    "luma_excursion": 1,
    "color_diff_offset": 0,
    "color_diff_excursion": 1,
}

VP_BOOLS = ["top_field_first"]


def _is_int(v):
    return isinstance(v, int) and not isinstance(v, bool)


def _enum_member(enum_type, v):
    if isinstance(v, enum_type):
        return True
    # a plain integer equal to a member's number designates that member
    return _is_int(v) and any(int(m) == v for m in enum_type)


def quant_matrix_shape(dwt_depth, dwt_depth_ho):
    """{level: set(orientations)} of (12.4.5.3) quant_matrix for the depths."""
    shape = {}
    if dwt_depth_ho == 0:
        shape[0] = {"LL"}
    else:
        shape[0] = {"L"}
        for level in range(1, dwt_depth_ho + 1):
            shape[level] = {"H"}
    for level in range(dwt_depth_ho + 1, dwt_depth_ho + dwt_depth + 1):
        shape[level] = {"HL", "LH", "HH"}
    return shape


def problems(name_key, cf):
    out = []

    def bad(mech, text):
        out.append((mech, text))

    try:
        keys = set(cf.keys())
    except Exception:
        return [("not-a-mapping", "returned configuration %r is not a mapping" % (cf,))]
    for k in TOP_KEYS:
        if k not in keys:
            bad("missing-field:" + k, "field %s absent" % k)
    for k in sorted(keys - set(TOP_KEYS), key=repr):
        bad("extra-field", "undocumented field %r present" % (k,))
    if out:
        return out

    # name
    if not isinstance(cf["name"], str):
        bad("name-type", "name %r is not a string" % (cf["name"],))
    elif cf["name"] != name_key:
        bad("name-key-mismatch", "dictionary key %r holds configuration named %r" % (name_key, cf["name"]))

    for k, e in TOP_ENUMS.items():
        if not _enum_member(e, cf[k]):
            bad("enum:" + k, "%s = %r is not a member of %s" % (k, cf[k], e.__name__))
    for k, m in TOP_INT_MIN.items():
        v = cf[k]
        if not _is_int(v):
            bad("int-type:" + k, "%s = %r is not an integer" % (k, v))
        elif v < m:
            bad("int-min:" + k, "%s = %r below documented minimum %d" % (k, v, m))

    # lossless / picture_bytes
    ll = cf["lossless"]
    pb = cf["picture_bytes"]
    if not isinstance(ll, bool):
        bad("bool-type:lossless", "lossless = %r is not a bool" % (ll,))
    else:
        if ll and pb is not None:
            bad("picture-bytes-with-lossless", "lossless configuration carries picture_bytes = %r" % (pb,))
        if not ll:
            if pb is None:
                bad("picture-bytes-missing-for-lossy", "lossy configuration has picture_bytes None")
            elif not _is_int(pb):
                bad("int-type:picture_bytes", "picture_bytes = %r is not an integer" % (pb,))
            elif pb < PICTURE_BYTES_MIN:
                bad("int-min:picture_bytes", "picture_bytes = %r below documented minimum %d" % (pb, PICTURE_BYTES_MIN))

    # video parameters
    vp = cf["video_parameters"]
    try:
        vkeys = set(vp.keys())
    except Exception:
        bad("video-parameters-type", "video_parameters = %r is not a mapping" % (vp,))
        vkeys = None
    if vkeys is not None:
        wanted = set(VP_ENUMS) | set(VP_INT_MIN) | set(VP_BOOLS)
        for k in sorted(wanted - vkeys):
            bad("missing-field:" + k, "video parameter %s absent" % k)
        for k in sorted(vkeys - wanted, key=repr):
            bad("extra-field", "undocumented video parameter %r present" % (k,))
        for k, e in VP_ENUMS.items():
            if k in vkeys and not _enum_member(e, vp[k]):
                bad("enum:" + k, "%s = %r is not a member of %s" % (k, vp[k], e.__name__))
        for k, m in VP_INT_MIN.items():
            if k not in vkeys:
                continue
            v = vp[k]
            if not _is_int(v):
                bad("int-type:" + k, "%s = %r is not an integer" % (k, v))
            elif v < m:
                bad("int-min:" + k, "%s = %r below documented minimum %d" % (k, v, m))
        for k in VP_BOOLS:
            if k in vkeys and not isinstance(vp[k], bool):
                bad("bool-type:" + k, "%s = %r is not a bool" % (k, vp[k]))

    # quantisation matrix
    qm = cf["quantization_matrix"]
    if qm is not None:
        d, dh = cf["dwt_depth"], cf["dwt_depth_ho"]
        if _is_int(d) and _is_int(dh) and d >= 0 and dh >= 0:
            try:
                got = {lvl: set(orients.keys()) for lvl, orients in qm.items()}
            except Exception:
                got = None
            # compare sizes first: the depths may be astronomically large while
            # the matrix actually held in memory is necessarily small
            if got is None or len(got) != d + dh + 1 or got != quant_matrix_shape(d, dh):
                bad("quant-matrix-shape", "quantisation matrix %s does not have the shape for dwt_depth=%d dwt_depth_ho=%d" % (repr(qm)[:300], d, dh))
            else:
                for lvl, orients in qm.items():
                    for o, v in orients.items():
                        if not _is_int(v):
                            bad("quant-matrix-value-type", "quantisation matrix entry [%r][%r] = %r is not an integer" % (lvl, o, v))
    return out
