"""R-quant — quantisation factors/offsets, forward and inverse quantisation,
written from SMPTE ST 2042-1 (13.3.1, 13.3.2) and the statement of property
C12.  Shares no code with vc2_conformance.  All comparisons are exact (integer
cross-multiplication or fractions); no floating point anywhere.

(13.3.2) defines quant_factor(index) as an integer approximation of
4 * 2^(index/4): with base = 2^(index div 4),

    index mod 4 == 0 :  4 * base
    index mod 4 == 1 :  (503829 * base + 52958) div 105917
    index mod 4 == 2 :  (665857 * base + 58854) div 117708
    index mod 4 == 3 :  (440253 * base + 32722) div 65444

and quant_offset(index) as 1 for index 0, 2 for index 1 and
(quant_factor(index) + 1) div 2 otherwise.
"""
from fractions import Fraction

# residue -> (multiplier, rounding term, divisor)
_RATIONAL = {
    0: (4, 0, 1),
    1: (503829, 52958, 105917),
    2: (665857, 58854, 117708),
    3: (440253, 32722, 65444),
}


def factor(index):
    mul, rnd, div = _RATIONAL[index % 4]
    return (mul * (1 << (index // 4)) + rnd) // div


def offset(index):
    if index == 0:
        return 1
    if index == 1:
        return 2
    return (factor(index) + 1) // 2


def forward(coeff, index):
    """Quantise: the magnitude is divided by factor/4, rounding towards zero."""
    q = (4 * abs(coeff)) // factor(index)
    return -q if coeff < 0 else q


def inverse(quantised, index):
    """Dequantise (13.3.1)."""
    if quantised == 0:
        return 0
    m = (abs(quantised) * factor(index) + offset(index) + 2) // 4
    return -m if quantised < 0 else m


def within_one_step(original, reconstructed, qf):
    """|original - reconstructed| < qf / 4, exactly."""
    return 4 * abs(original - reconstructed) < qf


def sign_kept(original, reconstructed):
    """The reconstruction is zero or has the sign of the original."""
    if reconstructed == 0:
        return True
    return (reconstructed > 0) == (original > 0) and original != 0


def tracks_power_of_two(index, qf):
    """True iff `qf` is the integer nearest to 4 * 2^(index/4) up to the accuracy
    of the standard's rational constants (relative 1e-11) — decided exactly on
    fourth powers:  (qf - e)^4 <= 2^(index + 8) <= (qf + e)^4."""
    e = Fraction(1, 2) + Fraction(1, 1000) + Fraction(qf, 10 ** 11)
    target = 1 << (index + 8)
    lo = Fraction(qf) - e
    hi = Fraction(qf) + e
    return (lo <= 0 or lo ** 4 <= target) and target <= hi ** 4
